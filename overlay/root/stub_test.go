package licenseclassifier

// Replaces classifier_test.go in the overlay of the verification drivers: the package's own TestMain needs
// licenses.db, which is not part of this tree.
