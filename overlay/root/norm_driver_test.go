//go:build verif

package licenseclassifier

// C16, leg G: every input enumerated by specs/V1Normalize.tla through the real normaliser pipeline
// (normalizeText = the Normalizers in order); the result must be the spec's, byte for byte.

import (
	"encoding/json"
	"fmt"
	"os"
	"strings"
	"testing"
)

var nmIn = map[string]string{"COPY": "©", "ENDASH": "–", "EMDASH": "—", "FIGDASH": "‒", "LQUOTE": "‘", "RQUOTE": "’", "LDQUOTE": "“", "RDQUOTE": "”", "SECT": "§", "CURR": "¤", "MIDDOT": "·"}

func nmText(syms []string) string {
	var sb strings.Builder
	for _, s := range syms {
		if v, ok := nmIn[s]; ok {
			sb.WriteString(v)
		} else {
			sb.WriteString(s)
		}
	}
	return sb.String()
}

func TestVerifNormReplay(t *testing.T) {
	out := vuOpenOut("VERIF_OUT")
	defer out.Close()
	n, nontrivial, bad := 0, 0, 0
	var samples []json.RawMessage
	vuVectors(os.Getenv("VERIF_IN"), func(raw []byte) bool {
		var v struct {
			I []string `json:"i"`
			N []string `json:"n"`
		}
		if json.Unmarshal(raw, &v) != nil {
			return true
		}
		n++
		in, want := nmText(v.I), nmText(v.N)
		if len(v.N) > 0 && len(v.N) != len(v.I) {
			nontrivial++
			if len(samples) < 3 && nontrivial%500 == 9 {
				samples = append(samples, append([]byte(nil), raw...))
			}
		}
		got := ""
		why := ""
		func() {
			defer func() {
				if p := recover(); p != nil {
					why = fmt.Sprintf("panic: %v", p)
				}
			}()
			got = normalizeText(in)
		}()
		if why == "" && got != want {
			why = fmt.Sprintf("normalizeText(%q) = %q, spec %q", in, got, want)
		}
		if why != "" {
			bad++
			if bad <= 8 {
				out.Emit(map[string]interface{}{"kind": "mismatch", "why": why, "spec": json.RawMessage(raw)})
			}
		}
		return true
	})
	out.Emit(map[string]interface{}{"kind": "summary", "vectors": n, "nontrivial": nontrivial, "mismatches": bad, "samples": samples})
}
