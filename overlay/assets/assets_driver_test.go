//go:build verif

package assets

// C12, last sentence: DefaultClassifier is equivalent to LoadLicenses on the assets directory.
// Black-box (package assets cannot see the classifier's internals): identical Match results on every
// embedded document.

import (
	"encoding/json"
	"fmt"
	"io/fs"
	"os"
	"path/filepath"
	"strings"
	"testing"

	classifier "github.com/google/licenseclassifier/v2"
)

func TestVerifDefaultClassifier(t *testing.T) {
	f, err := os.OpenFile(os.Getenv("VERIF_OUT"), os.O_CREATE|os.O_WRONLY|os.O_APPEND, 0644)
	if err != nil {
		t.Fatal(err)
	}
	defer f.Close()
	emit := func(m map[string]interface{}) { b, _ := json.Marshal(m); f.Write(append(b, '\n')) }
	dc, err := DefaultClassifier()
	if err != nil {
		emit(map[string]interface{}{"kind": "default", "why": "DefaultClassifier: " + err.Error()})
		return
	}
	abs, _ := filepath.Abs(".")
	lc := classifier.NewClassifier(.8)
	why := ""
	func() {
		defer func() {
			if p := recover(); p != nil {
				why = fmt.Sprintf("LoadLicenses panic: %v", p)
			}
		}()
		if e := lc.LoadLicenses(abs); e != nil {
			why = "LoadLicenses: " + e.Error()
		}
	}()
	n, diffs := 0, 0
	proj := func(r classifier.Results) string {
		var sb strings.Builder
		fmt.Fprintf(&sb, "total=%d", r.TotalInputLines)
		for _, m := range r.Matches {
			fmt.Fprintf(&sb, " [%s/%s/%s %v %d-%d %d-%d]", m.MatchType, m.Name, m.Variant, m.Confidence, m.StartLine, m.EndLine, m.StartTokenIndex, m.EndTokenIndex)
		}
		return sb.String()
	}
	if why == "" {
		fs.WalkDir(licenseFS, ".", func(path string, d fs.DirEntry, err error) error {
			if err != nil || d.IsDir() {
				return nil
			}
			b, _ := licenseFS.ReadFile(path)
			n++
			in := append(append([]byte("zzqxv qqzzk\n"), b...), []byte("\nxqzvv\n")...)
			if a, c := proj(dc.Match(in)), proj(lc.Match(in)); a != c {
				diffs++
				if why == "" {
					why = fmt.Sprintf("%s: DefaultClassifier %s, LoadLicenses %s", path, a, c)
				}
			}
			return nil
		})
	}
	// a caller extends its DefaultClassifier: a later DefaultClassifier() is still the assets corpus only
	if why == "" {
		private := []byte("this private corporate end user agreement grants nobody anything whatsoever and forbids frobnication of the gadget forever\n")
		dc.AddContent("License", "Private-Corp-EULA", "license.txt", private)
		dc2, err := DefaultClassifier()
		if err != nil {
			why = "second DefaultClassifier: " + err.Error()
		} else if a, c := proj(dc2.Match(private)), proj(lc.Match(private)); a != c {
			why = fmt.Sprintf("after AddContent on the first instance, a second DefaultClassifier() differs from LoadLicenses: %s vs %s", a, c)
			diffs++
		}
	}
	emit(map[string]interface{}{"kind": "default", "inputs": n, "diffs": diffs, "why": why})
}
