//go:build verif

package PKG

// Shared helpers of the /verif overlay drivers (injected into several packages with
// `go test -overlay`; the package clause is rewritten). Kept to go1.16 language level.

import (
	"bufio"
	"encoding/base64"
	"encoding/json"
	"fmt"
	"os"
	"strconv"
	"sync"
)

// vuVectors streams the JSON values TLC printed with PrintT(ToJson(..)): each is a
// line holding a TLA+ string literal whose content is JSON. Plain JSON lines are accepted too.
func vuVectors(path string, fn func(raw []byte) bool) error {
	f, err := os.Open(path)
	if err != nil {
		return err
	}
	defer f.Close()
	r := bufio.NewReaderSize(f, 1<<20)
	for {
		line, err := r.ReadBytes('\n')
		if len(line) > 1 {
			for len(line) > 0 && (line[len(line)-1] == '\n' || line[len(line)-1] == '\r') {
				line = line[:len(line)-1]
			}
			if len(line) > 2 && line[0] == '"' {
				var s string
				if json.Unmarshal(line, &s) == nil && len(s) > 0 && (s[0] == '[' || s[0] == '{') {
					if !fn([]byte(s)) {
						return nil
					}
				}
			} else if len(line) > 1 && (line[0] == '[' || line[0] == '{') && json.Valid(line) {
				if !fn(line) {
					return nil
				}
			}
		}
		if err != nil {
			return nil
		}
	}
}

// vuParallel fans the vectors out to n workers (fn is called concurrently with the worker's index).
func vuParallel(path string, n int, fn func(worker int, raw []byte)) error {
	ch := make(chan [][]byte, 4*n)
	var wg sync.WaitGroup
	for w := 0; w < n; w++ {
		wg.Add(1)
		go func(w int) {
			defer wg.Done()
			for batch := range ch {
				for _, raw := range batch {
					fn(w, raw)
				}
			}
		}(w)
	}
	var batch [][]byte
	err := vuLines(path, func(line []byte) {
		batch = append(batch, line)
		if len(batch) == 256 {
			ch <- batch
			batch = nil
		}
	})
	if len(batch) > 0 {
		ch <- batch
	}
	close(ch)
	wg.Wait()
	return err
}

// vuLines hands out raw candidate lines (copied); decoding happens in the workers via vuDecode.
func vuLines(path string, fn func(line []byte)) error {
	f, err := os.Open(path)
	if err != nil {
		return err
	}
	defer f.Close()
	r := bufio.NewReaderSize(f, 1<<20)
	for {
		line, err := r.ReadBytes('\n')
		if len(line) > 2 && (line[0] == '"' || line[0] == '[' || line[0] == '{') {
			fn(line) // ReadBytes returns a fresh slice
		}
		if err != nil {
			return nil
		}
	}
}

// vuDecode turns a TLC output line into the JSON value it carries (nil if it is not one).
func vuDecode(line []byte) []byte {
	for len(line) > 0 && (line[len(line)-1] == '\n' || line[len(line)-1] == '\r') {
		line = line[:len(line)-1]
	}
	if len(line) > 2 && line[0] == '"' {
		var s string
		if json.Unmarshal(line, &s) == nil && len(s) > 0 && (s[0] == '[' || s[0] == '{') {
			return []byte(s)
		}
		return nil
	}
	if len(line) > 1 && (line[0] == '[' || line[0] == '{') && json.Valid(line) {
		return line
	}
	return nil
}

type vuWriter struct {
	mu sync.Mutex
	f  *os.File
	w  *bufio.Writer
}

func vuOpenOut(env string) *vuWriter {
	p := os.Getenv(env)
	if p == "" {
		panic("verif: " + env + " not set")
	}
	f, err := os.OpenFile(p, os.O_CREATE|os.O_WRONLY|os.O_APPEND, 0644)
	if err != nil {
		panic(err)
	}
	return &vuWriter{f: f, w: bufio.NewWriterSize(f, 1<<20)}
}

func (w *vuWriter) Emit(v interface{}) {
	b, err := json.Marshal(v)
	if err != nil {
		panic(err)
	}
	w.mu.Lock()
	w.w.Write(b)
	w.w.WriteByte('\n')
	w.mu.Unlock()
}

func (w *vuWriter) Flush() { w.mu.Lock(); w.w.Flush(); w.mu.Unlock() }
func (w *vuWriter) Close() { w.Flush(); w.f.Close() }

func vuEnvInt(name string, def int) int {
	if v := os.Getenv(name); v != "" {
		if n, err := strconv.Atoi(v); err == nil {
			return n
		}
	}
	return def
}

func vuSeed() int64 { return int64(vuEnvInt("VERIF_SEED", 1)) }

func vuB64(b []byte) string { return base64.StdEncoding.EncodeToString(b) }

func vuJS(v interface{}) string {
	b, _ := json.Marshal(v)
	return string(b)
}

var _ = fmt.Sprintf
