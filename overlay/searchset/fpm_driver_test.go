//go:build verif

package searchset

// C17 driver (candidate ranges): FindPotentialMatches on every source/target pair over a tiny vocabulary
// (highly repetitive by construction) and on seeded long pairs; events for TraceV1.RangesOK.

import (
	"fmt"
	"math/rand"
	"strings"
	"testing"
)

func fpmEvent(out *vuWriter, src, tgt string) {
	ev := map[string]interface{}{"ev": "fpm", "src": src, "tgt": tgt, "panic": "", "textok": true}
	func() {
		defer func() {
			if p := recover(); p != nil {
				ev["panic"] = fmt.Sprint(p)
				ev["cands"], ev["bytes"] = [][][4]int{}, [][2]int{}
			}
		}()
		s, t := New(src, DefaultGranularity), New(tgt, DefaultGranularity)
		ev["srclen"], ev["tgtlen"], ev["tgtbytes"] = len(s.Tokens), len(t.Tokens), len(tgt)
		// the search set's tokens index the string it was built from
		for _, x := range []struct {
			set *SearchSet
			str string
		}{{s, src}, {t, tgt}} {
			for _, tk := range x.set.Tokens {
				if tk.Offset < 0 || tk.Offset+len(tk.Text) > len(x.str) || x.str[tk.Offset:tk.Offset+len(tk.Text)] != tk.Text {
					ev["textok"] = false
				}
			}
		}
		cands := [][][4]int{}
		bytes := [][2]int{}
		for _, mr := range FindPotentialMatches(s, t) {
			var c [][4]int
			for _, m := range mr {
				c = append(c, [4]int{m.SrcStart, m.SrcEnd, m.TargetStart, m.TargetEnd})
			}
			cands = append(cands, c)
			a, b := mr.TargetRange(t)
			_ = tgt[a:b] // a Match's Offset/Extent is used to slice the normalised input
			bytes = append(bytes, [2]int{a, b})
		}
		ev["cands"], ev["bytes"] = cands, bytes
	}()
	if _, ok := ev["srclen"]; !ok {
		ev["srclen"], ev["tgtlen"], ev["tgtbytes"] = 0, 0, len(tgt)
	}
	out.Emit(ev)
}

func TestVerifFPMTrace(t *testing.T) {
	out := vuOpenOut("VERIF_OUT")
	defer out.Close()
	maxLen := vuEnvInt("VERIF_MAXLEN", 6)
	vocab := []string{"a", "b"}
	var seqs []string
	var gen func(cur []string)
	gen = func(cur []string) {
		if len(cur) > 0 {
			seqs = append(seqs, strings.Join(cur, " "))
		}
		if len(cur) == maxLen {
			return
		}
		for _, w := range vocab {
			gen(append(cur, w))
		}
	}
	gen(nil)
	// all pairs with a source of >= 3 tokens (DefaultGranularity) -- smaller sources produce no hashes worth matching
	n := 0
	for _, s := range seqs {
		if strings.Count(s, " ") < 2 {
			continue
		}
		for _, tg := range seqs {
			fpmEvent(out, s, tg)
			n++
		}
	}
	// texts without any token, and sources too short for a single hash, on either side, also against themselves
	for _, s := range []string{"", " ", "\n\t ", "a", "a b", "a b c"} {
		for _, tg := range []string{"", " ", " \n", "a", "a b", "a b c", "b a b a"} {
			fpmEvent(out, s, tg)
			n++
		}
	}
	// longer sources against short targets over the same two words: chains of hits that are still open when the target
	// ends, in every order
	maxSrc, maxTgt := vuEnvInt("VERIF_MAXSRC", 10), vuEnvInt("VERIF_MAXTGT", 5)
	for sl := maxLen + 1; sl <= maxSrc; sl++ {
		for sb := 0; sb < 1<<uint(sl); sb++ {
			sw := make([]string, sl)
			for i := range sw {
				sw[i] = vocab[(sb>>uint(i))&1]
			}
			src := strings.Join(sw, " ")
			for tl := 3; tl <= maxTgt; tl++ {
				for tb := 0; tb < 1<<uint(tl); tb++ {
					tw := make([]string, tl)
					for i := range tw {
						tw[i] = vocab[(tb>>uint(i))&1]
					}
					fpmEvent(out, src, strings.Join(tw, " "))
					n++
				}
			}
		}
	}
	rng := rand.New(rand.NewSource(vuSeed()))
	words := []string{"the", "license", "is", "granted", "to", "you", "the", "the", "a", "of", "—", "(c)", "ünï", "x.y", "bad\xff"}
	for k := 0; k < vuEnvInt("VERIF_LONG", 300); k++ {
		mk := func(l int) []string {
			var w []string
			for i := 0; i < l; i++ {
				w = append(w, words[rng.Intn(len(words))])
			}
			return w
		}
		src := mk(5 + rng.Intn(60))
		var tgt []string
		tgt = append(tgt, mk(rng.Intn(30))...)
		for c := 0; c < 1+rng.Intn(3); c++ { // noisy copies of the source
			for _, w := range src {
				if rng.Intn(10) > 0 {
					tgt = append(tgt, w)
				} else if rng.Intn(2) == 0 {
					tgt = append(tgt, words[rng.Intn(len(words))])
				}
			}
			tgt = append(tgt, mk(rng.Intn(20))...)
		}
		pre := []string{"", "", "\uFEFF", "\u200b", "\xef\xbb", " \uFEFF", "\u00a0"}[rng.Intn(7)] // byte order mark and friends in front
		fpmEvent(out, pre+strings.Join(src, " "), pre+strings.Join(tgt, " "))
	}
}
