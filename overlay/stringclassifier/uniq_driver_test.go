//go:build verif

package stringclassifier

// S5 (result assembly) driver: every match set enumerated by specs/V1Uniquify.tla goes through the real
// sort.Sort(Matches) + uniquify; the order and the kept matches must be the spec's.

import (
	"encoding/json"
	"fmt"
	"os"
	"sort"
	"testing"
)

func TestVerifUniqReplay(t *testing.T) {
	out := vuOpenOut("VERIF_OUT")
	defer out.Close()
	n, nontrivial, bad := 0, 0, 0
	mk := func(tp []int) *Match {
		// ranks 1 < 2 < 3; the upper two are closer than a thousandth: an order is an order
		return &Match{Name: fmt.Sprintf("k%d", tp[1]), Confidence: []float64{0, 0.5, 0.9995, 1.0}[tp[0]], Offset: tp[2], Extent: tp[3]}
	}
	show := func(ms Matches) string {
		s := ""
		for _, m := range ms {
			s += fmt.Sprintf("[%s %.4f %d+%d]", m.Name, m.Confidence, m.Offset, m.Extent)
		}
		return s
	}
	vuVectors(os.Getenv("VERIF_IN"), func(raw []byte) bool {
		var v struct {
			Sorted [][]int `json:"sorted"`
			Kept   [][]int `json:"kept"`
		}
		if json.Unmarshal(raw, &v) != nil || v.Sorted == nil {
			return true
		}
		n++
		if len(v.Kept) < len(v.Sorted) {
			nontrivial++
		}
		var in, wantS, wantK Matches
		for i := len(v.Sorted) - 1; i >= 0; i-- { // handed over in reverse: the sort is replayed too
			in = append(in, mk(v.Sorted[i]))
		}
		for _, tp := range v.Sorted {
			wantS = append(wantS, mk(tp))
		}
		for _, tp := range v.Kept {
			wantK = append(wantK, mk(tp))
		}
		sort.Sort(in)
		why := ""
		if show(in) != show(wantS) {
			why = fmt.Sprintf("sorted %s, spec %s", show(in), show(wantS))
		} else if got := in.uniquify(); show(got) != show(wantK) {
			why = fmt.Sprintf("uniquify keeps %s, spec %s", show(got), show(wantK))
		}
		if why != "" {
			bad++
			if bad <= 5 {
				out.Emit(map[string]interface{}{"kind": "mismatch", "why": why, "spec": json.RawMessage(raw)})
			}
		}
		return true
	})
	out.Emit(map[string]interface{}{"kind": "summary", "vectors": n, "nontrivial": nontrivial, "mismatches": bad})
}
