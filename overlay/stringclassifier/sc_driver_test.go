//go:build verif

package stringclassifier

// C13 driver (stringclassifier): replays the cases enumerated by specs/V1Classify.tla and seeded larger
// cases into the real AddValue / MultipleMatch / NearestMatch and records call/return events for TraceV1.
// Panics inside goroutines kill the process, so every case is journalled (`begin`) before it runs and the
// check resumes after the crashed case (VERIF_SKIP).

import (
	"encoding/json"
	"fmt"
	"math"
	"math/rand"
	"os"
	"sort"
	"strings"
	"testing"
)

type scVec struct {
	Vals [][]string `json:"vals"`
	U    []string   `json:"u"`
	P    []struct {
		N, K, At int
	} `json:"p"`
}

var scConc = []map[string]string{
	{},
	{},
	{"aa": "äé", "bb": "ßб", "xx": "日本", "cc": "çç"},
	{},
}

func scTok(variant int, t string) string {
	if v, ok := scConc[variant][t]; ok {
		return v
	}
	return t
}

func scJoin(variant int, toks []string, sep string) string {
	if variant == 3 {
		sep = ""
	}
	out := make([]string, len(toks))
	for i, t := range toks {
		out[i] = scTok(variant, t)
	}
	return strings.Join(out, sep)
}

func scBits(f float64) string { return fmt.Sprintf("%016x", math.Float64bits(f)) }

type scRec struct {
	out *vuWriter
}

func scRanks(vals []float64) map[float64]int {
	s := append([]float64(nil), vals...)
	sort.Float64s(s)
	r := map[float64]int{}
	n := 0
	for i, v := range s {
		if i == 0 || v != s[i-1] {
			n++
		}
		r[v] = n
	}
	return r
}

// mm calls MultipleMatch and emits the event; plants are (name, offset, extent) in the normalised unknown.
func (r *scRec) mm(c *Classifier, cid, unknown string, plants []map[string]interface{}, memo string) {
	var ms Matches
	pan := ""
	func() {
		defer func() {
			if p := recover(); p != nil {
				pan = fmt.Sprint(p)
			}
		}()
		ms = c.MultipleMatch(unknown)
	}()
	r.mmEmit(c, cid, unknown, ms, plants, memo, pan)
}

func (r *scRec) mmResult(c *Classifier, cid, unknown string, ms Matches, memo string) {
	r.mmEmit(c, cid, unknown, ms, nil, memo, "")
}

func (r *scRec) mmEmit(c *Classifier, cid, unknown string, ms Matches, plants []map[string]interface{}, memo, pan string) {
	norm := c.normalize(unknown)
	vals := []float64{0, 1}
	for _, m := range ms {
		vals = append(vals, m.Confidence)
	}
	rk := scRanks(vals)
	out := []map[string]interface{}{}
	for _, m := range ms {
		out = append(out, map[string]interface{}{"name": m.Name, "r": rk[m.Confidence], "cb": scBits(m.Confidence), "off": m.Offset, "ext": m.Extent})
	}
	if plants == nil {
		plants = []map[string]interface{}{}
	}
	r.out.Emit(map[string]interface{}{"ev": "mm", "c": cid, "unknown": unknown, "ulen": len(norm), "ms": out, "zero": rk[0], "one": rk[1], "floor": rk[0],
		"plants": plants, "aliases": []string{}, "panic": pan, "memo": memo})
}

func (r *scRec) nm(c *Classifier, cid, unknown string, eq []string, memo string) {
	var m *Match
	pan := ""
	func() {
		defer func() {
			if p := recover(); p != nil {
				pan = fmt.Sprint(p)
			}
		}()
		m = c.NearestMatch(unknown)
	}()
	r.nmEmit(c, cid, unknown, m, eq, memo, pan, false)
}

// nmFloor / nmResult: the name is compared across runs only at or above the default threshold
func (r *scRec) nmFloor(c *Classifier, cid, unknown, memo string) {
	r.nmEmit(c, cid, unknown, c.NearestMatch(unknown), nil, memo, "", true)
}
func (r *scRec) nmResult(c *Classifier, cid, unknown string, m *Match, memo string) {
	r.nmEmit(c, cid, unknown, m, nil, memo, "", true)
}

func (r *scRec) nmEmit(c *Classifier, cid, unknown string, m *Match, eq []string, memo, pan string, useFloor bool) {
	norm := c.normalize(unknown)
	ev := map[string]interface{}{"ev": "nm", "c": cid, "unknown": unknown, "ulen": len(norm), "panic": pan, "memo": memo, "want": "", "floor": 0}
	if eq == nil {
		eq = []string{}
	}
	ev["eq"] = eq
	found := m != nil && m.Name != ""
	ev["found"] = found
	conf := 0.0
	if m != nil {
		conf = m.Confidence
	}
	rk := scRanks([]float64{0, 1, conf, DefaultConfidenceThreshold})
	ev["zero"], ev["one"] = rk[0], rk[1]
	if useFloor {
		ev["floor"] = rk[DefaultConfidenceThreshold]
	}
	if m == nil {
		m = &Match{}
	}
	ev["m"] = map[string]interface{}{"name": m.Name, "r": rk[m.Confidence], "cb": scBits(m.Confidence), "off": m.Offset, "ext": m.Extent}
	r.out.Emit(ev)
}

func (r *scRec) add(c *Classifier, cid, key, value string) {
	pan := ""
	var err error
	func() {
		defer func() {
			if p := recover(); p != nil {
				pan = fmt.Sprint(p)
			}
		}()
		err = c.AddValue(key, value)
	}()
	r.out.Emit(map[string]interface{}{"ev": "add", "c": cid, "key": key, "value": value, "ok": err == nil && pan == "", "panic": pan})
}

func TestVerifSCReplay(t *testing.T) {
	rec := &scRec{vuOpenOut("VERIF_OUT")}
	defer rec.out.Close()
	skip := vuEnvInt("VERIF_SKIP", 0)
	stride := vuEnvInt("VERIF_STRIDE", 1)
	n := 0
	vuVectors(os.Getenv("VERIF_IN"), func(raw []byte) bool {
		n++
		if n <= skip || n%stride != 0 {
			return true
		}
		var v scVec
		if json.Unmarshal(raw, &v) != nil {
			return true
		}
		rec.out.Emit(map[string]interface{}{"ev": "begin", "i": n, "vec": json.RawMessage(raw)})
		rec.out.Flush()
		variant := n % 3
		if os.Getenv("VERIF_CONCAT") != "" {
			variant = 3 // character alphabet: tokens are single characters (blank included), simply concatenated
		}
		thr := []float64{DefaultConfidenceThreshold, 1.0, 0.5}[(n/3)%3] // a verbatim copy scores exactly 1.0: it passes every threshold
		var c *Classifier
		sep := " "
		if variant == 1 {
			c = New(thr, FlattenWhitespace)
			sep = " \n\t "
		} else {
			c = New(thr)
		}
		// the documented settings of the length pre-filter: the default, "all values are candidates", "identical length only"
		// (a string equal to a known value has its length), and one in between
		c.MinDiffRatio = []float64{c.MinDiffRatio, 0, 1.0, 0.5}[(n/9)%4]
		cid := fmt.Sprintf("r%d", n)
		rec.out.Emit(map[string]interface{}{"ev": "reset", "keepmemo": false}) // keeps the trace spec's state small
		rec.out.Emit(map[string]interface{}{"ev": "new", "c": cid})
		for k, val := range v.Vals {
			rec.add(c, cid, fmt.Sprintf("k%d", k+1), scJoin(variant, val, sep))
		}
		// byte positions in the normalised unknown (tokens joined by single blanks)
		var plants []map[string]interface{}
		for _, p := range v.P {
			off := len(scJoin(variant, v.U[:p.At], " "))
			if p.At > 0 && variant != 3 {
				off++
			}
			ext := len(scJoin(variant, v.U[p.At:p.At+p.N], " "))
			plants = append(plants, map[string]interface{}{"name": fmt.Sprintf("k%d", p.K), "off": off, "ext": ext})
		}
		rec.mm(c, cid, scJoin(variant, v.U, sep), plants, "")
		for k, val := range v.Vals {
			rec.nm(c, cid, scJoin(variant, val, sep), []string{fmt.Sprintf("k%d", k+1)}, "")
		}
		// a value registered AFTER the first query is found by the next one, and so are the old ones
		late := "yy zz yy"
		rec.add(c, cid, "late", late)
		u2 := scJoin(variant, v.U, " ") + " xx " + late
		if variant == 3 {
			u2 = scJoin(variant, v.U, " ") + "-xx " + late // a context character that is not a blank: the old copies stay the only ones
		}
		p2 := append([]map[string]interface{}(nil), plants...)
		p2 = append(p2, map[string]interface{}{"name": "late", "off": len(scJoin(variant, v.U, " ")) + 4, "ext": len(late)})
		rec.mm(c, cid, u2, p2, "")
		rec.out.Emit(map[string]interface{}{"ev": "end", "i": n})
		return true
	})
	rec.out.Emit(map[string]interface{}{"ev": "done", "vectors": n})
}

// scProbeInvalidRival re-observes the recorded finding C13-invalid-utf8-rival: two known values that differ only in a byte
// that is not valid UTF-8 are the same text to the diff library (both bytes read U+FFFD); the rival scores 1.0 over the
// verbatim copy's range, sorts first by name and uniquify drops the verbatim one.
func scProbeInvalidRival(rec *scRec) {
	c := New(0.8)
	c.AddValue("value-00", "permission is hereby granted \x80 free of charge (see *.txt)")
	c.AddValue("value-01", "permission is hereby granted \x81 free of charge (see *.txt)")
	u := "some leading words permission is hereby granted \x81 free of charge (see *.txt) and trailing words"
	got := ""
	found := false
	for _, m := range c.MultipleMatch(u) {
		got += fmt.Sprintf("{%s %.2f %d+%d}", m.Name, m.Confidence, m.Offset, m.Extent)
		found = found || (m.Name == "value-01" && m.Confidence == 1.0 && m.Offset == 19 && m.Extent == 57)
	}
	rec.out.Emit(map[string]interface{}{"ev": "probe", "id": "C13-invalid-utf8-rival", "input": u, "observed": got, "ideal": "{value-01 1.00 19+57} among the matches", "deviates": !found})
}

// TestVerifSCTrace: seeded larger cases -- values of 1..60+ tokens over small and large vocabularies,
// punctuation, metacharacters, Unicode, invalid UTF-8; unknowns built around verbatim copies.
func TestVerifSCTrace(t *testing.T) {
	rec := &scRec{vuOpenOut("VERIF_OUT")}
	defer rec.out.Close()
	rng := rand.New(rand.NewSource(vuSeed()))
	skip := vuEnvInt("VERIF_SKIP", 0)
	cases := vuEnvInt("VERIF_CASES", 120)
	if skip == 0 {
		scProbeInvalidRival(rec)
		// NearestMatch of a known value is that value, also among values that differ from it only in a byte that is not UTF-8
		// (for MultipleMatch this family is the open finding probed above)
		c := New(0.8)
		rec.out.Emit(map[string]interface{}{"ev": "reset", "keepmemo": false})
		rec.out.Emit(map[string]interface{}{"ev": "new", "c": "rivals"})
		var vals []string
		for i := 0; i < 8; i++ {
			vals = append(vals, "permission is hereby granted "+string([]byte{byte(0x80 + i)})+" free of charge to anyone")
			rec.add(c, "rivals", fmt.Sprintf("r%d", i), vals[i])
		}
		for i, v := range vals {
			rec.nm(c, "rivals", v, []string{fmt.Sprintf("r%d", i)}, "")
		}
	}
	vocabs := [][]string{
		{"alpha", "beta", "gamma"},
		{"the", "quick", "brown", "fox", "jumps", "over", "lazy", "dog", "while", "license", "grants", "you", "rights", "to", "copy", "modify", "and", "distribute", "software", "without", "warranty"},
		{"a", "b", ".", ",", "(", ")", "*", "+", "?", "[", "]", "\\", "$", "^", "|", "{", "}"},
		{"ünï", "cödé", "日本語", "—", "«x»", "naïve", "ß"},
		{"ok", "bad\xff", "\xc3", "fine", "x\xf0\x9f"},
		{"row"}, {"to", "be"}, {"-", "x"}, // repetitive values: every window of the value looks like every other
	}
	ctxWords := []string{"zzqx", "qqzv", "vvkq", "xzzq"}
	for n := 1; n <= cases; n++ {
		// every random choice is drawn before the skip test so that a resumed run sees the same cases
		vocab := vocabs[rng.Intn(len(vocabs))]
		nvals := 1 + rng.Intn(4)
		var vals []string
		for k := 0; k < nvals; k++ {
			l := 1 + rng.Intn(8)
			if rng.Intn(4) == 0 {
				l = 20 + rng.Intn(60)
			}
			var ws []string
			for i := 0; i < l; i++ {
				ws = append(ws, vocab[rng.Intn(len(vocab))])
			}
			vals = append(vals, strings.Join(ws, " ")+fmt.Sprintf(" uniq%c", 'a'+k)) // a unique last word: no value occurs inside another
		}
		if bare := rng.Intn(2) == 0; bare && nvals == 1 {
			vals[0] = strings.TrimSuffix(vals[0], " uniqa") // a single value needs no marker
		}
		// any string is a known value: blanks at its edges belong to it; and a copy is a copy wherever it starts
		// (glued: no blank between the context and the copy, so the copy begins and ends inside tokens of the unknown)
		edge, glue := rng.Intn(8), rng.Intn(6) == 0
		switch edge {
		case 0:
			vals[0] += " "
		case 1:
			vals[0] = " " + vals[0]
		case 2:
			vals[0] += "\n"
		case 3:
			vals[0] = "  " + vals[0] + " \t"
		}
		flatten := rng.Intn(2) == 0
		thr := []float64{0.5, 0.8, 0.95, 1.0}[rng.Intn(4)]
		ncopies := 1 + rng.Intn(3)
		var parts []string
		var plantIdx []int
		for k := 0; k < ncopies; k++ {
			for i, m := 0, 1+rng.Intn(6); i < m; i++ {
				parts = append(parts, ctxWords[rng.Intn(len(ctxWords))])
			}
			plantIdx = append(plantIdx, rng.Intn(nvals))
			parts = append(parts, "\x00PLANT")
		}
		for i, m := 0, rng.Intn(4); i < m; i++ {
			parts = append(parts, ctxWords[rng.Intn(len(ctxWords))])
		}
		if n <= skip {
			continue
		}
		rec.out.Emit(map[string]interface{}{"ev": "begin", "i": n})
		rec.out.Flush()
		var c *Classifier
		// the caller's slice of normalisers stays the caller's: it is overwritten once the values are registered
		fs := make([]NormalizeFunc, 1, 4)
		if flatten {
			fs[0] = FlattenWhitespace
		} else {
			fs = fs[:0]
		}
		c = New(thr, fs...)
		c.MinDiffRatio = []float64{c.MinDiffRatio, 1.0, 0}[n%3]
		cid := fmt.Sprintf("t%d", n)
		rec.out.Emit(map[string]interface{}{"ev": "reset", "keepmemo": false})
		rec.out.Emit(map[string]interface{}{"ev": "new", "c": cid})
		for k, v := range vals {
			rec.add(c, cid, fmt.Sprintf("k%d", k+1), v)
		}
		rec.add(c, cid, "k1", vals[0]) // duplicate key: an error, not a panic
		for i := range fs[:cap(fs)] {
			fs[:cap(fs)][i] = func(s string) string { return "~" + strings.ToUpper(s) + "~" }
		}
		var sb strings.Builder
		var plants []map[string]interface{}
		pi := 0
		for i, p := range parts {
			if i > 0 && !(glue && (p == "\x00PLANT" || parts[i-1] == "\x00PLANT")) {
				sb.WriteByte(' ')
			}
			if p == "\x00PLANT" {
				v := c.normalize(vals[plantIdx[pi]])
				plants = append(plants, map[string]interface{}{"name": fmt.Sprintf("k%d", plantIdx[pi]+1), "off": sb.Len(), "ext": len(v)})
				sb.WriteString(v)
				pi++
			} else {
				sb.WriteString(p)
			}
		}
		// offsets refer to the normalised unknown: where normalisation changes the assembled text (a blank at the edge of a
		// value next to the separating blank collapses under FlattenWhitespace) the copies are located again, in order;
		// copies that came to share a byte are overlapping copies, outside the statement: no expectation then
		relocate := func(u string, pl []map[string]interface{}, texts []string) []map[string]interface{} {
			nu := c.normalize(u)
			if nu == u {
				return pl
			}
			cur := 0
			out := []map[string]interface{}{}
			for i, p := range pl {
				j := strings.Index(nu[cur:], texts[i])
				if j < 0 {
					return nil
				}
				out = append(out, map[string]interface{}{"name": p["name"], "off": cur + j, "ext": len(texts[i])})
				cur += j + len(texts[i])
			}
			return out
		}
		var ptexts []string
		for _, pi := range plantIdx {
			ptexts = append(ptexts, c.normalize(vals[pi]))
		}
		rec.mm(c, cid, sb.String(), relocate(sb.String(), plants, ptexts), "")
		for k, v := range vals {
			rec.nm(c, cid, v, []string{fmt.Sprintf("k%d", k+1)}, "")
		}
		// the unknown is exactly a known value, nothing around it
		for k, v := range vals {
			nv := c.normalize(v)
			rec.mm(c, cid, nv, []map[string]interface{}{{"name": fmt.Sprintf("k%d", k+1), "off": 0, "ext": len(nv)}}, "")
		}
		// register one more value after the first queries, then look for all of them again
		lateVal := "lateword one two three uniqlate"
		rec.add(c, cid, "klate", lateVal)
		lp := append([]map[string]interface{}(nil), plants...)
		lp = append(lp, map[string]interface{}{"name": "klate", "off": sb.Len() + 1, "ext": len(c.normalize(lateVal))})
		rec.mm(c, cid, sb.String()+" "+c.normalize(lateVal), relocate(sb.String()+" "+c.normalize(lateVal), lp, append(append([]string(nil), ptexts...), c.normalize(lateVal))), "")
		// arbitrary unknowns: confidences and bounds only
		rec.mm(c, cid, strings.Join(parts, " ")+" "+vals[0][:len(vals[0])/2], nil, "")
		rec.nm(c, cid, vals[0][:len(vals[0])*3/4]+" zzqx", nil, "")
		rec.out.Emit(map[string]interface{}{"ev": "end", "i": n})
	}
	rec.out.Emit(map[string]interface{}{"ev": "done", "vectors": cases})
}
