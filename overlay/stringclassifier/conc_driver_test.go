//go:build verif

package stringclassifier

// C14 driver: concurrent MultipleMatch / NearestMatch / AddValue on one Classifier. The hook events
// (lock, unlock, acc, fork, start) are stamped with the goroutine id and written in the order the sink
// receives them (lock events are emitted while the lock is held, so their order is the real one); the
// call results are recorded as mm / nm events with memo keys so that TraceV1 compares them with the
// results of the same calls made sequentially on an identical classifier.

import (
	"fmt"
	"math/rand"
	"os"
	"runtime"
	"sort"
	"strings"
	"sync"
	"testing"
	"time"
)

func ccGoid() string {
	var buf [64]byte
	n := runtime.Stack(buf[:], false)
	f := strings.Fields(string(buf[:n]))
	if len(f) >= 2 {
		return "g" + f[1]
	}
	return "g?"
}

type ccSink struct {
	mu  sync.Mutex
	out *vuWriter
}

func (s *ccSink) hook(ev string, kv ...interface{}) {
	g := ccGoid()
	m := map[string]interface{}{"ev": ev, "g": g}
	for i := 0; i+1 < len(kv); i += 2 {
		k := kv[i].(string)
		switch v := kv[i+1].(type) {
		case string:
			m[k] = v
		default:
			m[k] = fmt.Sprintf("%p", v)
		}
	}
	if ev == "fork" || ev == "start" {
		m["tok"] = fmt.Sprint(m["m"], "/", m["key"])
	}
	s.mu.Lock()
	s.out.Emit(m)
	s.mu.Unlock()
}

func ccTexts(rng *rand.Rand, n int) []string {
	words := strings.Fields("permission is hereby granted free of charge to any person obtaining a copy of this software and associated documentation files to deal in the software without restriction including without limitation the rights to use copy modify merge publish distribute sublicense and or sell copies")
	var out []string
	for i := 0; i < n; i++ {
		l := 12 + rng.Intn(30)
		var w []string
		for j := 0; j < l; j++ {
			w = append(w, words[rng.Intn(len(words))])
		}
		out = append(out, strings.Join(w, " ")+fmt.Sprintf(" unique%d", i))
	}
	return out
}

func TestVerifSCConc(t *testing.T) {
	out := vuOpenOut("VERIF_OUT")
	defer out.Close()
	rec := &scRec{out}
	sink := &ccSink{out: out}
	rng := rand.New(rand.NewSource(vuSeed()))
	rounds := vuEnvInt("VERIF_ROUNDS", 20)
	callers := vuEnvInt("VERIF_CALLERS", 4)
	for r := 0; r < rounds; r++ {
		nvals := 2 + rng.Intn(2)
		vals := ccTexts(rng, nvals)
		mk := func() *Classifier {
			c := New(DefaultConfidenceThreshold, FlattenWhitespace)
			for i, v := range vals {
				c.AddValue(fmt.Sprintf("k%d", i+1), v)
			}
			return c
		}
		// inputs: verbatim copies in context, noisy copies, unrelated text
		var inputs []string
		for i := 0; i < callers; i++ {
			v := vals[rng.Intn(nvals)]
			switch rng.Intn(4) {
			case 3: // copies of every value: several matcher goroutines of ONE call report at the same time
				inputs = append(inputs, "zzqx "+strings.Join(vals, " qqzv ")+" vvkq "+vals[0])
			case 0:
				inputs = append(inputs, "zzqx qqzv "+v+" vvkq")
			case 1:
				w := strings.Fields(v)
				w[rng.Intn(len(w))] = "zzqx"
				inputs = append(inputs, strings.Join(w, " "))
			default:
				inputs = append(inputs, v)
			}
		}
		out.Emit(map[string]interface{}{"ev": "reset", "keepmemo": false})
		cid := fmt.Sprintf("cc%d", r)
		out.Emit(map[string]interface{}{"ev": "new", "c": cid})
		for i := range vals {
			out.Emit(map[string]interface{}{"ev": "add", "c": cid, "key": fmt.Sprintf("k%d", i+1), "ok": true, "panic": ""})
		}
		for i := 0; i < callers; i++ { // keys added concurrently; their texts cannot match the inputs
			out.Emit(map[string]interface{}{"ev": "add", "c": cid, "key": fmt.Sprintf("late%d", i), "ok": true, "panic": ""})
		}
		const gapKeys = 10
		for i := 0; i < gapKeys; i++ { // keys added in the gaps between the critical sections of other calls (below)
			out.Emit(map[string]interface{}{"ev": "add", "c": cid, "key": fmt.Sprintf("gap%d", i), "ok": true, "panic": ""})
		}
		// sequential reference on an identical classifier (the lazy sets of the concurrent one stay unbuilt)
		ref := mk()
		mdr := []float64{ref.MinDiffRatio, 0, -1, 0.5}[r%4]
		ref.MinDiffRatio = mdr
		for i, in := range inputs {
			rec.mm(ref, cid, in, nil, fmt.Sprintf("r%d|mm|%d", r, i))
			rec.nmFloor(ref, cid, in, fmt.Sprintf("r%d|nm|%d", r, i))
		}
		c := mk()
		// the exported option of the length pre-filter is rarely touched; "consider every value" is any ratio <= 0.  Set before the
		// first concurrent calls: reading an option must not write it (nothing but the race detector can see such a write)
		c.MinDiffRatio = mdr // (not ref's field: whatever the calls on ref did to it stays with ref)
		var wg sync.WaitGroup
		var emu sync.Mutex
		if mdr <= 0 {
			// the very first calls on this classifier are NearestMatch calls released together (no hook events, no writer
			// in between: nothing orders them but the read lock they share)
			first := make(chan struct{})
			for i := 0; i < callers; i++ {
				wg.Add(1)
				go func(i int) {
					defer wg.Done()
					<-first
					c.NearestMatch(inputs[i])
				}(i)
			}
			close(first)
			wg.Wait()
		}
		VerifSink = sink.hook
		for i := 0; i < callers; i++ {
			wg.Add(1)
			go func(i int) {
				defer wg.Done()
				in := inputs[i]
				// the results are emitted under a mutex of the driver, after the calls
				ms := c.MultipleMatch(in)
				if i%2 == 0 {
					if err := c.AddValue(fmt.Sprintf("late%d", i), fmt.Sprintf("wholly unrelated text number %d about nothing", i)); err != nil {
						emu.Lock()
						out.Emit(map[string]interface{}{"ev": "addfail", "err": err.Error()})
						emu.Unlock()
					}
				}
				nm := c.NearestMatch(in)
				emu.Lock()
				sink.mu.Lock()
				rec.mmResult(c, cid, in, ms, fmt.Sprintf("r%d|mm|%d", r, i))
				rec.nmResult(c, cid, in, nm, fmt.Sprintf("r%d|nm|%d", r, i))
				sink.mu.Unlock()
				emu.Unlock()
			}(i)
		}
		wg.Wait()
		// AddValue in every gap: each time a call is about to release the lock, another goroutine is started that registers a
		// new value; it waits for the lock (a pending writer goes before later readers), so the registration lands between
		// this critical section of the call and its next one -- the schedule the lazy-set protocol must survive at every
		// release point, not only where the scheduler happens to put it
		if r%2 == 0 {
			var gmu sync.Mutex
			ngap := 0
			var gwg sync.WaitGroup
			VerifSink = func(ev string, kv ...interface{}) {
				sink.hook(ev, kv...)
				if ev != "unlock" {
					return
				}
				gmu.Lock()
				k := ngap
				ngap++
				gmu.Unlock()
				if k >= gapKeys {
					return
				}
				gwg.Add(1)
				go func() {
					defer gwg.Done()
					if err := c.AddValue(fmt.Sprintf("gap%d", k), fmt.Sprintf("gap filler text number %d entirely about something else", k)); err != nil {
						emu.Lock()
						out.Emit(map[string]interface{}{"ev": "addfail", "err": err.Error()})
						emu.Unlock()
					}
				}()
				time.Sleep(300 * time.Microsecond) // let it reach the lock
			}
			for i := 0; i < 2 && i < callers; i++ {
				wg.Add(1)
				go func(i int) {
					defer wg.Done()
					in := inputs[i]
					ms := c.MultipleMatch(in)
					nm := c.NearestMatch(in)
					emu.Lock()
					sink.mu.Lock()
					rec.mmResult(c, cid, in, ms, fmt.Sprintf("r%d|mm|%d", r, i))
					rec.nmResult(c, cid, in, nm, fmt.Sprintf("r%d|nm|%d", r, i))
					sink.mu.Unlock()
					emu.Unlock()
				}(i)
			}
			wg.Wait()
			gwg.Wait()
			VerifSink = sink.hook
		}
		// many calls in flight at once (every call starts a goroutine per known value, every inexact candidate one more): whatever
		// bounds or pools the work must not make the calls wait for each other for ever.  A watchdog ends the run if they do.
		if r%5 == 1 {
			many := vuEnvInt("VERIF_MANY", 256)
			VerifSink = nil // results and termination are what this phase is about; 96 more threads would only slow the happens-before validation
			doneAll := make(chan struct{})
			go func() {
				select {
				case <-doneAll:
				case <-time.After(time.Duration(vuEnvInt("VERIF_HANG_S", 120)) * time.Second):
					emu.Lock()
					out.Emit(map[string]interface{}{"ev": "hang", "what": fmt.Sprintf("%d concurrent MultipleMatch / NearestMatch calls on near copies of two long values did not all return", many)})
					out.Flush()
					os.Exit(3)
				}
			}()
			// a classifier of its own with two long values (long diffs keep every call busy), all calls released together
			long := func(k int) string {
				var w []string
				for rep := 0; rep < 6; rep++ {
					w = append(w, strings.Fields(vals[k%nvals])...)
					w = append(w, fmt.Sprintf("stanza%dof%d", rep, k))
				}
				return strings.Join(w, " ")
			}
			mc := New(DefaultConfidenceThreshold, FlattenWhitespace)
			mc.AddValue("long1", long(0))
			mc.AddValue("long2", long(1))
			noisy := func(k int) string {
				w := strings.Fields(long(k))
				for x := 7; x < len(w); x += 23 {
					w[x] = "zzqx"
				}
				return "qqzv preamble words " + strings.Join(w, " ") + " vvkq trailing words"
			}
			want1 := fmt.Sprint(len(mc.MultipleMatch(noisy(0))), len(mc.MultipleMatch(noisy(1))))
			var mwg sync.WaitGroup
			wrong := make([]string, many)
			start := make(chan struct{})
			for i := 0; i < many; i++ {
				mwg.Add(1)
				go func(i int) {
					defer mwg.Done()
					<-start
					a, b := mc.MultipleMatch(noisy(i%2)), mc.MultipleMatch(noisy((i+1)%2))
					got := fmt.Sprint(len(a), len(b))
					if i%2 == 1 {
						got = fmt.Sprint(len(b), len(a))
					}
					if got != want1 || len(a) == 0 {
						wrong[i] = fmt.Sprintf("call %d: %s matches for the two noisy copies, alone %s", i, got, want1)
					}
					mc.NearestMatch(noisy(i % 2))
				}(i)
			}
			close(start)
			mwg.Wait()
			close(doneAll)
			VerifSink = sink.hook
			for _, w := range wrong {
				if w != "" {
					out.Emit(map[string]interface{}{"ev": "addfail", "err": "many calls at once: " + w})
					break
				}
			}
		}
		// the same new key registered by all callers at once: exactly one of them succeeds
		big := strings.Repeat("some long text to normalise \t\n ", 4000)
		oks := make([]bool, callers)
		for i := 0; i < callers; i++ {
			wg.Add(1)
			go func(i int) {
				defer wg.Done()
				oks[i] = c.AddValue("samekey", big+fmt.Sprint(i)) == nil
			}(i)
		}
		wg.Wait()
		VerifSink = nil
		sort.Slice(oks, func(i, j int) bool { return oks[i] && !oks[j] }) // the successful registration(s) first
		for _, ok := range oks {
			out.Emit(map[string]interface{}{"ev": "add", "c": cid, "key": "samekey", "ok": ok, "panic": ""})
		}
	}
}
