//go:build verif

package backend

// C14 (v1 CLI backend): ClassifyLicenses runs 1000 worker goroutines over one licenseclassifier.License.
// The backend is built around a License loaded from an archive made in the test (licenses.db is not part
// of this tree); what it reports per file must be what sequential MultipleMatch calls on the same chunks
// report (TraceV1 memo), and the run is repeated under the race detector by the check.

import (
	"bytes"
	"fmt"
	"io/ioutil"
	"math"
	"math/rand"
	"os"
	"path/filepath"
	"sort"
	"strings"
	"testing"

	"github.com/google/licenseclassifier"
	"github.com/google/licenseclassifier/commentparser"
	"github.com/google/licenseclassifier/commentparser/language"
	"github.com/google/licenseclassifier/serializer"
	"github.com/google/licenseclassifier/stringclassifier"
)

func vbProject(ms []*stringclassifier.Match) []map[string]interface{} {
	sort.Slice(ms, func(i, j int) bool {
		if ms[i].Name != ms[j].Name {
			return ms[i].Name < ms[j].Name
		}
		if ms[i].Offset != ms[j].Offset {
			return ms[i].Offset < ms[j].Offset
		}
		return ms[i].Extent < ms[j].Extent
	})
	out := []map[string]interface{}{}
	for _, m := range ms {
		out = append(out, map[string]interface{}{"name": m.Name, "r": 2, "cb": fmt.Sprintf("%016x", math.Float64bits(m.Confidence)), "off": m.Offset, "ext": m.Extent})
	}
	return out
}

func TestVerifV1Backend(t *testing.T) {
	out := vuOpenOut("VERIF_OUT")
	defer out.Close()
	rng := rand.New(rand.NewSource(vuSeed()))
	ents, err := licenseclassifier.ReadLicenseDir()
	if err != nil {
		t.Fatal(err)
	}
	var all []string
	for _, e := range ents {
		if strings.HasSuffix(e.Name(), ".txt") {
			all = append(all, e.Name())
		}
	}
	sort.Strings(all)
	var files []string
	for _, i := range rng.Perm(len(all))[:16] {
		files = append(files, all[i])
	}
	var buf bytes.Buffer
	if err := serializer.ArchiveLicenses(files, &buf); err != nil {
		t.Fatal(err)
	}
	lc, err := licenseclassifier.New(licenseclassifier.DefaultConfidenceThreshold, licenseclassifier.ArchiveBytes(buf.Bytes()))
	if err != nil {
		t.Fatal(err)
	}
	dir, _ := ioutil.TempDir("", "verif-v1be-")
	defer os.RemoveAll(dir)
	var paths []string
	for i, f := range files[:10] {
		b, _ := licenseclassifier.ReadLicenseFile(f)
		name := fmt.Sprintf("f%d.txt", i)
		content := append([]byte("Preamble about the software and its license terms.\n\n"), b...)
		switch i % 3 {
		case 1: // a Go source file: the license sits in comments
			name = fmt.Sprintf("f%d.go", i)
			content = []byte("// " + strings.Replace(string(b), "\n", "\n// ", -1) + "\npackage x\n\n// unrelated comment about code\nfunc f() {}\n")
		case 2:
			name = fmt.Sprintf("f%d.py", i)
			content = []byte("# " + strings.Replace(string(b), "\n", "\n# ", -1) + "\nimport os\n")
		}
		p := filepath.Join(dir, name)
		ioutil.WriteFile(p, content, 0644)
		paths = append(paths, p)
	}
	out.Emit(map[string]interface{}{"ev": "new", "c": "be"})
	for _, f := range files {
		k := strings.TrimSuffix(f, ".txt")
		out.Emit(map[string]interface{}{"ev": "add", "c": "be", "key": k, "ok": true, "panic": ""})
	}
	var aliases []string
	for _, f := range files {
		aliases = append(aliases, strings.TrimSuffix(strings.TrimSuffix(f, ".txt"), ".header"))
	}
	emit := func(p string, ms []*stringclassifier.Match) {
		out.Emit(map[string]interface{}{"ev": "mm", "c": "be", "q": filepath.Base(p), "ulen": 1 << 30, "ms": vbProject(ms), "zero": 1, "one": 2, "floor": 1,
			"plants": []int{}, "aliases": aliases, "panic": "", "memo": "file|" + filepath.Base(p)})
	}
	// sequential reference: what the library reports for the chunks of each file
	for _, p := range paths {
		contents, _ := ioutil.ReadFile(p)
		var ms []*stringclassifier.Match
		if lang := language.ClassifyLanguage(p); lang == language.Unknown {
			ms = append(ms, lc.MultipleMatch(string(contents), true)...)
		} else {
			for ch := range commentparser.Parse(contents, lang).ChunkIterator() {
				ms = append(ms, lc.MultipleMatch(ch.String(), true)...)
			}
		}
		emit(p, ms)
	}
	// the backend: all files at once, three times
	for round := 0; round < 3; round++ {
		b := &ClassifierBackend{classifier: lc}
		if errs := b.ClassifyLicenses(paths, true); len(errs) > 0 {
			out.Emit(map[string]interface{}{"ev": "backenderr", "errs": fmt.Sprint(errs)})
		}
		per := map[string][]*stringclassifier.Match{}
		for _, r := range b.GetResults() {
			per[r.Filename] = append(per[r.Filename], &stringclassifier.Match{Name: r.Name, Confidence: r.Confidence, Offset: r.Offset, Extent: r.Extent})
		}
		for _, p := range paths {
			emit(p, per[p])
		}
	}
}
