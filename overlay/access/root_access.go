//go:build verif

package licenseclassifier

// Accessors added by the verification overlay (the file does not exist in the repository).

import "github.com/google/licenseclassifier/stringclassifier"

// VerifWrap builds a License around a directly filled string classifier.
func VerifWrap(c *stringclassifier.Classifier, threshold float64) *License {
	return &License{c: c, Threshold: threshold}
}

// VerifInner exposes the string classifier of a License.
func VerifInner(l *License) *stringclassifier.Classifier { return l.c }
