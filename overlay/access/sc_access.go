//go:build verif

package stringclassifier

// Accessors added by the verification overlay (the file does not exist in the repository).

import "sort"

// VerifKeys lists the registered keys with the length of their normalised value and whether a
// search set is present.
func (c *Classifier) VerifKeys() (keys []string, lens []int, hasSet []bool) {
	c.muValues.RLock()
	defer c.muValues.RUnlock()
	for k := range c.values {
		keys = append(keys, k)
	}
	sort.Strings(keys)
	for _, k := range keys {
		lens = append(lens, len(c.values[k].normalizedValue))
		hasSet = append(hasSet, c.values[k].set != nil)
	}
	return
}

// VerifValue returns the normalised value registered under key.
func (c *Classifier) VerifValue(key string) string {
	c.muValues.RLock()
	defer c.muValues.RUnlock()
	if v, ok := c.values[key]; ok {
		return v.normalizedValue
	}
	return ""
}

// VerifSetTokens returns the number of tokens of the search set registered under key (-1: none).
func (c *Classifier) VerifSetTokens(key string) int {
	c.muValues.RLock()
	defer c.muValues.RUnlock()
	if v, ok := c.values[key]; ok && v.set != nil {
		return len(v.set.Tokens)
	}
	return -1
}
