//go:build verif

package pq

// C20 driver for pq.Queue.
//   TestVerifPQReplay : leg G, replays TLC-generated behaviours of specs/PQueue.tla
//   TestVerifPQTrace  : leg T, records seeded long runs (white-box heap array, reported indices)

import (
	"encoding/json"
	"fmt"
	"math/rand"
	"os"
	"sort"
	"testing"
)

type vqItem struct {
	id, prio, idx int
}

type vqWorld struct {
	q     *Queue
	items map[int]*vqItem
	in    map[int]bool // model-side membership, maintained from returned values
}

func newVqWorld(n int) *vqWorld {
	w := &vqWorld{items: map[int]*vqItem{}, in: map[int]bool{}}
	for i := 1; i <= n; i++ {
		w.items[i] = &vqItem{id: i, prio: 1, idx: -1}
	}
	w.q = NewQueue(func(x, y interface{}) bool { return x.(*vqItem).prio < y.(*vqItem).prio },
		func(x interface{}, idx int) { x.(*vqItem).idx = idx })
	return w
}

// white-box projection: ids, priorities and reported indices in heap-array order
func (w *vqWorld) project() (a, pr, ix []int) {
	a, pr, ix = []int{}, []int{}, []int{}
	for _, e := range w.q.heap.a {
		it := e.(*vqItem)
		a = append(a, it.id)
		pr = append(pr, it.prio)
		ix = append(ix, it.idx)
	}
	return
}

func (w *vqWorld) apply(op string, x, p int) (ret int, err error) {
	defer func() {
		if r := recover(); r != nil {
			err = fmt.Errorf("panic: %v", r)
		}
	}()
	ret = -1
	switch op {
	case "Push":
		it := w.items[x]
		it.prio = p
		w.q.Push(it)
		w.in[x] = true
	case "Pop":
		ret = w.q.Pop().(*vqItem).id
		delete(w.in, ret)
	case "Min":
		ret = w.q.Min().(*vqItem).id
	case "Fix":
		it := w.items[x]
		it.prio = p
		w.q.Fix(it.idx)
	case "Remove":
		w.q.Remove(w.items[x].idx)
		ret = x // the API returns nothing; the contract says exactly x leaves the queue
		delete(w.in, x)
	default:
		err = fmt.Errorf("unknown op %s", op)
	}
	return
}

// contract evaluates the statement of C20 on the real queue after an operation.
// before: membership and priorities before the op.
func (w *vqWorld) contract(op string, x, ret int, inBefore map[int]bool, prioBefore map[int]int) string {
	a, _, ix := w.project()
	if w.q.Len() != len(a) {
		return fmt.Sprintf("Len() %d but %d elements in the heap", w.q.Len(), len(a))
	}
	// conservation
	want := map[int]bool{}
	for k := range inBefore {
		want[k] = true
	}
	switch op {
	case "Push":
		want[x] = true
	case "Pop":
		if !inBefore[ret] {
			return fmt.Sprintf("Pop returned %d which was not in the queue", ret)
		}
		for y := range inBefore {
			if prioBefore[y] < prioBefore[ret] {
				return fmt.Sprintf("Pop returned id %d (prio %d) but id %d has prio %d", ret, prioBefore[ret], y, prioBefore[y])
			}
		}
		delete(want, ret)
	case "Min":
		if !inBefore[ret] {
			return fmt.Sprintf("Min returned %d which was not in the queue", ret)
		}
		for y := range inBefore {
			if prioBefore[y] < prioBefore[ret] {
				return fmt.Sprintf("Min returned id %d (prio %d) but id %d has prio %d", ret, prioBefore[ret], y, prioBefore[y])
			}
		}
	case "Remove":
		delete(want, x)
	}
	got := map[int]int{}
	for _, id := range a {
		got[id]++
	}
	for id, n := range got {
		if n != 1 || !want[id] {
			return fmt.Sprintf("multiset not conserved: heap holds %v, expected set %v", a, keys(want))
		}
	}
	if len(got) != len(want) {
		return fmt.Sprintf("multiset not conserved: heap holds %v, expected set %v", a, keys(want))
	}
	for i := range a {
		if ix[i] != i {
			return fmt.Sprintf("reported index of id %d is %d, actual %d (heap %v)", a[i], ix[i], i, a)
		}
	}
	return ""
}

func keys(m map[int]bool) []int {
	var k []int
	for x := range m {
		k = append(k, x)
	}
	sort.Ints(k)
	return k
}

// drain pops everything and checks non-decreasing priorities and conservation (black-box).
func (w *vqWorld) drain() string {
	last := -1 << 30
	seen := map[int]bool{}
	for w.q.Len() > 0 {
		it := w.q.Pop().(*vqItem)
		if it.prio < last {
			return fmt.Sprintf("drain: popped prio %d after %d", it.prio, last)
		}
		last = it.prio
		if seen[it.id] || !w.in[it.id] {
			return fmt.Sprintf("drain: unexpected element %d", it.id)
		}
		seen[it.id] = true
	}
	if len(seen) != len(w.in) {
		return fmt.Sprintf("drain: %d elements popped, %d expected", len(seen), len(w.in))
	}
	return ""
}

func (w *vqWorld) snapshot() (map[int]bool, map[int]int) {
	in, pr := map[int]bool{}, map[int]int{}
	for k := range w.in {
		in[k] = true
	}
	for k, it := range w.items {
		pr[k] = it.prio
	}
	return in, pr
}

// vqNoIndex replays a vector on a queue whose setIndex callback is nil.
func vqNoIndex(vec [][]json.RawMessage) (why string) {
	defer func() {
		if r := recover(); r != nil {
			why = fmt.Sprintf("panic: %v", r)
		}
	}()
	items := map[int]*vqItem{}
	for i := 1; i <= 8; i++ {
		items[i] = &vqItem{id: i, prio: 1, idx: -1}
	}
	q := NewQueue(func(x, y interface{}) bool { return x.(*vqItem).prio < y.(*vqItem).prio }, nil)
	in := map[int]bool{}
	prevA := []int{}
	pos := func(x int) int {
		for i, id := range prevA {
			if id == x {
				return i
			}
		}
		return -1
	}
	for k, st := range vec {
		var op string
		var x, p, r int
		var a []int
		json.Unmarshal(st[0], &op)
		json.Unmarshal(st[1], &x)
		json.Unmarshal(st[2], &p)
		json.Unmarshal(st[3], &r)
		json.Unmarshal(st[4], &a)
		switch op {
		case "Push":
			items[x].prio = p
			q.Push(items[x])
			in[x] = true
		case "Pop", "Min":
			var got *vqItem
			if op == "Pop" {
				got = q.Pop().(*vqItem)
			} else {
				got = q.Min().(*vqItem)
			}
			for y := range in {
				if items[y].prio < got.prio {
					return fmt.Sprintf("step %d: %s returned id %d (prio %d) but id %d has prio %d", k+1, op, got.id, got.prio, y, items[y].prio)
				}
			}
			if op == "Pop" {
				delete(in, got.id)
				if got.id != r { // another minimal element than the transcription's: later positions are not comparable
					return ""
				}
			}
		case "Fix":
			items[x].prio = p
			q.Fix(pos(x))
		case "Remove":
			q.Remove(pos(x))
			delete(in, x)
		}
		if q.Len() != len(in) {
			return fmt.Sprintf("step %d (%s): Len() = %d, %d elements expected", k+1, op, q.Len(), len(in))
		}
		prevA = a
	}
	last := -1 << 30
	seen := 0
	for q.Len() > 0 {
		it := q.Pop().(*vqItem)
		if it.prio < last || !in[it.id] {
			return fmt.Sprintf("drain: popped id %d prio %d after prio %d (expected members %v)", it.id, it.prio, last, keys(in))
		}
		last = it.prio
		seen++
	}
	if seen != len(in) {
		return fmt.Sprintf("drain: %d elements popped, %d expected", seen, len(in))
	}
	return ""
}

// vqContinuations replays prefix on a fresh queue, then every sequence of 0..3 pushes of fresh ids
// (priorities 1..3), then pops everything; returns the first contract failure.
func vqContinuations(prefix [][]json.RawMessage) string {
	var seqs [][]int
	var gen func(cur []int)
	gen = func(cur []int) {
		seqs = append(seqs, append([]int(nil), cur...))
		if len(cur) == 3 {
			return
		}
		for p := 1; p <= 3; p++ {
			gen(append(cur, p))
		}
	}
	gen(nil)
	for _, ps := range seqs {
		w := newVqWorld(8)
		for _, st := range prefix {
			var op string
			var x, p int
			json.Unmarshal(st[0], &op)
			json.Unmarshal(st[1], &x)
			json.Unmarshal(st[2], &p)
			if op == "Pop" || op == "Min" {
				x = 0
			}
			if _, err := w.apply(op, x, p); err != nil {
				return "continuation: " + err.Error()
			}
		}
		fresh := 8
		for _, p := range ps {
			for fresh > 0 && w.in[fresh] {
				fresh--
			}
			if fresh == 0 {
				break
			}
			inB, prB := w.snapshot()
			prB[fresh] = p
			if _, err := w.apply("Push", fresh, p); err != nil {
				return "continuation: " + err.Error()
			}
			if why := w.contract("Push", fresh, -1, inB, prB); why != "" {
				return fmt.Sprintf("continuation pushes %v: %s", ps, why)
			}
		}
		if why := w.drain(); why != "" {
			return fmt.Sprintf("continuation pushes %v: %s", ps, why)
		}
	}
	return ""
}

// vector = [[op, x, p, ret, a, prios, idxs], ...]
func TestVerifPQReplay(t *testing.T) {
	out := vuOpenOut("VERIF_OUT")
	defer out.Close()
	const W = 12
	type acc struct {
		n, nontrivial, bad, drift int
		ops                       map[string]int
		samples                   []json.RawMessage
	}
	accs := make([]*acc, W)
	for i := range accs {
		accs[i] = &acc{ops: map[string]int{}}
	}
	vuParallel(os.Getenv("VERIF_IN"), W, func(wk int, line []byte) {
		ac := accs[wk]
		raw := vuDecode(line)
		if raw == nil {
			return
		}
		var vec [][]json.RawMessage
		if json.Unmarshal(raw, &vec) != nil || len(vec) == 0 {
			return
		}
		ac.n++
		if len(ac.samples) < 1 && ac.n%5000 == 11 {
			ac.samples = append(ac.samples, append([]byte(nil), raw...))
		}
		w := newVqWorld(8)
		swaps := false
		for k, st := range vec {
			var op string
			var x, p, r int
			var a, pr, ix []int
			json.Unmarshal(st[0], &op)
			json.Unmarshal(st[1], &x)
			json.Unmarshal(st[2], &p)
			json.Unmarshal(st[3], &r)
			json.Unmarshal(st[4], &a)
			json.Unmarshal(st[5], &pr)
			json.Unmarshal(st[6], &ix)
			ac.ops[op]++
			inB, prB := w.snapshot()
			if op == "Fix" || op == "Push" {
				prB[x] = p // the new priority is part of the operation
			}
			ret, err := w.apply(op, x, p)
			why := ""
			if err != nil {
				why = err.Error()
			} else {
				if op == "Pop" || op == "Min" {
					x = ret
				}
				why = w.contract(op, x, ret, inB, prB)
			}
			if why != "" {
				ac.bad++
				if ac.bad <= 3 {
					out.Emit(map[string]interface{}{"kind": "mismatch", "vector": json.RawMessage(raw), "step": k + 1, "why": why})
				}
				return
			}
			ga, gp, gi := w.project()
			if vuJS(ga) != vuJS(a) || vuJS(gp) != vuJS(pr) || vuJS(gi) != vuJS(ix) || ((op == "Pop" || op == "Min") && ret != r) {
				// the property holds on this step but the arrangement differs from the as-built transcription
				ac.drift++
				if ac.drift <= 1 {
					out.Emit(map[string]interface{}{"kind": "drift", "vector": json.RawMessage(raw), "step": k + 1,
						"got": []interface{}{ret, ga, gp, gi}})
				}
				// later steps of this vector are not comparable.  An arrangement the transcription does not
				// produce may still be a heap; whether it is shows in what it pops later: every continuation
				// of up to three pushes of fresh elements followed by popping everything is run on the real queue
				if why := vqContinuations(vec[:k+1]); why != "" {
					ac.bad++
					if ac.bad <= 3 {
						out.Emit(map[string]interface{}{"kind": "mismatch", "vector": json.RawMessage(raw), "step": k + 1, "why": why})
					}
				}
				return
			}
			if len(a) >= 3 {
				swaps = true
			}
		}
		if why := w.drain(); why != "" {
			ac.bad++
			if ac.bad <= 3 {
				out.Emit(map[string]interface{}{"kind": "mismatch", "vector": json.RawMessage(raw), "step": len(vec) + 1, "why": why})
			}
			return
		}
		if swaps {
			ac.nontrivial++
		}
		// the same behaviour on a queue built WITHOUT an index callback (the classifier's own queues are): positions come
		// from the spec's heap array of the step before
		if why := vqNoIndex(vec); why != "" {
			ac.bad++
			if ac.bad <= 3 {
				out.Emit(map[string]interface{}{"kind": "mismatch", "vector": json.RawMessage(raw), "step": 0, "why": "queue without setIndex: " + why})
			}
		}
	})
	tot := &acc{ops: map[string]int{}}
	for _, a := range accs {
		tot.n += a.n
		tot.nontrivial += a.nontrivial
		tot.bad += a.bad
		tot.drift += a.drift
		for k, v := range a.ops {
			tot.ops[k] += v
		}
		tot.samples = append(tot.samples, a.samples...)
	}
	out.Emit(map[string]interface{}{"kind": "summary", "type": "pq.Queue", "vectors": tot.n, "nontrivial": tot.nontrivial,
		"mismatches": tot.bad, "drift": tot.drift, "ops": tot.ops, "samples": tot.samples})
}

func TestVerifPQTrace(t *testing.T) {
	out := vuOpenOut("VERIF_OUT")
	defer out.Close()
	seed := vuSeed()
	traces := vuEnvInt("VERIF_TRACES", 6)
	steps := vuEnvInt("VERIF_STEPS", 1500)
	nIds := vuEnvInt("VERIF_IDS", 12)
	nPr := vuEnvInt("VERIF_PRIOS", 5)
	for tr := 0; tr < traces; tr++ {
		rng := rand.New(rand.NewSource(seed*7919 + int64(tr)))
		w := newVqWorld(nIds)
		out.Emit(map[string]interface{}{"ev": "reset"})
		for k := 0; k < steps; k++ {
			var inq, outq []int
			for id := 1; id <= nIds; id++ {
				if w.in[id] {
					inq = append(inq, id)
				} else {
					outq = append(outq, id)
				}
			}
			op, x, p := "", -1, -1
			c := rng.Intn(100)
			switch {
			case (c < 40 || len(inq) == 0) && len(outq) > 0:
				op, x, p = "Push", outq[rng.Intn(len(outq))], 1+rng.Intn(nPr)
			case c < 55:
				op = "Pop"
			case c < 60:
				op = "Min"
			case c < 85:
				op, x, p = "Fix", inq[rng.Intn(len(inq))], 1+rng.Intn(nPr)
			default:
				op, x = "Remove", inq[rng.Intn(len(inq))]
			}
			ret, err := w.apply(op, x, p)
			a, pr, ix := w.project()
			ev := map[string]interface{}{"ev": "op", "op": op, "x": x, "p": p, "ret": ret, "a": a, "pr": pr, "ix": ix}
			if err != nil {
				ev["ev"], ev["err"] = "fault", err.Error()
			}
			out.Emit(ev)
			if err != nil {
				break
			}
		}
	}
}

// TestVerifPQBig: the same contract on queues that grow to thousands of elements and drain again (backing arrays of 1024, 2048,
// 4096 and 8192 slots filled and emptied through every size), checked after every operation by the driver itself: Len is
// the number of elements in the queue, Pop returns one of the minimal elements, the heap array holds exactly the elements in
// the queue, each at the index it was last told.  (Too long for a recorded trace; the rule is the trace specification's.)
func TestVerifPQBig(t *testing.T) {
	out := vuOpenOut("VERIF_OUT")
	defer out.Close()
	rng := rand.New(rand.NewSource(vuSeed()))
	ops := 0
	for _, peak := range []int{900, 1500, 2500, 5000} {
		w := newVqWorld(peak)
		check := func(what string) string {
			if w.q.Len() != len(w.in) {
				return fmt.Sprintf("%s: Len() = %d with %d elements in the queue", what, w.q.Len(), len(w.in))
			}
			if len(w.q.heap.a) != len(w.in) {
				return fmt.Sprintf("%s: the heap array holds %d elements, the queue %d", what, len(w.q.heap.a), len(w.in))
			}
			for i, e := range w.q.heap.a {
				it := e.(*vqItem)
				if !w.in[it.id] || it.idx != i {
					return fmt.Sprintf("%s: slot %d holds element %d (in the queue: %v) which was told index %d", what, i, it.id, w.in[it.id], it.idx)
				}
				if i > 0 && w.q.heap.a[(i-1)/2].(*vqItem).prio > it.prio {
					return fmt.Sprintf("%s: heap order broken at slot %d", what, i)
				}
			}
			return ""
		}
		fault := ""
		step := func(op string, x, p int) {
			if fault != "" {
				return
			}
			minBefore := 1 << 30
			for id := range w.in {
				if pr := w.items[id].prio; pr < minBefore {
					minBefore = pr
				}
			}
			ret, err := w.apply(op, x, p)
			ops++
			switch {
			case err != nil:
				fault = fmt.Sprintf("%s(%d): %v", op, x, err)
			case op == "Pop" && w.items[ret].prio != minBefore:
				fault = fmt.Sprintf("Pop returned element %d of priority %d, the minimum was %d", ret, w.items[ret].prio, minBefore)
			default:
				if ops%7 == 0 || len(w.in) < 3 || len(w.in)&(len(w.in)-1) == 0 || len(w.in)%256 < 2 {
					fault = check(fmt.Sprintf("after %s with %d elements (peak %d)", op, len(w.in), peak))
				}
			}
		}
		for id := 1; id <= peak; id++ {
			step("Push", id, 1+rng.Intn(50))
		}
		for len(w.in) > 0 && fault == "" {
			if rng.Intn(4) == 0 {
				for id := range w.in {
					step("Remove", id, 0)
					break
				}
			} else {
				step("Pop", 0, 0)
			}
		}
		if fault == "" {
			fault = check(fmt.Sprintf("drained (peak %d)", peak))
		}
		if fault != "" {
			out.Emit(map[string]interface{}{"ev": "fault", "err": fault, "peak": peak})
		}
	}
	out.Emit(map[string]interface{}{"ev": "big", "ops": ops})
}
