//go:build verif

package backend

// C09 driver for the backend (specs/V2Backend.tla): several ClassifyLicenses runs in flight on ONE backend.  Every run appends
// the entries a run made alone appends; at the end the list holds, for R runs, R times the entries of one run (AllAppended).
// Under the race detector the same schedule shows whether two tasks were in the critical section together (NoRace).

import (
	"context"
	"fmt"
	"io/ioutil"
	"os"
	"path/filepath"
	"sort"
	"sync"
	"testing"
	"time"
)

func ovKey(b *ClassifierBackend) map[string]int {
	m := map[string]int{}
	for _, r := range b.GetResults() {
		m[fmt.Sprintf("%s|%s|%s|%s|%v|%d|%d", filepath.Base(r.Filename), r.MatchType, r.Name, r.Variant, r.Confidence, r.StartLine, r.EndLine)]++
	}
	return m
}

func TestVerifBackendOverlap(t *testing.T) {
	out := vuOpenOut("VERIF_OUT")
	defer out.Close()
	root, err := ioutil.TempDir("", "verif-ovl-")
	if err != nil {
		t.Fatal(err)
	}
	defer os.RemoveAll(root)
	var files []string
	lic := cliRead("License/ISC/license.txt")
	for i := 0; i < 6; i++ {
		// many matches per file (notice lines) between two license texts: many short critical sections per task
		var b []byte
		b = append(b, lic...)
		for k := 0; k < 400; k++ {
			b = append(b, []byte(fmt.Sprintf("Copyright %d Contributor %d of file %d\n", 1990+k%30, k, i))...)
		}
		b = append(b, cliRead("License/Zlib/license.txt")...)
		p := filepath.Join(root, fmt.Sprintf("f%d.txt", i))
		if err := ioutil.WriteFile(p, b, 0644); err != nil {
			t.Fatal(err)
		}
		files = append(files, p)
	}
	alone, err := New()
	if err != nil {
		t.Fatal(err)
	}
	if errs := alone.ClassifyLicenses(4, files, true); len(errs) != 0 {
		t.Fatal(errs)
	}
	want := ovKey(alone)
	nwant := len(alone.GetResults())
	rounds := vuEnvInt("VERIF_ROUNDS", 3)
	bad := 0
	for round := 0; round < rounds; round++ {
		shared, _ := New()
		R := 2 + round%3
		var wg sync.WaitGroup
		for r := 0; r < R; r++ {
			wg.Add(1)
			go func(r int) {
				defer wg.Done()
				if r%2 == 0 {
					shared.ClassifyLicenses(1+r, files, true)
				} else {
					ctx, cancel := context.WithTimeout(context.Background(), 6*time.Hour) // never fires: a run that timed out would leave tasks appending behind it
					defer cancel()
					shared.ClassifyLicensesWithContext(ctx, 2+r, files, true)
				}
			}(r)
		}
		wg.Wait()
		got := ovKey(shared)
		var diffs []string
		for k, n := range want {
			if got[k] != n*R {
				diffs = append(diffs, fmt.Sprintf("%s: %d times, %d runs alone give %d", k, got[k], R, n*R))
			}
		}
		for k := range got {
			if _, ok := want[k]; !ok {
				diffs = append(diffs, "unexpected entry "+k)
			}
		}
		sort.Strings(diffs)
		if len(diffs) > 0 {
			bad++
			if len(diffs) > 4 {
				diffs = diffs[:4]
			}
			out.Emit(map[string]interface{}{"kind": "mismatch", "runs": R, "entries": len(shared.GetResults()), "want": nwant * R, "diffs": diffs})
		}
	}
	out.Emit(map[string]interface{}{"kind": "summary", "rounds": rounds, "files": len(files), "entries_per_run": nwant, "mismatches": bad})
}
