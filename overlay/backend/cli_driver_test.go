//go:build verif

package backend

// C19 driver: runs the real identify_license binary (built by the check from the current tree; path in
// VERIF_CLI, a -race build in VERIF_CLI_RACE) over seeded file sets, flag combinations and -tasks levels,
// and records what it printed next to what the library's Match returns for the same bytes.

import (
	"bytes"
	"encoding/json"
	"fmt"
	"io/ioutil"
	"math/rand"
	"os"
	"os/exec"
	"path/filepath"
	"regexp"
	"sort"
	"strconv"
	"strings"
	"testing"
	"time"

	"github.com/google/licenseclassifier/v2/assets"
)

var cliLine = regexp.MustCompile(`^(\S+) (\S+) \(variant: (\S*), confidence: (\S+), start: (\d+), end: (\d+)\)$`)

type cliSet struct {
	dir   string
	files map[string][]byte // relative path -> content
}

func cliRead(p string) []byte {
	b, err := assets.ReadLicenseFile(p)
	if err != nil {
		panic(err)
	}
	return b
}

func cliMakeSet(rng *rand.Rand, root string, k int, longLines bool) *cliSet {
	s := &cliSet{dir: filepath.Join(root, fmt.Sprintf("set%d", k)), files: map[string][]byte{}}
	lic := []string{"License/MIT/pristine.txt", "License/Apache-2.0/pristine.txt", "License/BSD-3-Clause/pristine.txt", "License/ISC/license.txt", "License/Zlib/license.txt", "License/Unlicense/license.txt"}
	hdr := []string{"Header/Apache-2.0/header.txt", "Header/GPL-2.0/header.txt", "Header/MPL-2.0/header.txt"}
	pick := func(a []string) []byte { return cliRead(a[rng.Intn(len(a))]) }
	s.files["LICENSE"] = pick(lic)
	s.files["sub/dir/deep/COPYING"] = append([]byte("Copyright 2020 Somebody\n\n"), pick(lic)...)
	s.files["sub/crlf.txt"] = bytes.Replace(pick(lic), []byte("\n"), []byte("\r\n"), -1)
	s.files["sub/no_newline.txt"] = bytes.TrimRight(pick(lic), "\n")
	s.files["src/main.go"] = append(append([]byte("// Copyright 2021 Acme\n//\n"), bytes.Replace(pick(hdr), []byte("\n"), []byte("\n// "), -1)...), []byte("\npackage main\n\nfunc main() {}\n")...)
	s.files["README.md"] = []byte("This project does something useful.\nNo license text here, only prose about building and running it.\n")
	s.files["empty.txt"] = []byte{}
	// matches that tie in confidence, file and lines: both WTFPL variants have the same words
	s.files["ambiguous/wtfpl.txt"] = cliRead("License/WTFPL/license.txt")
	s.files["two/both.txt"] = append(append(pick(lic), []byte("\n\n-----\nzzqxv qqzzk\n\n")...), pick(lic)...)
	if k%2 == 1 { // many matches per file: what concurrent appends need in order to collide
		var nb bytes.Buffer
		for i := 0; i < 1500; i++ {
			fmt.Fprintf(&nb, "Copyright %d Contributor Number %d\n", 1990+i%30, i)
		}
		s.files["NOTICE"] = nb.Bytes()
		s.files["third_party/NOTICE"] = append(nb.Bytes(), pick(lic)...)
	}
	if longLines {
		s.files["vendor/minified.js"] = append(append([]byte("/*\n"), pick(lic)...), []byte("*/\nvar x="+strings.Repeat("a", 70000)+";\n")...)
		s.files["vendor/blob_first.txt"] = append([]byte(strings.Repeat("QUJD", 20000)+"\n\n"), pick(lic)...)
		// a file of several MiB whose license comes last: the whole file is what is classified, whatever its size
		s.files["vendor/bundle.min.js"] = append(append([]byte("/* Copyright 2019 Bundler */\n"), bytes.Repeat([]byte("var q0=function(a,b){return a+b};q1=q0(1,2);\n"), 110000)...), append([]byte("/*\n"), append(pick(lic), []byte("*/\n")...)...)...)
	}
	// two headers in one source file: two adjacent matches of the same kind
	s.files["src/double.go"] = []byte("// " + strings.Replace(strings.TrimRight(string(cliRead(hdr[0])), "\n"), "\n", "\n// ", -1) + "\n\n// ---\n\n// " +
		strings.Replace(strings.TrimRight(string(cliRead(hdr[2])), "\n"), "\n", "\n// ", -1) + "\n\npackage double\n")
	// the bytes classified are the file's bytes: blank lines in front of the text count as lines, blanks behind it stay
	s.files["leading/blank_lines.txt"] = append(append([]byte("\n\n \t\n\n"), pick(lic)...), []byte("\n \n\n")...)
	// names are data, not format strings: URL-escaped and percent-laden paths
	s.files["my%20project/100%vendored/LICENSE%d.txt"] = pick(lic)
	s.files["my%20project/%s%v%!/COPYING"] = append([]byte("Copyright 2018 Percent Inc\n\n"), pick(lic)...)
	for rel, b := range s.files {
		p := filepath.Join(s.dir, rel)
		os.MkdirAll(filepath.Dir(p), 0755)
		if err := ioutil.WriteFile(p, b, 0644); err != nil {
			panic(err)
		}
	}
	// a license that is reached through a symbolic link (to a file: a file like any other)
	os.MkdirAll(filepath.Join(s.dir, "pkg"), 0755)
	if os.Symlink(filepath.Join("..", "LICENSE"), filepath.Join(s.dir, "pkg", "COPYING")) == nil {
		s.files["pkg/COPYING"] = s.files["LICENSE"]
	}
	return s
}

func cliName(t, n string) string {
	if t != "License" && t != "Header" {
		return t + ":" + n
	}
	return n
}

func cliLinesOf(b []byte, sl, el int) string { // what -include_text promises: lines sl..el, each followed by "\n"
	lines := strings.Split(string(b), "\n")
	var sb strings.Builder
	for i := sl; i <= el && i-1 < len(lines); i++ {
		sb.WriteString(strings.TrimSuffix(lines[i-1], "\r"))
		sb.WriteString("\n")
	}
	return sb.String()
}

func TestVerifCLI(t *testing.T) {
	out := vuOpenOut("VERIF_OUT")
	defer out.Close()
	bin, binRace := os.Getenv("VERIF_CLI"), os.Getenv("VERIF_CLI_RACE")
	rng := rand.New(rand.NewSource(vuSeed()))
	root, err := ioutil.TempDir("", "verif-cli-")
	if err != nil {
		t.Fatal(err)
	}
	defer os.RemoveAll(root)
	lc, err := assets.DefaultClassifier()
	if err != nil {
		t.Fatal(err)
	}
	nsets := vuEnvInt("VERIF_SETS", 2)
	run := 0
	for k := 0; k < nsets; k++ {
		set := cliMakeSet(rng, root, k, k%2 == 0)
		out.Emit(map[string]interface{}{"ev": "reset"})
		// what the library finds
		var rels []string
		for rel := range set.files {
			rels = append(rels, rel)
		}
		sort.Strings(rels)
		for _, rel := range rels {
			ms := []map[string]interface{}{}
			for _, m := range lc.Match(set.files[rel]).Matches {
				ms = append(ms, map[string]interface{}{"name": cliName(m.MatchType, m.Name), "variant": m.Variant, "conf": fmt.Sprintf("%v", m.Confidence),
					"sl": m.StartLine, "el": m.EndLine, "header": m.MatchType == "Header"})
			}
			out.Emit(map[string]interface{}{"ev": "lib", "file": filepath.Join(set.dir, rel), "ms": ms})
		}
		type inv struct {
			headers, js, text bool
			tasks             int
			args              []string // files / directories
			race              bool
		}
		whole := []string{set.dir}
		invs := []inv{{false, false, false, 1, whole, false}, {true, false, false, 2, whole, false}, {false, true, true, 7, whole, false},
			{true, true, true, 1000, whole, false}, {false, false, false, 16, whole, true},
			{false, true, false, 3, []string{filepath.Join(set.dir, "README.md"), filepath.Join(set.dir, "empty.txt")}, false}, // nothing to report
			{true, true, true, 2, []string{filepath.Join(set.dir, "src"), filepath.Join(set.dir, "LICENSE"), filepath.Join(set.dir, "sub")}, false}}
		for _, iv := range invs {
			run++
			b := bin
			if iv.race {
				if binRace == "" {
					continue
				}
				b = binRace
			}
			jf := filepath.Join(root, fmt.Sprintf("out%d.json", run))
			args := []string{"-tasks", strconv.Itoa(iv.tasks)}
			if iv.headers {
				args = append(args, "-headers")
			}
			if iv.js {
				args = append(args, "-json", jf)
			}
			if iv.text {
				args = append(args, "-include_text")
			}
			args = append(args, iv.args...)
			cmd := exec.Command(b, args...)
			var so, se bytes.Buffer
			cmd.Stdout, cmd.Stderr = &so, &se
			done := make(chan error, 1)
			cmd.Start()
			go func() { done <- cmd.Wait() }()
			exit := 0
			select {
			case err := <-done:
				if ee, ok := err.(*exec.ExitError); ok {
					exit = ee.ExitCode()
				} else if err != nil {
					exit = -1
				}
			case <-time.After(300 * time.Second):
				cmd.Process.Kill()
				exit = -2
			}
			var lines []map[string]interface{}
			bad := []string{}
			for _, ln := range strings.Split(strings.TrimRight(so.String(), "\n"), "\n") {
				if ln == "" {
					continue
				}
				m := cliLine.FindStringSubmatch(ln)
				if m == nil {
					bad = append(bad, ln)
					continue
				}
				sl, _ := strconv.Atoi(m[5])
				el, _ := strconv.Atoi(m[6])
				raw := m[2]
				if i := strings.LastIndex(raw, ":"); i >= 0 {
					raw = raw[i+1:] // the JSON output carries the bare Name, stdout prefixes other match types
				}
				lines = append(lines, map[string]interface{}{"file": m[1], "name": m[2], "rawname": raw, "variant": m[3], "conf": m[4], "sl": sl, "el": el})
			}
			if lines == nil {
				lines = []map[string]interface{}{}
			}
			// the files this invocation covers
			var scope []string
			for _, a := range iv.args {
				filepath.Walk(a, func(p string, info os.FileInfo, err error) error {
					if err == nil && !info.IsDir() {
						scope = append(scope, p)
					}
					return nil
				})
			}
			sort.Strings(scope)
			ev := map[string]interface{}{"ev": "cli", "run": run, "headers": iv.headers, "tasks": iv.tasks, "json": iv.js, "text": iv.text, "race": iv.race,
				"exit": exit, "lines": lines, "unparsed": bad, "scope": scope, "races": strings.Count(se.String(), "WARNING: DATA RACE"), "jsonok": true, "jsoncls": []int{}, "racefirst": raceFirst(se.String())}
			if iv.js {
				raw, rerr := ioutil.ReadFile(jf)
				var jr []struct {
					Filepath        string
					Classifications []struct {
						Name       string
						Confidence float64
						StartLine  int
						EndLine    int
						Text       string
					}
				}
				if rerr != nil || json.Unmarshal(raw, &jr) != nil {
					ev["jsonok"] = false
					ev["jsonerr"] = fmt.Sprint(rerr, " stderr: ", lastLines(se.String(), 3))
				} else {
					var cls []map[string]interface{}
					for _, f := range jr {
						rel, _ := filepath.Rel(set.dir, f.Filepath)
						for _, c := range f.Classifications {
							textOK := true
							if iv.text {
								textOK = c.Text == cliLinesOf(set.files[rel], c.StartLine, c.EndLine)
							} else {
								textOK = c.Text == ""
							}
							cls = append(cls, map[string]interface{}{"file": f.Filepath, "name": c.Name, "conf": fmt.Sprintf("%v", c.Confidence), "sl": c.StartLine, "el": c.EndLine, "textok": textOK})
						}
					}
					if cls == nil {
						cls = []map[string]interface{}{}
					}
					ev["jsoncls"] = cls
				}
			}
			out.Emit(ev)
		}
	}
	cliProbeJSONText(out, bin, root)
}

// cliProbeJSONText re-observes the recorded finding C19-json-text-not-utf8: the JSON report carries the text as a JSON
// string, and encoding/json replaces every byte that is not valid UTF-8 by U+FFFD.
func cliProbeJSONText(out *vuWriter, bin, root string) {
	dir := filepath.Join(root, "probe")
	os.MkdirAll(dir, 0755)
	content := append([]byte("Copyright \xa9 2020 Foo Bar\n\n"), cliRead("License/MIT/pristine.txt")...)
	file := filepath.Join(dir, "latin1.txt")
	ioutil.WriteFile(file, content, 0644)
	jf := filepath.Join(root, "probe.json")
	exec.Command(bin, "-json", jf, "-include_text", file).Run()
	raw, _ := ioutil.ReadFile(jf)
	var jr []struct {
		Classifications []struct {
			StartLine, EndLine int
			Text               string
		}
	}
	json.Unmarshal(raw, &jr)
	observed, deviates, seen := "", false, false
	for _, f := range jr {
		for _, c := range f.Classifications {
			if c.StartLine == 1 {
				seen = true
				observed = fmt.Sprintf("%q", c.Text)
				deviates = c.Text != cliLinesOf(content, c.StartLine, c.EndLine)
			}
		}
	}
	if !seen {
		observed, deviates = "no classification on line 1 in the JSON report", false
	}
	out.Emit(map[string]interface{}{"ev": "probe", "id": "C19-json-text-not-utf8", "input": "Copyright \\xa9 2020 Foo Bar + MIT (the notice line holds a Latin-1 byte)",
		"observed": observed, "ideal": fmt.Sprintf("%q", cliLinesOf(content, 1, 1)), "deviates": deviates})
}

func raceFirst(s string) string {
	i := strings.Index(s, "WARNING: DATA RACE")
	if i < 0 {
		return ""
	}
	s = s[i:]
	if len(s) > 2500 {
		s = s[:2500]
	}
	return s
}

func lastLines(s string, n int) string {
	l := strings.Split(strings.TrimSpace(s), "\n")
	if len(l) > n {
		l = l[len(l)-n:]
	}
	return strings.Join(l, " | ")
}
