//go:build verif

package tokenizer

// C17 driver (tokenizer half): every class string enumerated by specs/V1Tokens.tla is concretised and
// tokenised by the real Tokenize; offsets and text lengths are compared with the spec, and the recorded
// offsets must reproduce each token's text from the string.

import (
	"encoding/json"
	"fmt"
	"os"
	"strings"
	"testing"
)

var v1Conc = [][]map[string]string{
	{{"sp": " ", "nb": "\u00a0", "p": ".", "P3": "—", "a": "a", "E2": "é", "C4": "𝒜", "X": "\xff"}},
	{{"sp": "\t", "nb": "\u00a0", "p": "(", "P3": "…", "a": "Z", "E2": "Ж", "C4": "😀", "X": "\xc3"}},
}

func TestVerifV1TokReplay(t *testing.T) {
	out := vuOpenOut("VERIF_OUT")
	defer out.Close()
	n, nontrivial, bad := 0, 0, 0
	var samples []json.RawMessage
	vuVectors(os.Getenv("VERIF_IN"), func(raw []byte) bool {
		var v struct {
			I []string `json:"i"`
			T [][2]int `json:"t"`
		}
		if json.Unmarshal(raw, &v) != nil {
			return true
		}
		n++
		if len(v.T) >= 2 {
			nontrivial++
			if len(samples) < 3 && nontrivial%2000 == 1 {
				samples = append(samples, append([]byte(nil), raw...))
			}
		}
		for variant := range v1Conc {
			var sb strings.Builder
			for _, c := range v.I {
				sb.WriteString(v1Conc[variant][0][c])
			}
			s := sb.String()
			why := ""
			func() {
				defer func() {
					if p := recover(); p != nil {
						why = fmt.Sprintf("panic: %v", p)
					}
				}()
				toks := Tokenize(s)
				if len(toks) != len(v.T) {
					why = fmt.Sprintf("%d tokens, spec %d", len(toks), len(v.T))
					return
				}
				for k, tk := range toks {
					if tk.Offset != v.T[k][0] || len(tk.Text) != v.T[k][1] {
						why = fmt.Sprintf("token %d: offset %d len %d, spec %v", k, tk.Offset, len(tk.Text), v.T[k])
						return
					}
					if tk.Offset < 0 || tk.Offset+len(tk.Text) > len(s) || s[tk.Offset:tk.Offset+len(tk.Text)] != tk.Text {
						why = fmt.Sprintf("token %d: text %q is not s[%d:%d]", k, tk.Text, tk.Offset, tk.Offset+len(tk.Text))
						return
					}
				}
			}()
			if why != "" {
				bad++
				if bad <= 6 {
					out.Emit(map[string]interface{}{"kind": "mismatch", "src": s, "why": why, "spec": json.RawMessage(raw)})
				}
			}
		}
		return true
	})
	out.Emit(map[string]interface{}{"kind": "summary", "vectors": n, "nontrivial": nontrivial, "mismatches": bad, "samples": samples})
}
