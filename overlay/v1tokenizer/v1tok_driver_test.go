//go:build verif

package tokenizer

// C17 driver (tokenizer half): every class string enumerated by specs/V1Tokens.tla is concretised and
// tokenised by the real Tokenize; offsets and text lengths are compared with the spec, and the recorded
// offsets must reproduce each token's text from the string.

import (
	"encoding/json"
	"fmt"
	"os"
	"strings"
	"sync"
	"testing"
)

var v1Conc = [][]map[string]string{
	{{"sp": " ", "nb": "\u00a0", "p": ".", "P3": "—", "a": "a", "E2": "é", "C4": "𝒜", "X": "\xff"}},
	{{"sp": "\t", "nb": "\u00a0", "p": "(", "P3": "…", "a": "Z", "E2": "Ж", "C4": "😀", "X": "\xc3"}},
}

func TestVerifV1TokReplay(t *testing.T) {
	out := vuOpenOut("VERIF_OUT")
	defer out.Close()
	// the vectors are replayed by 8 goroutines at once: tokenising is something many callers do at the same time
	const W = 8
	type acc struct {
		n, nontrivial, bad int
		samples            []json.RawMessage
	}
	accs := make([]*acc, W)
	for i := range accs {
		accs[i] = &acc{}
	}
	var mu sync.Mutex
	letter := map[string]bool{"a": true, "E2": true, "C4": true, "X": true}
	check := func(s string, want [][2]int) (why string) {
		defer func() {
			if p := recover(); p != nil {
				why = fmt.Sprintf("panic: %v", p)
			}
		}()
		toks := Tokenize(s)
		if len(toks) != len(want) {
			return fmt.Sprintf("%d tokens, spec %d", len(toks), len(want))
		}
		for k, tk := range toks {
			if tk.Offset != want[k][0] || len(tk.Text) != want[k][1] {
				return fmt.Sprintf("token %d: offset %d len %d, spec %v", k, tk.Offset, len(tk.Text), want[k])
			}
			if tk.Offset < 0 || tk.Offset+len(tk.Text) > len(s) || s[tk.Offset:tk.Offset+len(tk.Text)] != tk.Text {
				return fmt.Sprintf("token %d: text is not s[%d:%d]", k, tk.Offset, tk.Offset+len(tk.Text))
			}
		}
		return ""
	}
	vuParallel(os.Getenv("VERIF_IN"), W, func(wk int, line []byte) {
		ac := accs[wk]
		raw := vuDecode(line)
		if raw == nil {
			return
		}
		var v struct {
			I []string `json:"i"`
			T [][2]int `json:"t"`
		}
		if json.Unmarshal(raw, &v) != nil || v.I == nil {
			return
		}
		ac.n++
		if len(v.T) >= 2 {
			ac.nontrivial++
			if len(ac.samples) < 1 && ac.nontrivial%2000 == 1 {
				ac.samples = append(ac.samples, append([]byte(nil), raw...))
			}
		}
		for variant := range v1Conc {
			// as enumerated, and scaled: every letter of the class string stands for a run of 300 such letters (a word is a
			// word however long it is); the spec's tokens are carried over symbol by symbol
			for _, rep := range []int{1, 300} {
				var sb strings.Builder
				o0, o1 := []int{}, []int{} // byte offset of every symbol: as enumerated / in this string
				b0 := 0
				for _, c := range v.I {
					cs := v1Conc[variant][0][c]
					o0 = append(o0, b0)
					o1 = append(o1, sb.Len())
					b0 += len(cs)
					if letter[c] {
						sb.WriteString(strings.Repeat(cs, rep))
					} else {
						sb.WriteString(cs)
					}
				}
				o0, o1 = append(o0, b0), append(o1, sb.Len())
				at := map[int]int{}
				for k := range o0 {
					at[o0[k]] = k
				}
				want := make([][2]int, len(v.T))
				for k, tk := range v.T {
					a, aok := at[tk[0]]
					b, bok := at[tk[0]+tk[1]]
					if !aok || !bok {
						want = nil
						break
					}
					want[k] = [2]int{o1[a], o1[b] - o1[a]}
				}
				if want == nil {
					continue // a token of the spec that does not sit on symbol boundaries (an invalid byte): not scaled
				}
				s := sb.String()
				if why := check(s, want); why != "" {
					ac.bad++
					if ac.bad <= 2 {
						mu.Lock()
						src := s
						if len(src) > 80 {
							src = src[:80] + "..."
						}
						out.Emit(map[string]interface{}{"kind": "mismatch", "src": src, "letters_times": rep, "why": why, "spec": json.RawMessage(raw)})
						mu.Unlock()
					}
				}
			}
		}
	})
	tot := &acc{}
	for _, a := range accs {
		tot.n += a.n
		tot.nontrivial += a.nontrivial
		tot.bad += a.bad
		tot.samples = append(tot.samples, a.samples...)
	}
	out.Emit(map[string]interface{}{"kind": "summary", "vectors": tot.n, "nontrivial": tot.nontrivial, "mismatches": tot.bad, "samples": tot.samples})
}
