//go:build verif

package commentparser

// C18 driver.
//   TestVerifCPReplay : leg G -- every input enumerated by specs/CommentLexer.tla is concretised and
//                       parsed with the real Parse for every language of the vector's group; comments
//                       and ChunkIterator output are compared with the reference (and with the
//                       as-built model for classification).
//   TestVerifCPTrace  : leg T -- seeded long programs, real Parse results recorded for TLC.

import (
	"encoding/json"
	"fmt"
	"io/ioutil"
	"math/rand"
	"os"
	"strings"
	"testing"
	"time"

	"github.com/google/licenseclassifier/commentparser/language"
)

type cpGroup struct {
	Name  string     `json:"name"`
	Langs []int      `json:"langs"`
	Sigma []string   `json:"sigma"`
	ML    [][]string `json:"ml"`
}
type cpTables struct {
	Languages []string  `json:"languages"`
	Groups    []cpGroup `json:"groups"`
}

func cpLoadTables() *cpTables {
	b, err := ioutil.ReadFile(os.Getenv("VERIF_TABLES"))
	if err != nil {
		panic(err)
	}
	var t cpTables
	if err := json.Unmarshal(b, &t); err != nil {
		panic(err)
	}
	return &t
}

type cpCom struct {
	SL int      `json:"sl"`
	EL int      `json:"el"`
	T  []string `json:"t"`
}
type cpVec struct {
	G   int        `json:"g"`
	T   [][]string `json:"t"`
	C   []cpCom    `json:"c"`
	U   bool       `json:"u"`
	Ch  [][]int    `json:"ch"`
	BC  []cpCom    `json:"bc"`
	BU  bool       `json:"bu"`
	BCh [][]int    `json:"bch"`
}

// the abstract letter of the spec, concretised: ASCII, two bytes, the replacement character itself (valid UTF-8, decodes to
// utf8.RuneError like an invalid byte does), a byte that is not UTF-8 (the lexer reads runes: in a comment's text it comes
// back as U+FFFD, cpTextLetters)
var cpLetters = []string{"a", "é", "\uFFFD", "\xff"}
var cpTextLetters = []string{"a", "é", "\uFFFD", "\uFFFD"}

func cpConc(chars []string, variant int) string { return cpConcWith(chars, cpLetters[variant]) }

func cpConcWith(chars []string, letter string) string {
	var sb strings.Builder
	for _, c := range chars {
		if c == "a" {
			sb.WriteString(letter)
		} else {
			sb.WriteString(c)
		}
	}
	return sb.String()
}

type cpReal struct {
	SL, EL int
	Text   string
}

// cpParse runs the real Parse + ChunkIterator under a watchdog.
func cpParse(src []byte, lang language.Language) (coms []cpReal, chunks [][]int, fault string) {
	type res struct {
		coms   []cpReal
		chunks [][]int
		fault  string
	}
	ch := make(chan res, 1)
	go func() {
		var r res
		defer func() {
			if p := recover(); p != nil {
				r.fault = fmt.Sprintf("panic: %v", p)
			}
			ch <- r
		}()
		cs := Parse(src, lang)
		idx := map[*Comment]int{}
		for i, c := range cs {
			r.coms = append(r.coms, cpReal{c.StartLine, c.EndLine, c.Text})
			idx[c] = i + 1
		}
		parsed := append(Comments(nil), cs...)
		intruder := &Comment{StartLine: -1, EndLine: -1, Text: "written by the consumer"}
		for chunk := range cs.ChunkIterator() {
			var ids []int
			for _, c := range chunk {
				ids = append(ids, idx[c]) // 0: not one of the parsed comments
			}
			r.chunks = append(r.chunks, ids)
			// a received chunk is the consumer's: it appends to it and uses whatever capacity it has
			for full, i := chunk[:cap(chunk)], len(chunk); i < len(full); i++ {
				full[i] = intruder
			}
			chunk = append(chunk, intruder)
			if len(chunk) > 1 {
				chunk[0] = intruder
			}
		}
		for i := range parsed {
			if i >= len(cs) || cs[i] != parsed[i] {
				r.fault = fmt.Sprintf("what the consumer did with the chunks it received changed the Comments value returned by Parse (element %d)", i)
				break
			}
		}
	}()
	select {
	case r := <-ch:
		return r.coms, r.chunks, r.fault
	case <-time.After(5 * time.Second):
		return nil, nil, "hang: no result after 5s"
	}
}

// cpLines: the number of lines a source has (a last line without line feed counts)
func cpLines(src string) int {
	n := strings.Count(src, "\n")
	if !strings.HasSuffix(src, "\n") {
		n++
	}
	return n
}

func cpSame(real []cpReal, exp []cpCom, variant int, unterminated bool, nlines int) bool {
	if len(real) != len(exp) && !(unterminated && len(real) == len(exp)+1) {
		return false
	}
	// a construct that is still open at the end of the input may be dropped or reported up to the end (both readings are
	// accepted) -- but what is reported lies inside the file: it starts behind the comments before it and ends on a line the
	// source has
	if len(real) == len(exp)+1 {
		x := real[len(real)-1]
		if x.SL < 1 || x.EL < x.SL || x.EL > nlines || (len(exp) > 0 && x.SL < exp[len(exp)-1].EL) {
			return false
		}
	}
	for i, e := range exp {
		if real[i].SL != e.SL || real[i].EL != e.EL || real[i].Text != cpConcWith(e.T, cpTextLetters[variant]) {
			return false
		}
	}
	return true
}

func cpSameChunks(a, b [][]int) bool { return vuJS(a) == vuJS(b) || (len(a) == 0 && len(b) == 0) }

func TestVerifCPReplay(t *testing.T) {
	out := vuOpenOut("VERIF_OUT")
	defer out.Close()
	tb := cpLoadTables()
	const W = 12
	type acc struct {
		vectors, parses, nontrivial int
		classes                     map[string]int
		emitted                     map[string]int
		samples                     []json.RawMessage
	}
	accs := make([]*acc, W)
	for i := range accs {
		accs[i] = &acc{classes: map[string]int{}, emitted: map[string]int{}}
	}
	vuParallel(os.Getenv("VERIF_IN"), W, func(w int, line []byte) {
		a := accs[w]
		raw := vuDecode(line)
		if raw == nil {
			return
		}
		var v cpVec
		if json.Unmarshal(raw, &v) != nil || v.G < 1 || v.G > len(tb.Groups) {
			return
		}
		a.vectors++
		if len(v.C) > 0 {
			a.nontrivial++
			if len(a.samples) < 1 && a.nontrivial%500 == 3 {
				a.samples = append(a.samples, append([]byte(nil), raw...))
			}
		}
		var flat []string
		for _, tok := range v.T {
			flat = append(flat, tok...)
		}
		grp := tb.Groups[v.G-1]
		for _, lid := range grp.Langs {
			for variant := range cpLetters {
				if variant > 0 && !strings.Contains(strings.Join(flat, ""), "a") {
					continue
				}
				src := cpConc(flat, variant)
				real, chunks, fault := cpParse([]byte(src), language.Language(lid))
				a.parses++
				class := ""
				switch {
				case fault != "":
					class = "fault"
				case cpSame(real, v.C, variant, v.U, cpLines(src)):
					// comments are the reference's; now the grouping
					if len(real) == len(v.C) && !cpSameChunks(chunks, v.Ch) {
						class = "chunks"
					}
				case vuJS(v.BC) != vuJS(v.C) && cpSame(real, v.BC, variant, v.BU, cpLines(src)):
					class = "lexer-asbuilt" // only when the spec is run with deviation flags on
				default:
					class = "lexer"
				}
				if class != "" {
					a.classes[class]++
					if a.emitted[class] < 3 {
						a.emitted[class]++
						out.Emit(map[string]interface{}{"kind": "mismatch", "class": class, "lang": tb.Languages[lid], "src": src,
							"real": real, "chunks": chunks, "fault": fault, "spec": json.RawMessage(raw)})
					}
					if fault != "" && strings.HasPrefix(fault, "hang") {
						out.Flush()
					}
				}
			}
		}
	})
	tot := &acc{classes: map[string]int{}}
	for _, a := range accs {
		tot.vectors += a.vectors
		tot.parses += a.parses
		tot.nontrivial += a.nontrivial
		for k, v := range a.classes {
			tot.classes[k] += v
		}
		tot.samples = append(tot.samples, a.samples...)
	}
	out.Emit(map[string]interface{}{"kind": "summary", "vectors": tot.vectors, "parses": tot.parses, "nontrivial": tot.nontrivial,
		"classes": tot.classes, "samples": tot.samples})
}

// TestVerifCPTrace: seeded token soup per group, a few hundred tokens long; records the tokens
// and what the real Parse returned so that TLC can re-lex with the reference.
func TestVerifCPTrace(t *testing.T) {
	out := vuOpenOut("VERIF_OUT")
	defer out.Close()
	tb := cpLoadTables()
	rng := rand.New(rand.NewSource(vuSeed()))
	per := vuEnvInt("VERIF_PROGRAMS", 2)
	ntok := vuEnvInt("VERIF_TOKENS", 120)
	for gi, grp := range tb.Groups {
		// fixed programs (seeded change C18m: a nesting depth kept as a flag shows only at depth 2, which needs six
		// delimiters -- more than the quick tier enumerates and rare in the soup): every multi-line delimiter pair of the
		// group opened three times and closed three times, with a letter after each, then a line comment's worth of text
		var fixed [][]string
		for _, ml := range grp.ML {
			if len(ml) == 2 {
				o, c := ml[0], ml[1]
				fixed = append(fixed, []string{o, "a", o, "a", o, "a", c, "a", c, "a", c, "a", "\n", "a", "\n"})
				fixed = append(fixed, []string{o, o, o, "a", c, c, "a", c, "\n", o, "a", c, "\n"})
			}
		}
		for k := 0; k < per+len(fixed); k++ {
			lid := grp.Langs[rng.Intn(len(grp.Langs))]
			var toks []string
			n := ntok/2 + rng.Intn(ntok)
			if k >= per {
				toks, n = fixed[k-per], 0
				lid = grp.Langs[(k-per)%len(grp.Langs)]
			}
			for i := 0; i < n; i++ {
				switch x := rng.Intn(10); {
				case x < 4:
					toks = append(toks, "a")
				case x < 5:
					toks = append(toks, "\n")
				default:
					toks = append(toks, grp.Sigma[rng.Intn(len(grp.Sigma))])
				}
			}
			var flat []string
			for _, tk := range toks {
				for _, r := range tk {
					flat = append(flat, string(r))
				}
			}
			src := strings.Join(flat, "")
			real, chunks, fault := cpParse([]byte(src), language.Language(lid))
			coms := make([]map[string]interface{}, 0, len(real))
			for _, c := range real {
				var tx []string
				for _, r := range c.Text {
					tx = append(tx, string(r))
				}
				if tx == nil {
					tx = []string{}
				}
				coms = append(coms, map[string]interface{}{"sl": c.SL, "el": c.EL, "t": tx})
			}
			if chunks == nil {
				chunks = [][]int{}
			}
			ev := map[string]interface{}{"ev": "parse", "g": gi + 1, "lang": tb.Languages[lid], "in": flat, "c": coms, "ch": chunks}
			if fault != "" {
				ev["ev"], ev["fault"] = "fault", fault
			}
			out.Emit(ev)
		}
	}
}
