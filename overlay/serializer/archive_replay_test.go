//go:build verif

package serializer

// C15, leg G: every ordered set of files enumerated by specs/V1Archive.tla is archived with the real
// ArchiveLicenses (synthetic contents through the ReadLicenseFile hook) and loaded with New(ArchiveBytes);
// the registered keys and the emptiness of their normalised values must be the spec's.

import (
	"bytes"
	"encoding/json"
	"fmt"
	"os"
	"sort"
	"strings"
	"testing"

	"github.com/google/licenseclassifier"
)

func TestVerifArchiveReplay(t *testing.T) {
	out := vuOpenOut("VERIF_OUT")
	defer out.Close()
	orig := licenseclassifier.ReadLicenseFile
	defer func() { licenseclassifier.ReadLicenseFile = orig }()
	content := map[string]string{
		"lic":   "Permission is hereby granted to use copy modify and distribute this software and its documentation under the terms of the %s license without warranty of any kind",
		"hdr":   "This file is licensed under the terms of the %s license see the accompanying file for your rights",
		"empty": "Copyright 2020 %s Corp\nAll rights reserved.\n",
		"other": "not a license file %s",
	}
	n, nontrivial, bad := 0, 0, 0
	var samples []json.RawMessage
	vuVectors(os.Getenv("VERIF_IN"), func(raw []byte) bool {
		var v struct {
			Files   [][3]string `json:"files"`
			Keys    []string    `json:"keys"`
			Empties []string    `json:"empties"`
		}
		if json.Unmarshal(raw, &v) != nil || v.Files == nil {
			return true
		}
		n++
		if len(v.Keys) >= 2 {
			nontrivial++
			if len(samples) < 2 && nontrivial%100 == 3 {
				samples = append(samples, append([]byte(nil), raw...))
			}
		}
		kind := map[string]string{}
		var names []string
		for _, f := range v.Files {
			fn := f[2] + f[0]
			if f[1] != "other" {
				fn += ".txt"
			}
			kind[fn] = f[1]
			names = append(names, fn)
		}
		licenseclassifier.ReadLicenseFile = func(name string) ([]byte, error) {
			if k, ok := kind[name]; ok {
				if k == "twin" { // Alpha's text, upper-cased and wrapped differently
					return []byte(strings.Replace(strings.ToUpper(fmt.Sprintf(content["lic"], "Alpha.txt")), " ", "\n  ", 7)), nil
				}
				return []byte(fmt.Sprintf(content[k], name)), nil
			}
			return orig(name)
		}
		why := ""
		func() {
			defer func() {
				if p := recover(); p != nil {
					why = fmt.Sprintf("panic: %v", p)
				}
			}()
			var buf bytes.Buffer
			if err := ArchiveLicenses(names, &buf); err != nil {
				why = "ArchiveLicenses: " + err.Error()
				return
			}
			l, err := licenseclassifier.New(licenseclassifier.DefaultConfidenceThreshold, licenseclassifier.ArchiveBytes(buf.Bytes()))
			if err != nil {
				why = "New(ArchiveBytes): " + err.Error()
				return
			}
			keys, lens, hasSet := licenseclassifier.VerifInner(l).VerifKeys()
			want := append([]string(nil), v.Keys...)
			sort.Strings(want)
			if vuJS(keys) != vuJS(want) && !(len(keys) == 0 && len(want) == 0) {
				why = fmt.Sprintf("registered keys %v, spec %v", keys, want)
				return
			}
			emp := map[string]bool{}
			for _, e := range v.Empties {
				emp[e] = true
			}
			for i, k := range keys {
				if (lens[i] == 0) != emp[k] {
					why = fmt.Sprintf("key %s: normalised length %d, spec empty=%v", k, lens[i], emp[k])
					return
				}
				if !hasSet[i] {
					why = fmt.Sprintf("key %s: no precomputed search set", k)
					return
				}
			}
			// every registered, non-empty license is found by its own text
			for _, f := range v.Files {
				if f[1] == "lic" || f[1] == "hdr" {
					m := l.NearestMatch(fmt.Sprintf(content[f[1]], f[2]+f[0]+".txt"))
					wantName := f[0]
					if f[1] == "hdr" {
						wantName = f[0][:len(f[0])-len(".header")]
					}
					if m == nil || m.Confidence != 1.0 || (m.Name != wantName && kindOfTwin(v.Files, wantName) == "" && !(wantName == "Alpha" && m.Name == "Alpha-Twin")) {
						why = fmt.Sprintf("NearestMatch of %s's own text: %+v", f[0], m)
						return
					}
				}
			}
		}()
		if why != "" {
			bad++
			if bad <= 5 {
				out.Emit(map[string]interface{}{"kind": "mismatch", "why": why, "spec": json.RawMessage(raw)})
			}
		}
		return true
	})
	out.Emit(map[string]interface{}{"kind": "summary", "vectors": n, "nontrivial": nontrivial, "mismatches": bad, "samples": samples})
}

// kindOfTwin: a license and its .header sibling share the reported name (the suffix is trimmed)
func kindOfTwin(files [][3]string, name string) string {
	for _, f := range files {
		if f[0] == name+".header" || f[0] == name {
			return f[1]
		}
	}
	return ""
}

// ---------------------------------------------------------------------------------------------
// The writers under ArchiveLicenses (specs/V1ArchiveWriter.tla): a destination that accepts `room` bytes and fails after
// that.  The rule the model gives: success is reported exactly when the destination accepted the whole archive.
type awWriter struct {
	room, got int
	failed    bool
}

func (w *awWriter) Write(p []byte) (int, error) {
	if w.got+len(p) > w.room {
		n := w.room - w.got
		w.got = w.room
		w.failed = true
		return n, fmt.Errorf("verif: no space left on the destination after %d bytes", w.room)
	}
	w.got += len(p)
	return len(p), nil
}

func TestVerifArchiveWriter(t *testing.T) {
	out := vuOpenOut("VERIF_OUT")
	defer out.Close()
	n, bad := 0, 0
	for _, files := range [][]string{{"MIT.txt"}, {"MIT.txt", "ISC.txt", "README.md", "BSD-3-Clause.txt"}, {"Apache-2.0.txt", "GPL-2.0.txt", "MPL-2.0.txt", "LGPL-2.1.txt", "AGPL-3.0.txt", "EPL-1.0.txt"}, {}} {
		whole := &awWriter{room: 1 << 30}
		if err := ArchiveLicenses(append([]string(nil), files...), whole); err != nil {
			t.Fatal(err)
		}
		total := whole.got
		var buf bytes.Buffer
		ArchiveLicenses(append([]string(nil), files...), &buf)
		rooms := []int{}
		for r := 0; r <= 40 && r <= total; r++ {
			rooms = append(rooms, r)
		}
		for r := 41; r < total; r += 1 + total/97 {
			rooms = append(rooms, r)
		}
		for r := total - 12; r <= total+2; r++ {
			if r > 40 {
				rooms = append(rooms, r)
			}
		}
		for _, room := range rooms {
			n++
			w := &awWriter{room: room}
			err := ArchiveLicenses(append([]string(nil), files...), w)
			why := ""
			// (the archive's size varies by a few bytes from run to run -- the search set is serialised in map order -- so the
			// rule is stated on what the destination did, not on a size measured before)
			switch {
			case !w.failed && err != nil:
				why = fmt.Sprintf("the destination (room for %d bytes) accepted every byte it was given (%d) and ArchiveLicenses failed: %v", room, w.got, err)
			case w.failed && err == nil:
				why = fmt.Sprintf("the destination failed after %d bytes (an archive of these files has about %d) and ArchiveLicenses reported success", room, total)
			}
			if why != "" {
				bad++
				if bad <= 4 {
					out.Emit(map[string]interface{}{"kind": "mismatch", "files": files, "room": room, "total": total, "why": why})
				}
			}
		}
	}
	out.Emit(map[string]interface{}{"kind": "summary", "vectors": n, "mismatches": bad})
}
