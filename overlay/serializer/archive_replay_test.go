//go:build verif

package serializer

// C15, leg G: every ordered set of files enumerated by specs/V1Archive.tla is archived with the real
// ArchiveLicenses (synthetic contents through the ReadLicenseFile hook) and loaded with New(ArchiveBytes);
// the registered keys and the emptiness of their normalised values must be the spec's.

import (
	"bytes"
	"encoding/json"
	"fmt"
	"os"
	"sort"
	"strings"
	"testing"

	"github.com/google/licenseclassifier"
)

func TestVerifArchiveReplay(t *testing.T) {
	out := vuOpenOut("VERIF_OUT")
	defer out.Close()
	orig := licenseclassifier.ReadLicenseFile
	defer func() { licenseclassifier.ReadLicenseFile = orig }()
	content := map[string]string{
		"lic":   "Permission is hereby granted to use copy modify and distribute this software and its documentation under the terms of the %s license without warranty of any kind",
		"hdr":   "This file is licensed under the terms of the %s license see the accompanying file for your rights",
		"empty": "Copyright 2020 %s Corp\nAll rights reserved.\n",
		"other": "not a license file %s",
	}
	n, nontrivial, bad := 0, 0, 0
	var samples []json.RawMessage
	vuVectors(os.Getenv("VERIF_IN"), func(raw []byte) bool {
		var v struct {
			Files   [][3]string `json:"files"`
			Keys    []string    `json:"keys"`
			Empties []string    `json:"empties"`
		}
		if json.Unmarshal(raw, &v) != nil || v.Files == nil {
			return true
		}
		n++
		if len(v.Keys) >= 2 {
			nontrivial++
			if len(samples) < 2 && nontrivial%100 == 3 {
				samples = append(samples, append([]byte(nil), raw...))
			}
		}
		kind := map[string]string{}
		var names []string
		for _, f := range v.Files {
			fn := f[2] + f[0]
			if f[1] != "other" {
				fn += ".txt"
			}
			kind[fn] = f[1]
			names = append(names, fn)
		}
		licenseclassifier.ReadLicenseFile = func(name string) ([]byte, error) {
			if k, ok := kind[name]; ok {
				if k == "twin" { // Alpha's text, upper-cased and wrapped differently
					return []byte(strings.Replace(strings.ToUpper(fmt.Sprintf(content["lic"], "Alpha.txt")), " ", "\n  ", 7)), nil
				}
				return []byte(fmt.Sprintf(content[k], name)), nil
			}
			return orig(name)
		}
		why := ""
		func() {
			defer func() {
				if p := recover(); p != nil {
					why = fmt.Sprintf("panic: %v", p)
				}
			}()
			var buf bytes.Buffer
			if err := ArchiveLicenses(names, &buf); err != nil {
				why = "ArchiveLicenses: " + err.Error()
				return
			}
			l, err := licenseclassifier.New(licenseclassifier.DefaultConfidenceThreshold, licenseclassifier.ArchiveBytes(buf.Bytes()))
			if err != nil {
				why = "New(ArchiveBytes): " + err.Error()
				return
			}
			keys, lens, hasSet := licenseclassifier.VerifInner(l).VerifKeys()
			want := append([]string(nil), v.Keys...)
			sort.Strings(want)
			if vuJS(keys) != vuJS(want) && !(len(keys) == 0 && len(want) == 0) {
				why = fmt.Sprintf("registered keys %v, spec %v", keys, want)
				return
			}
			emp := map[string]bool{}
			for _, e := range v.Empties {
				emp[e] = true
			}
			for i, k := range keys {
				if (lens[i] == 0) != emp[k] {
					why = fmt.Sprintf("key %s: normalised length %d, spec empty=%v", k, lens[i], emp[k])
					return
				}
				if !hasSet[i] {
					why = fmt.Sprintf("key %s: no precomputed search set", k)
					return
				}
			}
			// every registered, non-empty license is found by its own text
			for _, f := range v.Files {
				if f[1] == "lic" || f[1] == "hdr" {
					m := l.NearestMatch(fmt.Sprintf(content[f[1]], f[2]+f[0]+".txt"))
					wantName := f[0]
					if f[1] == "hdr" {
						wantName = f[0][:len(f[0])-len(".header")]
					}
					if m == nil || m.Confidence != 1.0 || (m.Name != wantName && kindOfTwin(v.Files, wantName) == "" && !(wantName == "Alpha" && m.Name == "Alpha-Twin")) {
						why = fmt.Sprintf("NearestMatch of %s's own text: %+v", f[0], m)
						return
					}
				}
			}
		}()
		if why != "" {
			bad++
			if bad <= 5 {
				out.Emit(map[string]interface{}{"kind": "mismatch", "why": why, "spec": json.RawMessage(raw)})
			}
		}
		return true
	})
	out.Emit(map[string]interface{}{"kind": "summary", "vectors": n, "nontrivial": nontrivial, "mismatches": bad, "samples": samples})
}

// kindOfTwin: a license and its .header sibling share the reported name (the suffix is trimmed)
func kindOfTwin(files [][3]string, name string) string {
	for _, f := range files {
		if f[0] == name+".header" || f[0] == name {
			return f[1]
		}
	}
	return ""
}
