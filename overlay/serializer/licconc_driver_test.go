//go:build verif

package serializer

// C14 (License half): concurrent NearestMatch / MultipleMatch on one licenseclassifier.License loaded from
// an archive (precomputed search sets); results compared with the sequential results through memo keys.

import (
	"bytes"
	"fmt"
	"math/rand"
	"os"
	"os/exec"
	"strings"
	"sync"
	"testing"

	"github.com/google/licenseclassifier"
)

func TestVerifLicConc(t *testing.T) {
	rec := &lcRec{vuOpenOut("VERIF_OUT")}
	defer rec.out.Close()
	rng := rand.New(rand.NewSource(vuSeed()))
	all := lcFiles()
	var files []string
	for _, i := range rng.Perm(len(all))[:14] {
		files = append(files, all[i])
	}
	for _, f := range []string{"WTFPL.txt", "CC-BY-NC-1.0.txt"} {
		has := false
		for _, g := range files {
			has = has || g == f
		}
		if !has {
			files = append(files, f)
		}
	}
	// one archive, loaded several times: the sequential reference runs on its own instance, and every concurrent round
	// on a freshly loaded one, so that whatever an instance builds on first use is built by racing calls
	var abuf bytes.Buffer
	if err := ArchiveLicenses(files, &abuf); err != nil {
		rec.out.Emit(map[string]interface{}{"ev": "loadfail", "err": err.Error()})
		return
	}
	load := func() *licenseclassifier.License {
		x, err := licenseclassifier.New(licenseclassifier.DefaultConfidenceThreshold, licenseclassifier.ArchiveBytes(abuf.Bytes()))
		if err != nil {
			panic(err)
		}
		return x
	}
	l := load()
	keys := rec.keys("lic", l)
	al := lcAliases(keys)
	callers := vuEnvInt("VERIF_CALLERS", 4)
	var qs []string
	for i := 0; i < callers; i++ {
		qs = append(qs, "Some preamble about the software license.\n"+lcRead(files[rng.Intn(len(files))])+"\ntrailing words about the terms")
	}
	// damaged copies: nothing is found verbatim, the precomputed search sets are searched
	for i := 0; i < callers; i++ {
		ws := strings.Fields(lcRead(files[rng.Intn(len(files))]))
		for k := 7; k < len(ws); k += 15 {
			ws[k] = "zzqx"
		}
		qs = append(qs, "Some preamble.\n"+strings.Join(ws, " ")+"\ntrailing words")
	}
	// texts for which there is no candidate at all (far shorter than every license, out of vocabulary): the calls that
	// return the "nothing found" result must be as independent of each other as the others
	qs = append(qs, "license", "this software is provided under the license", "zzqx vvkq", "permission is hereby granted")
	// texts that are classified as a forbidden license but lack its mandatory phrase (such matches are discarded): whatever
	// that decision needs is also first needed by racing calls
	for _, f := range []string{"WTFPL.txt", "CC-BY-NC-1.0.txt"} {
		ws := strings.Fields(lcRead(f))
		for k := 5; k < len(ws); k += 23 {
			ws[k] = "zzqx"
		}
		qs = append(qs, strings.Join(ws, " "), lcRead(f))
	}
	// the concurrent rounds come first -- the very first calls in this process race -- and the sequential run, on an
	// instance of its own, afterwards; a result that differs from any earlier one for the same query is rejected
	defer func() {
		lref := load()
		for i, q := range qs {
			rec.mm("lic", lref, al, q, true, fmt.Sprintf("mm|%d", i), fmt.Sprintf("q%d", i))
			rec.nm("lic", lref, q, "", false, fmt.Sprintf("nm|%d", i), fmt.Sprintf("q%d", i))
		}
	}()
	// cold processes: whatever the package builds on first use is built by the first calls of a PROCESS, so the racing first calls are
	// repeated in six fresh processes (this test binary again; race-instrumented when the check runs the driver under the detector)
	for rep := 0; rep < 6; rep++ {
		cmd := exec.Command(os.Args[0], "-test.run=^TestVerifLicCold$", "-test.count=1")
		cmd.Env = append(os.Environ(), "VERIF_LIC_COLD=1")
		b, _ := cmd.CombinedOutput()
		outp := string(b)
		if i := strings.Index(outp, "WARNING: DATA RACE"); i >= 0 {
			rec.out.Emit(map[string]interface{}{"ev": "coldrace", "why": "the race detector reports the first concurrent MultipleMatch calls of a process: " + outp[i:lcMin(len(outp), i+1800)]})
			break
		}
		if strings.Contains(outp, "LICCOLD:bad") {
			i := strings.Index(outp, "LICCOLD:bad")
			rec.out.Emit(map[string]interface{}{"ev": "coldrace", "why": "first concurrent calls of a process: " + outp[i:lcMin(len(outp), i+300)]})
			break
		}
	}
	// the very first calls of this process: many callers, the same short text, finishing at the same moment
	{
		l0 := load()
		qi := len(qs) - 3 // the WTFPL text as shipped: it IS reported, so whatever is consulted about a reported forbidden license is consulted (the damaged copy is too short to be found at all)
		var wg sync.WaitGroup
		var mu sync.Mutex
		for g := 0; g < 16; g++ {
			wg.Add(1)
			go func() {
				defer wg.Done()
				ms := l0.MultipleMatch(qs[qi], true)
				mu.Lock()
				defer mu.Unlock()
				rec.mmR("lic", l0, al, qs[qi], ms, fmt.Sprintf("mm|%d", qi), fmt.Sprintf("q%d", qi))
			}()
		}
		wg.Wait()
	}
	for round := 0; round < 4; round++ {
		l := load() // cold
		var wg sync.WaitGroup
		var mu sync.Mutex
		for i, q := range qs {
			wg.Add(1)
			go func(i int, q string) {
				defer wg.Done()
				ms := l.MultipleMatch(q, true)
				nm := l.NearestMatch(q)
				mu.Lock()
				defer mu.Unlock()
				rec.mmR("lic", l, al, q, ms, fmt.Sprintf("mm|%d", i), fmt.Sprintf("q%d", i))
				rec.nmR("lic", l, q, nm, fmt.Sprintf("nm|%d", i), fmt.Sprintf("q%d", i))
			}(i, q)
		}
		wg.Wait()
	}
}

// TestVerifLicCold: helper of TestVerifLicConc, run in a process of its own: the first MultipleMatch calls of the process are
// sixteen concurrent calls, released together, on texts of forbidden licenses as shipped (they are reported, so everything that
// is consulted about a reported license is consulted by racing first calls).
func TestVerifLicCold(t *testing.T) {
	if os.Getenv("VERIF_LIC_COLD") == "" {
		t.Skip("helper of TestVerifLicConc")
	}
	var abuf bytes.Buffer
	files := []string{"WTFPL.txt", "CC-BY-NC-1.0.txt", "MIT.txt"}
	if err := ArchiveLicenses(files, &abuf); err != nil {
		t.Fatal(err)
	}
	l, err := licenseclassifier.New(licenseclassifier.DefaultConfidenceThreshold, licenseclassifier.ArchiveBytes(abuf.Bytes()))
	if err != nil {
		t.Fatal(err)
	}
	texts := []string{lcRead("WTFPL.txt"), lcRead("CC-BY-NC-1.0.txt")}
	names := []string{"WTFPL", "CC-BY-NC-1.0"}
	start := make(chan struct{})
	var wg sync.WaitGroup
	res := make([]string, 16)
	for g := 0; g < 16; g++ {
		wg.Add(1)
		go func(g int) {
			defer wg.Done()
			<-start
			ms := l.MultipleMatch(texts[g%2], true)
			if len(ms) != 1 || ms[0].Name != names[g%2] || ms[0].Confidence != 1.0 {
				res[g] = fmt.Sprintf("LICCOLD:bad call %d on %s: %d matches %v", g, names[g%2], len(ms), ms)
			} else {
				res[g] = "LICCOLD:ok"
			}
		}(g)
	}
	close(start)
	wg.Wait()
	for _, r := range res {
		fmt.Println(r)
	}
}

func lcMin(a, b int) int {
	if a < b {
		return a
	}
	return b
}
