//go:build verif

package serializer

// C14 (License half): concurrent NearestMatch / MultipleMatch on one licenseclassifier.License loaded from
// an archive (precomputed search sets); results compared with the sequential results through memo keys.

import (
	"fmt"
	"math/rand"
	"sync"
	"testing"
)

func TestVerifLicConc(t *testing.T) {
	rec := &lcRec{vuOpenOut("VERIF_OUT")}
	defer rec.out.Close()
	rng := rand.New(rand.NewSource(vuSeed()))
	all := lcFiles()
	var files []string
	for _, i := range rng.Perm(len(all))[:14] {
		files = append(files, all[i])
	}
	l, err := lcArchive(files)
	if err != nil {
		rec.out.Emit(map[string]interface{}{"ev": "loadfail", "err": err.Error()})
		return
	}
	keys := rec.keys("lic", l)
	al := lcAliases(keys)
	callers := vuEnvInt("VERIF_CALLERS", 4)
	var qs []string
	for i := 0; i < callers; i++ {
		qs = append(qs, "Some preamble about the software license.\n"+lcRead(files[rng.Intn(len(files))])+"\ntrailing words about the terms")
	}
	// texts for which there is no candidate at all (far shorter than every license, out of vocabulary): the calls that
	// return the "nothing found" result must be as independent of each other as the others
	qs = append(qs, "license", "this software is provided under the license", "zzqx vvkq", "permission is hereby granted")
	for i, q := range qs { // sequential reference
		rec.mm("lic", l, al, q, true, fmt.Sprintf("mm|%d", i), fmt.Sprintf("q%d", i))
		rec.nm("lic", l, q, "", false, fmt.Sprintf("nm|%d", i), fmt.Sprintf("q%d", i))
	}
	for round := 0; round < 3; round++ {
		var wg sync.WaitGroup
		var mu sync.Mutex
		for i, q := range qs {
			wg.Add(1)
			go func(i int, q string) {
				defer wg.Done()
				ms := l.MultipleMatch(q, true)
				nm := l.NearestMatch(q)
				mu.Lock()
				defer mu.Unlock()
				rec.mmR("lic", l, al, q, ms, fmt.Sprintf("mm|%d", i), fmt.Sprintf("q%d", i))
				rec.nmR("lic", l, q, nm, fmt.Sprintf("nm|%d", i), fmt.Sprintf("q%d", i))
			}(i, q)
		}
		wg.Wait()
	}
}
