//go:build verif

package serializer

// C15 / C16 driver: archives subsets of the shipped license files with the real ArchiveLicenses, loads the
// archive with licenseclassifier.New(ArchiveBytes) and compares it with a classifier built directly from the
// same files (C15); runs NearestMatch / MultipleMatch on corpus texts and presentation variants (C16).

import (
	"bytes"
	"crypto/sha256"
	"encoding/hex"
	"fmt"
	"math"
	"math/rand"
	"os"
	"path/filepath"
	"sort"
	"strings"
	"sync"
	"testing"
	"time"

	"github.com/google/licenseclassifier"
	"github.com/google/licenseclassifier/stringclassifier"
)

func lcFiles() []string {
	ents, err := licenseclassifier.ReadLicenseDir()
	if err != nil {
		panic(err)
	}
	var out []string
	for _, e := range ents {
		if strings.HasSuffix(e.Name(), ".txt") {
			out = append(out, e.Name())
		}
	}
	sort.Strings(out)
	return out
}

func lcBits(f float64) string { return fmt.Sprintf("%016x", math.Float64bits(f)) }
func lcHash(s string) string  { h := sha256.Sum256([]byte(s)); return hex.EncodeToString(h[:8]) }

func lcRanks(vals []float64) map[float64]int {
	s := append([]float64(nil), vals...)
	sort.Float64s(s)
	r := map[float64]int{}
	n := 0
	for i, v := range s {
		if i == 0 || v != s[i-1] {
			n++
		}
		r[v] = n
	}
	return r
}

type lcRec struct{ out *vuWriter }

func (r *lcRec) keys(cid string, l *licenseclassifier.License) []string {
	keys, _, _ := licenseclassifier.VerifInner(l).VerifKeys()
	r.out.Emit(map[string]interface{}{"ev": "new", "c": cid})
	for _, k := range keys {
		r.out.Emit(map[string]interface{}{"ev": "add", "c": cid, "key": k, "ok": true, "panic": ""})
	}
	return keys
}

func lcAliases(keys []string) []string {
	var a []string
	for _, k := range keys {
		a = append(a, strings.TrimSuffix(k, ".header"))
	}
	return a
}

func (r *lcRec) mm(cid string, l *licenseclassifier.License, aliases []string, q string, headers bool, memo string, label string) {
	var ms stringclassifier.Matches
	pan := ""
	t0 := time.Now()
	func() {
		defer func() {
			if p := recover(); p != nil {
				pan = fmt.Sprint(p)
			}
		}()
		ms = l.MultipleMatch(q, headers)
	}()
	r.mmE(cid, l, aliases, q, ms, memo, label, pan, t0)
}

func (r *lcRec) mmR(cid string, l *licenseclassifier.License, aliases []string, q string, ms stringclassifier.Matches, memo, label string) {
	r.mmE(cid, l, aliases, q, ms, memo, label, "", time.Now())
}

func (r *lcRec) mmE(cid string, l *licenseclassifier.License, aliases []string, q string, ms stringclassifier.Matches, memo, label, pan string, t0 time.Time) {
	vals := []float64{0, 1, l.Threshold}
	for _, m := range ms {
		vals = append(vals, m.Confidence)
	}
	rk := lcRanks(vals)
	out := []map[string]interface{}{}
	for _, m := range ms {
		out = append(out, map[string]interface{}{"name": m.Name, "r": rk[m.Confidence], "cb": lcBits(m.Confidence), "off": m.Offset, "ext": m.Extent})
	}
	// Offsets refer to the text the string classifier searched: License.MultipleMatch normalises the
	// contents and the classifier normalises its argument again
	norm := lcNorm(lcNorm(q))
	r.out.Emit(map[string]interface{}{"ev": "mm", "c": cid, "q": label, "ulen": len(norm), "ulen1": len(lcNorm(q)), "ms": out, "zero": rk[0], "one": rk[1], "floor": rk[l.Threshold],
		"plants": []int{}, "aliases": aliases, "panic": pan, "memo": memo, "ms_took": time.Since(t0).Milliseconds()})
}

func (r *lcRec) nm(cid string, l *licenseclassifier.License, q string, want string, equalNorm bool, memo string, label string) {
	var m *stringclassifier.Match
	pan := ""
	func() {
		defer func() {
			if p := recover(); p != nil {
				pan = fmt.Sprint(p)
			}
		}()
		m = l.NearestMatch(q)
	}()
	r.nmE(cid, l, q, m, want, equalNorm, memo, label, pan)
}

func (r *lcRec) nmR(cid string, l *licenseclassifier.License, q string, m *stringclassifier.Match, memo, label string) {
	r.nmE(cid, l, q, m, "", false, memo, label, "")
}

func (r *lcRec) nmE(cid string, l *licenseclassifier.License, q string, m *stringclassifier.Match, want string, equalNorm bool, memo, label, pan string) {
	found := m != nil && m.Name != ""
	conf := 0.0
	if m != nil {
		conf = m.Confidence
	}
	rk := lcRanks([]float64{0, 1, l.Threshold, conf})
	if m == nil {
		m = &stringclassifier.Match{}
	}
	eq := []string{}
	if equalNorm && want != "" {
		eq = []string{want}
	}
	norm := lcNorm(q)
	r.out.Emit(map[string]interface{}{"ev": "nm", "c": cid, "q": label, "ulen": len(norm), "panic": pan, "memo": memo, "want": want, "floor": rk[l.Threshold],
		"eq": eq, "found": found, "zero": rk[0], "one": rk[1],
		"m": map[string]interface{}{"name": m.Name, "r": rk[conf], "cb": lcBits(conf), "off": m.Offset, "ext": m.Extent}})
}

func lcNorm(s string) string {
	for _, n := range licenseclassifier.Normalizers {
		s = n(s)
	}
	return s
}

func lcRead(name string) string {
	b, err := licenseclassifier.ReadLicenseFile(name)
	if err != nil {
		panic(err)
	}
	return string(b)
}

func lcArchive(files []string) (*licenseclassifier.License, error) {
	var buf bytes.Buffer
	if err := ArchiveLicenses(files, &buf); err != nil {
		return nil, fmt.Errorf("ArchiveLicenses: %v", err)
	}
	return licenseclassifier.New(licenseclassifier.DefaultConfidenceThreshold, licenseclassifier.ArchiveBytes(buf.Bytes()))
}

func lcDirect(files []string) *licenseclassifier.License {
	sc := stringclassifier.New(licenseclassifier.DefaultConfidenceThreshold, licenseclassifier.Normalizers...)
	for _, f := range files {
		if !strings.HasSuffix(f, ".txt") {
			continue
		}
		if err := sc.AddValue(strings.TrimSuffix(filepath.Base(f), ".txt"), licenseclassifier.TrimExtraneousTrailingText(lcRead(f))); err != nil {
			panic(err)
		}
	}
	return licenseclassifier.VerifWrap(sc, licenseclassifier.DefaultConfidenceThreshold)
}

// presentation variants of C16
func lcVariants(rng *rand.Rand, text string) map[string]string {
	lines := strings.Split(text, "\n")
	dec := make([]string, len(lines))
	prefix := []string{"// ", "# ", " * ", "; ", "-- "}[rng.Intn(5)]
	for i, l := range lines {
		dec[i] = prefix + l
	}
	words := strings.Fields(text)
	var reflow strings.Builder
	col := 0
	width := 40 + rng.Intn(60)
	for _, w := range words {
		if col+len(w) > width {
			reflow.WriteString("\n")
			col = 0
		} else if col > 0 {
			reflow.WriteString("  ")
			col += 2
		}
		reflow.WriteString(w)
		col += len(w)
	}
	return map[string]string{"upper": strings.ToUpper(text), "lower": strings.ToLower(text), "reflow": reflow.String(), "decorated": strings.Join(dec, "\n"),
		"oneline": strings.Join(words, " ")}
}

// TestVerifC15: archive round trip on seeded subsets / orderings, incl. non-.txt names and synthetic files.
func TestVerifC15(t *testing.T) {
	rec := &lcRec{vuOpenOut("VERIF_OUT")}
	defer rec.out.Close()
	rng := rand.New(rand.NewSource(vuSeed()))
	all := lcFiles()
	rounds := vuEnvInt("VERIF_ROUNDS", 3)
	size := vuEnvInt("VERIF_SUBSET", 25)
	nq := vuEnvInt("VERIF_QUERIES", 20)
	orig := licenseclassifier.ReadLicenseFile
	synth := map[string]string{
		"Synthetic-Short.txt":       "Permission to frobnicate this software is hereby granted under the license terms below.\nEND OF TERMS AND CONDITIONS\ntrailing text that is cut",
		"Synthetic-Only-Notice.txt": "Copyright 2020 Example Corp\nAll rights reserved.\n",
		"Synthetic.header.txt":      "This work is licensed under the synthetic license version 1 see the terms for your rights",
		// a name with extensions inside it, and a file that says what another one says (in other case and wrapping)
		"Synthetic.txt.dist.hash-2.txt": "Redistribution of the frobnicator in source and binary forms is permitted provided that this notice is retained in full",
		// a file given with a path: the archive knows it by its file name
		"vendor/licenses/Synthetic-Path.txt": "Use of the path finder in any form is allowed as long as the path that was found is credited to its finder",
		"Synthetic-Twin.txt":                 "REDISTRIBUTION OF THE FROBNICATOR\n   in source and binary forms\n   IS PERMITTED PROVIDED THAT THIS NOTICE IS RETAINED IN FULL",
		// file names are names: a combining accent, a character outside the basic plane, a name of exactly 100 bytes (its .hash entry has 101)
		"Synthe\u0301tique-Ünï.txt":              "La permission de bricoler ce logiciel est accordee a quiconque en detient une copie sans garantie aucune",
		"Synthetic-\U0001d49c-Astral.txt":        "Permission to calligraph with this typeface is granted to every scribe who keeps this colophon intact",
		strings.Repeat("N", 96) + ".txt":         "A license with a long name grants what a license with a short name grants and not one thing more",
		strings.Repeat("M", 150) + ".header.txt": "This file is distributed under the license with the very long name see the accompanying file",
	}
	faultName := "" // the read of this file fails (once)
	licenseclassifier.ReadLicenseFile = func(name string) ([]byte, error) {
		if name != "" && name == faultName {
			faultName = ""
			return nil, fmt.Errorf("verif: transient I/O error reading %s", name)
		}
		if s, ok := synth[name]; ok {
			return []byte(s), nil
		}
		return orig(name)
	}
	defer func() { licenseclassifier.ReadLicenseFile = orig }()
	var pendingSets []func()
	defer func() {
		for _, f := range pendingSets {
			f()
		}
	}()
	// a license far larger than any shipped one (its archived search set is several MiB)
	bigText := func() string {
		r := rand.New(rand.NewSource(99))
		var sb strings.Builder
		for i := 0; i < 42000; i++ {
			fmt.Fprintf(&sb, "bigw%d", r.Intn(6000))
			if i%13 == 12 {
				sb.WriteByte('\n')
			} else {
				sb.WriteByte(' ')
			}
		}
		return sb.String()
	}()
	shortBase, headerBase := synth["Synthetic-Short.txt"], synth["Synthetic.header.txt"]
	for round := 0; round < rounds; round++ {
		// the same file names hold other texts in every round: an archive is a function of the files as they are now
		synth["Synthetic-Short.txt"] = strings.Repeat(fmt.Sprintf("Clause %d of this edition applies to derived works as well.\n", round), round) + shortBase
		synth["Synthetic.header.txt"] = headerBase + strings.Repeat(fmt.Sprintf(" as amended in edition %d", round), round)
		if round == 0 {
			synth["Synthetic-Big.txt"] = bigText
		} else {
			delete(synth, "Synthetic-Big.txt")
		}
		perm := rng.Perm(len(all))
		if size > len(all) {
			size = len(all)
		}
		var files []string
		for _, i := range perm[:size] {
			files = append(files, all[i])
		}
		if size < len(all) { // the one shipped license with text behind its END OF TERMS marker is always part of the archive
			has := false
			for _, f := range files {
				has = has || f == "Apache-2.0.txt"
			}
			if !has {
				files = append(files, "Apache-2.0.txt")
			}
		}
		for k := range synth {
			files = append(files, k)
		}
		files = append(files, "README.md", "notes.text") // skipped by ArchiveLicenses: not *.txt
		rng.Shuffle(len(files), func(i, j int) { files[i], files[j] = files[j], files[i] })
		rec.out.Emit(map[string]interface{}{"ev": "reset", "keepmemo": false})
		// the caller's list is handed over as it is, twice: the second archive of the same list is the one that is loaded
		pristine := append([]string(nil), files...)
		if _, err := lcArchive(files); err != nil {
			rec.out.Emit(map[string]interface{}{"ev": "loadfail", "round": round, "files": pristine, "err": err.Error()})
			continue
		}
		loaded, err := lcArchive(files)
		if err != nil {
			rec.out.Emit(map[string]interface{}{"ev": "loadfail", "round": round, "files": pristine, "err": "second archive of the same list: " + err.Error()})
			continue
		}
		files = pristine
		// archives loaded at the same time (several classifiers built by concurrent requests): each holds what a load alone gives
		if round == 0 {
			var abuf bytes.Buffer
			if err := ArchiveLicenses(append([]string(nil), files...), &abuf); err == nil {
				const nload = 6
				ls := make([]*licenseclassifier.License, nload)
				errs := make([]error, nload)
				var lwg sync.WaitGroup
				for i := 0; i < nload; i++ {
					lwg.Add(1)
					go func(i int) {
						defer lwg.Done()
						ls[i], errs[i] = licenseclassifier.New(licenseclassifier.DefaultConfidenceThreshold, licenseclassifier.ArchiveBytes(abuf.Bytes()))
					}(i)
				}
				lwg.Wait()
				for i := 0; i < nload; i++ {
					what := ""
					if errs[i] != nil {
						what = "one of several concurrent loads of the same archive failed: " + errs[i].Error()
					} else {
						ka, _, _ := licenseclassifier.VerifInner(ls[i]).VerifKeys()
						kb, _, _ := licenseclassifier.VerifInner(loaded).VerifKeys()
						if vuJS(ka) != vuJS(kb) {
							what = fmt.Sprintf("one of several concurrent loads holds %d licenses, a load alone %d", len(ka), len(kb))
						}
						for _, k := range kb {
							if what == "" && (licenseclassifier.VerifInner(ls[i]).VerifValue(k) != licenseclassifier.VerifInner(loaded).VerifValue(k) ||
								licenseclassifier.VerifInner(ls[i]).VerifSetTokens(k) != licenseclassifier.VerifInner(loaded).VerifSetTokens(k)) {
								what = "one of several concurrent loads holds another text or search set for " + k + " than a load alone"
							}
						}
					}
					if what != "" {
						rec.out.Emit(map[string]interface{}{"ev": "keys", "round": round, "loaded": []string{}, "direct": []string{}, "want": []string{}, "values_equal": false, "ok": false, "what": what})
						break
					}
				}
			}
		}
		// a read that fails: either ArchiveLicenses says so, or the archive it reports as written holds every listed license
		for k := 0; k < 2; k++ {
			victim := files[rng.Intn(len(files))]
			for !strings.HasSuffix(victim, ".txt") {
				victim = files[rng.Intn(len(files))]
			}
			faultName = victim
			var buf bytes.Buffer
			err := ArchiveLicenses(append([]string(nil), files...), &buf)
			faultName = ""
			if err != nil {
				continue
			}
			ok, what := false, "ArchiveLicenses reported success although reading "+victim+" failed; the archive does not load"
			if l2, e2 := licenseclassifier.New(licenseclassifier.DefaultConfidenceThreshold, licenseclassifier.ArchiveBytes(buf.Bytes())); e2 == nil {
				what = "ArchiveLicenses reported success although reading " + victim + " failed; the archive lacks that license"
				keys, _, _ := licenseclassifier.VerifInner(l2).VerifKeys()
				for _, key := range keys {
					ok = ok || key == strings.TrimSuffix(filepath.Base(victim), ".txt")
				}
			}
			if !ok {
				rec.out.Emit(map[string]interface{}{"ev": "keys", "round": round, "loaded": []string{}, "direct": []string{}, "want": []string{victim}, "values_equal": false, "ok": false, "what": what})
			}
		}
		direct := lcDirect(files)
		lk := rec.keys(fmt.Sprintf("loaded%d", round), loaded)
		dk := rec.keys(fmt.Sprintf("direct%d", round), direct)
		var want []string
		for _, f := range files {
			if strings.HasSuffix(f, ".txt") {
				want = append(want, strings.TrimSuffix(filepath.Base(f), ".txt"))
			}
		}
		sort.Strings(want)
		valuesEqual := true
		for _, k := range want {
			if licenseclassifier.VerifInner(loaded).VerifValue(k) != licenseclassifier.VerifInner(direct).VerifValue(k) {
				valuesEqual = false
			}
		}
		rec.out.Emit(map[string]interface{}{"ev": "keys", "round": round, "loaded": lk, "direct": dk, "want": want, "values_equal": valuesEqual,
			"ok": vuJS(lk) == vuJS(want) && vuJS(dk) == vuJS(want) && valuesEqual})
		al := lcAliases(want)
		// queries: corpus texts (inside and outside the subset), edited texts, concatenations, noise
		var queries []string
		for k := 0; k < nq; k++ {
			f := all[rng.Intn(len(all))]
			if k%2 == 0 {
				f = files[rng.Intn(len(files))]
				if !strings.HasSuffix(f, ".txt") || f == "Synthetic-Big.txt" {
					f = all[rng.Intn(len(all))]
				}
			}
			txt := lcRead(f)
			switch k % 4 {
			case 0:
				queries = append(queries, txt)
			case 1: // drop / replace words
				ws := strings.Fields(txt)
				for i := range ws {
					if rng.Intn(25) == 0 {
						ws[i] = "zzqx"
					}
				}
				queries = append(queries, strings.Join(ws, " "))
			case 2: // leading 85-95 %
				queries = append(queries, txt[:len(txt)*(85+rng.Intn(10))/100])
			default:
				queries = append(queries, "Some preamble about the software and its terms.\n"+txt+"\nand a trailing remark about the license version")
			}
		}
		queries = append(queries, "no license words here at all", "the software license terms of this work grant rights to the original code version")
		// a query that is most of the Apache-2.0 terms: its acceptance depends on the size of the archived search set
		if ap := lcRead("Apache-2.0.txt"); len(ap) > 0 {
			queries = append(queries, ap[:len(ap)*87/100])
		}
		defer func(round int, loaded, direct *licenseclassifier.License, want []string) {}(round, loaded, direct, want)
		for qi, q := range queries {
			label := fmt.Sprintf("r%dq%d:%s", round, qi, lcHash(q))
			memo := fmt.Sprintf("r%d|%s", round, lcHash(q))
			rec.nm(fmt.Sprintf("loaded%d", round), loaded, q, "", false, memo+"|nm", label)
			rec.nm(fmt.Sprintf("direct%d", round), direct, q, "", false, memo+"|nm", label)
			for _, h := range []bool{false, true} {
				rec.mm(fmt.Sprintf("loaded%d", round), loaded, al, q, h, fmt.Sprintf("%s|mm%v", memo, h), label)
				rec.mm(fmt.Sprintf("direct%d", round), direct, al, q, h, fmt.Sprintf("%s|mm%v", memo, h), label)
			}
		}
		// the synthetic texts of this round, slightly edited (inexact: only the search set finds them)
		for _, k := range []string{"Synthetic-Short.txt", "Synthetic.header.txt"} {
			ws := strings.Fields(synth[k])
			ws[len(ws)/2] = "zzqx"
			q := "Some preamble about the software.\n" + strings.Join(ws, " ") + "\nand a trailing remark"
			memo := fmt.Sprintf("r%d|%s", round, lcHash(q))
			for _, h := range []bool{false, true} {
				rec.mm(fmt.Sprintf("loaded%d", round), loaded, al, q, h, fmt.Sprintf("%s|mm%v", memo, h), "synth:"+k)
				rec.mm(fmt.Sprintf("direct%d", round), direct, al, q, h, fmt.Sprintf("%s|mm%v", memo, h), "synth:"+k)
			}
		}
		if _, ok := synth["Synthetic-Big.txt"]; ok {
			q := "Some preamble about the software.\n" + bigText + "\nand a trailing remark"
			memo := fmt.Sprintf("r%d|%s", round, lcHash(q))
			rec.mm(fmt.Sprintf("loaded%d", round), loaded, al, q, false, memo+"|mmfalse", "synth:big")
			rec.mm(fmt.Sprintf("direct%d", round), direct, al, q, false, memo+"|mmfalse", "synth:big")
		}
		// after the queries every lazily built search set of the direct classifier exists: the archived sets must be the same size
		setsOK := true
		var setDiff []string
		for _, k := range want {
			a, b := licenseclassifier.VerifInner(loaded).VerifSetTokens(k), licenseclassifier.VerifInner(direct).VerifSetTokens(k)
			if b >= 0 && a != b {
				setsOK = false
				setDiff = append(setDiff, fmt.Sprintf("%s: archived %d tokens, direct %d", k, a, b))
			}
		}
		rec.out.Emit(map[string]interface{}{"ev": "keys", "round": round, "loaded": lk, "direct": dk, "want": want, "values_equal": true, "ok": setsOK, "what": "search set sizes", "diff": setDiff})
	}
}

// TestVerifC16: every shipped license (a seeded sample in the quick tier) and its presentation variants.
func TestVerifC16(t *testing.T) {
	rec := &lcRec{vuOpenOut("VERIF_OUT")}
	defer rec.out.Close()
	rng := rand.New(rand.NewSource(vuSeed()))
	all := lcFiles()
	l, err := lcArchive(all)
	if err != nil {
		rec.out.Emit(map[string]interface{}{"ev": "loadfail", "err": err.Error()})
		return
	}
	keys := rec.keys("lic", l)
	al := lcAliases(keys)
	n := vuEnvInt("VERIF_FILES", 25)
	idx := rng.Perm(len(all))
	if n < len(idx) {
		idx = idx[:n]
		for i, f := range all { // files that begin with a copyright notice are always in the sample
			if f == "0BSD.txt" || f == "Apache-2.0.header.txt" || f == "zlib-acknowledgement.txt" {
				idx = append(idx, i)
			}
		}
		// ... and so is every file whose text is not the registered value (text behind an END OF TERMS marker is
		// trimmed on registration): these are identified by edit distance, not by equality
		for i, f := range all {
			if lcNorm(lcRead(f)) != licenseclassifier.VerifInner(l).VerifValue(strings.TrimSuffix(f, ".txt")) {
				dup := false
				for _, j := range idx {
					dup = dup || j == i
				}
				if !dup {
					idx = append(idx, i)
				}
			}
		}
	}
	sort.Ints(idx)
	variants := strings.Split(os.Getenv("VERIF_VARIANTS"), ",")
	for _, i := range idx {
		f := all[i]
		txt := lcRead(f)
		canonical := strings.TrimSuffix(strings.TrimSuffix(f, ".txt"), ".header")
		// confidence 1.0 is owed only when the normalised query IS the registered value (Apache-2.0.txt carries an
		// appendix behind its END OF TERMS marker that the archive trims)
		same := lcNorm(txt) == licenseclassifier.VerifInner(l).VerifValue(strings.TrimSuffix(f, ".txt"))
		rec.nm("lic", l, txt, canonical, same, "", f+"/original")
		vs := lcVariants(rng, txt)
		for _, vn := range variants {
			if v, ok := vs[vn]; ok {
				rec.nm("lic", l, v, canonical, false, "", f+"/"+vn)
			}
		}
		// MultipleMatch: nothing below the threshold -- on the text, on a noisy text, on a concatenation
		rec.mm("lic", l, al, txt, true, "", f+"/mm")
		ws := strings.Fields(txt)
		for k := range ws {
			if rng.Intn(8) == 0 {
				ws[k] = "zzqx"
			}
		}
		rec.mm("lic", l, al, strings.Join(ws, " "), true, "", f+"/mm-noisy")
	}
	// the threshold is an exported field and may be changed after New: nothing below the CURRENT threshold
	thr0 := l.Threshold
	for _, thr := range []float64{0.95, 0.99, 1.0, 0.6} {
		l.Threshold = thr
		for _, f := range []string{"MIT.txt", "BSD-3-Clause.txt", "Apache-2.0.txt", "GPL-2.0.txt"} {
			ws := strings.Fields(lcRead(f))
			for _, every := range []int{12, 40, 150} {
				w2 := append([]string(nil), ws...)
				for k := every / 2; k < len(w2); k += every {
					w2[k] = "zzqx"
				}
				rec.mm("lic", l, al, strings.Join(w2, " "), true, "", fmt.Sprintf("%s/thr%v/every%d", f, thr, every))
			}
		}
	}
	l.Threshold = thr0
	// the exported list of normalisers is the program's: editing it after a classifier was built (here: strings.ToLower is
	// removed with the append(s[:i], s[i+1:]...) idiom, which shifts the elements of the array in place, to prepare a
	// case-preserving chain for another classifier) leaves the classifier built before as it was
	{
		saved := append([]stringclassifier.NormalizeFunc(nil), licenseclassifier.Normalizers...)
		arr := licenseclassifier.Normalizers
		licenseclassifier.Normalizers = append(arr[:5], arr[6:]...)
		type res struct {
			f string
			m *stringclassifier.Match
		}
		var got []res
		for _, f := range []string{"MIT.txt", "ISC.txt", "BSD-2-Clause.txt"} {
			got = append(got, res{f, l.NearestMatch(lcRead(f))}, res{f, l.NearestMatch(strings.ToUpper(lcRead(f)))})
		}
		copy(arr, saved)
		licenseclassifier.Normalizers = arr[:len(saved)]
		for i, g := range got {
			rec.nmE("lic", l, lcRead(g.f), g.m, strings.TrimSuffix(g.f, ".txt"), false, "", fmt.Sprintf("%s/after-editing-Normalizers/%d", g.f, i), "")
		}
	}
	// classifiers built with a stricter threshold: what NearestMatch answers does not depend on it (the one shipped text that is
	// not its registered value -- Apache-2.0 carries an appendix behind END OF TERMS -- is identified at 0.89 by every classifier)
	for _, thr := range []float64{0.9, 0.95, 1.0} {
		var abuf bytes.Buffer
		if err := ArchiveLicenses([]string{"Apache-2.0.txt", "MIT.txt", "OSL-2.1.txt", "BSD-3-Clause.txt", "GPL-2.0.txt"}, &abuf); err != nil {
			rec.out.Emit(map[string]interface{}{"ev": "loadfail", "err": err.Error()})
			break
		}
		ls, err := licenseclassifier.New(thr, licenseclassifier.ArchiveBytes(abuf.Bytes()))
		if err != nil {
			rec.out.Emit(map[string]interface{}{"ev": "loadfail", "err": err.Error()})
			break
		}
		cid := fmt.Sprintf("strict%v", thr)
		rec.keys(cid, ls)
		for _, q := range []string{lcRead("Apache-2.0.txt"), strings.ToUpper(lcRead("Apache-2.0.txt")), lcRead("MIT.txt")} {
			m := ls.NearestMatch(q)
			ls.Threshold = licenseclassifier.DefaultConfidenceThreshold // the statement's bar is the default threshold
			name := "MIT"
			if strings.Contains(q, "END OF TERMS") {
				name = "Apache-2.0"
			}
			rec.nmE(cid, ls, q, m, name, false, "", fmt.Sprintf("%s/built-with-%v", name, thr), "")
			ls.Threshold = thr
		}
	}
	// NearestMatch from several goroutines on one License: every call answers what it answers alone (decorated texts: the
	// inexact path, where candidates are collected, sorted and diffed)
	{
		var qs, names []string
		for _, f := range []string{"Beerware.txt", "AFL-1.1.header.txt", "ISC.txt", "AFL-1.2.header.txt"} { // tiny texts: many calls, whose candidate scans overlap
			txt := lcRead(f)
			qs = append(qs, "dnl "+strings.Replace(strings.TrimRight(txt, "\n"), "\n", "\ndnl ", -1)+"\n")
			names = append(names, strings.TrimSuffix(strings.TrimSuffix(f, ".txt"), ".header"))
		}
		alone := make([]*stringclassifier.Match, len(qs))
		for i, q := range qs {
			alone[i] = l.NearestMatch(q)
			rec.nmE("lic", l, q, alone[i], names[i], false, fmt.Sprintf("c16conc|%d", i), names[i]+"/dnl-alone", "")
		}
		const G, K = 8, 48
		got := make([][]*stringclassifier.Match, G)
		var wg sync.WaitGroup
		for g := 0; g < G; g++ {
			wg.Add(1)
			go func(g int) {
				defer wg.Done()
				for k := 0; k < K; k++ {
					got[g] = append(got[g], l.NearestMatch(qs[(g+k)%len(qs)]))
				}
			}(g)
		}
		wg.Wait()
		for g := 0; g < G; g++ {
			for k := 0; k < K; k++ {
				i := (g + k) % len(qs)
				// same memo key as the call alone: TraceV1 compares confidence, offset and extent (and the name against the canonical one)
				rec.nmE("lic", l, qs[i], got[g][k], names[i], false, fmt.Sprintf("c16conc|%d", i), fmt.Sprintf("%s/dnl-concurrent-%d", names[i], g), "")
			}
		}
	}
	// confidences around the threshold: a run of foreign characters spliced into the middle of a license, one
	// character longer each time, walks the confidence down through the threshold in steps of about 1/len
	for _, f := range []string{"MIT.txt", "ISC.txt", "BSD-3-Clause.txt"} {
		txt := lcNorm(lcRead(f))
		mid := len(txt) / 2
		for L := len(txt) * 22 / 100; L <= len(txt)*28/100; L++ { // confidence = 1 - L/(len+L) crosses 0.8 at L = len/4
			rec.mm("lic", l, al, txt[:mid]+" "+strings.Repeat("q", L)+" "+txt[mid:], true, "", fmt.Sprintf("%s/splice%d", f, L))
		}
	}
}
