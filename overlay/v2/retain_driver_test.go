//go:build verif

package classifier

// S2 (overlap filter) driver: every candidate set enumerated by specs/V2Retain.tla is injected into the real match()
// through the VerifCandidates hook; Match must return exactly the candidates the transcribed loop keeps, in order.

import (
	"encoding/json"
	"fmt"
	"os"
	"testing"
)

func TestVerifRetainReplay(t *testing.T) {
	out := vuOpenOut("VERIF_OUT")
	defer out.Close()
	c := NewClassifier(0.5)
	input := []byte("alpha beta gamma delta\nepsilon zeta eta theta\niota kappa lambda mu\nnu xi omicron pi\n")
	c.AddContent("License", "Seed", "v.txt", input) // some document must survive the first pass, or match() returns before the filter
	n, nontrivial, bad := 0, 0, 0
	var samples []json.RawMessage
	defer func() { VerifCandidates = nil }()
	mk := func(tp []int) *Match {
		return &Match{Name: fmt.Sprintf("N%d", tp[5]), MatchType: "License", Variant: "v.txt", Confidence: float64(tp[0]) / 4,
			StartLine: tp[1], EndLine: tp[2], StartTokenIndex: tp[3], EndTokenIndex: tp[4]}
	}
	show := func(ms Matches) string {
		s := ""
		for _, m := range ms {
			s += fmt.Sprintf("[%s %.2f L%d-%d T%d-%d]", m.Name, m.Confidence, m.StartLine, m.EndLine, m.StartTokenIndex, m.EndTokenIndex)
		}
		return s
	}
	vuVectors(os.Getenv("VERIF_IN"), func(raw []byte) bool {
		var v struct {
			Cands [][]int `json:"cands"`
			Kept  [][]int `json:"kept"`
		}
		if json.Unmarshal(raw, &v) != nil || v.Cands == nil {
			return true
		}
		n++
		if len(v.Kept) < len(v.Cands) {
			nontrivial++
			if len(samples) < 2 && nontrivial%9000 == 7 {
				samples = append(samples, append([]byte(nil), raw...))
			}
		}
		// injected in reverse of the sorted order: the sort is part of what is replayed
		var inj Matches
		for i := len(v.Cands) - 1; i >= 0; i-- {
			inj = append(inj, mk(v.Cands[i]))
		}
		VerifCandidates = func(Matches) Matches { return inj }
		why := ""
		func() {
			defer func() {
				if p := recover(); p != nil {
					why = fmt.Sprintf("panic: %v", p)
				}
			}()
			got := c.Match(input).Matches
			var want Matches
			for _, tp := range v.Kept {
				want = append(want, mk(tp))
			}
			if show(got) != show(want) {
				why = fmt.Sprintf("Match returns %s, the transcribed filter keeps %s", show(got), show(want))
			}
		}()
		if why != "" {
			bad++
			if bad <= 5 {
				out.Emit(map[string]interface{}{"kind": "mismatch", "why": why, "spec": json.RawMessage(raw)})
			}
		}
		return true
	})
	out.Emit(map[string]interface{}{"kind": "summary", "vectors": n, "nontrivial": nontrivial, "mismatches": bad, "samples": samples})
}
