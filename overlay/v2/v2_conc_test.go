//go:build verif

package classifier

// C09 driver: N goroutines Match / MatchFrom on ONE classifier. Sequential results first (memo), then the
// same inputs concurrently; results go to TraceV2 (memo equality = every call returns what it returns
// alone). The diffcall hook records which memory docDiff hands to go-diff: `shared` is true when the second
// argument aliases the corpus document's own rune array.

import (
	"bytes"
	"errors"
	"fmt"
	"os"
	"os/exec"
	"strings"
	"sync"
	"testing"
	"unsafe"
)

func TestVerifV2Conc(t *testing.T) {
	vt := newV2T()
	defer vt.out.Close()
	docs := append([]v2Doc(nil), v2Corpus()...)
	// documents shorter than the minimum run length, without any word, with nothing but a notice: whatever Match does
	// about them it must not do to shared state
	docs = append(docs,
		v2Doc{Key: "License/Tiny-PD/license.txt", Cat: "License", Name: "Tiny-PD", Variant: "license.txt", Data: []byte("public domain\n")},
		v2Doc{Key: "License/Tiny-Three/license.txt", Cat: "License", Name: "Tiny-Three", Variant: "license.txt", Data: []byte("all rights reserved\n")},
		v2Doc{Key: "License/Empty/license.txt", Cat: "License", Name: "Empty", Variant: "license.txt", Data: []byte("")},
		v2Doc{Key: "License/OnlyNotice/license.txt", Cat: "License", Name: "OnlyNotice", Variant: "license.txt", Data: []byte("Copyright 2020 Nobody\n")})
	c := vt.build("c09", 0.8, docs)
	pick := func(key string) []byte {
		for _, d := range docs {
			if d.Key == key {
				return d.Data
			}
		}
		panic(key)
	}
	// inputs that several goroutines score against the SAME documents, with lengths for which go-diff takes
	// its half-match path (a long text against a shorter, near-identical document)
	base := [][]byte{pick("License/BSD-3-Clause/pristine.txt"), pick("License/Apache-2.0/pristine.txt"), pick("License/MIT/pristine.txt"),
		pick("License/BSD-2-Clause/license.txt"), pick("License/GPL-2.0/license.txt")}
	var inputs [][]byte
	for _, b := range base {
		inputs = append(inputs, b, vt.editWords(c, b, 0.03), append(append(vt.oovBlock(c, 2), b...), vt.oovBlock(c, 2)...),
			append(append([]byte("This work is in the public domain.\nquuxification frobnicated snarkly wibbling blorptastic\n"), b...), []byte("\nAll rights reserved.\n")...)) // the tiny documents are candidates of many concurrent calls
	}
	inputs = append(inputs, []byte("This work is in the public domain.\nAll rights reserved by nobody.\n"))
	// words that are in the dictionary but in no corpus document (Normalize registers what it reads): concurrent calls
	// meet them for the first time together
	novel := "quuxification frobnicated snarkly wibbling blorptastic "
	inputs = append(inputs, append([]byte(novel+"\n"), base[2]...), append(append([]byte(nil), base[3]...), []byte("\n"+novel+novel+"\n")...))
	n := vuEnvInt("VERIF_GOROUTINES", 8)
	rounds := vuEnvInt("VERIF_ROUNDS", 3)
	// sequential reference on a SEPARATE instance: the shared classifier meets its first calls concurrently
	// (anything built lazily on first use would be built by racing goroutines)
	refc := vt.build("c09ref", 0.8, docs)
	refc.c.Normalize([]byte(novel + " and some more unheardofwordage"))
	for i, in := range inputs {
		vt.match(refc, in, v2MatchOpts{memo: fmt.Sprintf("c09|%d", i)})
	}
	// a second shared classifier with tracing configured (wildcard license patterns, a phase that never fires)
	ct := vt.build("c09trace", 0.8, docs)
	ct.c.SetTraceConfiguration(&TraceConfiguration{TraceLicenses: "License/A*,Header/*,License/BSD*", TracePhases: "nonesuch", Tracer: func(string, ...interface{}) {}})
	// a third one whose tracing was switched off explicitly: SetTraceConfiguration(nil) is supported (every method of
	// *TraceConfiguration accepts a nil receiver), and a call must not repair the nil behind the caller's back
	cn := vt.build("c09nil", 0.8, docs)
	cn.c.SetTraceConfiguration(nil)
	// which arrays are corpus storage
	corpus := map[uintptr]string{}
	for k, d := range c.c.docs {
		if len(d.runes) > 0 {
			corpus[uintptr(unsafe.Pointer(&d.runes[0]))] = k
		}
	}
	var mu sync.Mutex
	shared, private := 0, 0
	VerifSink = func(ev string, kv ...interface{}) {
		if ev != "diffcall" {
			return
		}
		var doc string
		var c2 []rune
		for i := 0; i+1 < len(kv); i += 2 {
			switch kv[i] {
			case "doc":
				doc = kv[i+1].(string)
			case "chars2":
				c2 = kv[i+1].([]rune)
			}
		}
		if len(c2) == 0 {
			return
		}
		_, isCorpus := corpus[uintptr(unsafe.Pointer(&c2[0]))]
		mu.Lock()
		if isCorpus {
			shared++
		} else {
			private++
		}
		mu.Unlock()
		_ = doc
	}
	for _, cc := range []*v2C{c, ct, cn} {
		cc.c.Normalize([]byte(novel + " and some more unheardofwordage"))
	}
	var emu sync.Mutex
	for r := 0; r < rounds; r++ {
		var wg sync.WaitGroup
		for g := 0; g < n; g++ {
			wg.Add(1)
			go func(g int) {
				defer wg.Done()
				for k := 0; k < len(inputs); k++ {
					i := (g + k) % len(inputs)
					api := "Match"
					if (g+k)%3 == 0 {
						api = "MatchFrom"
					}
					cc := []*v2C{c, ct, cn}[(g+r)%3]
					// every fourth call is preceded by a stream that fails (after 0, 1, 700 or 3000 bytes): an abandoned
					// call must leave nothing behind that a concurrent or later call could pick up
					if (g+k+r)%4 == 0 {
						boom := errors.New("verif: reader fault")
						at := []int{0, 1, 700, 3000}[(g+k)%4]
						if at >= len(inputs[i]) {
							at = len(inputs[i]) - 1
						}
						rd := &v2ChunkReader{data: inputs[i], chunks: []int{512, 7, 1024}, failAt: at, failErr: boom}
						res, err := cc.c.MatchFrom(rd)
						if err != boom || len(res.Matches) != 0 {
							emu.Lock()
							vt.emit(map[string]interface{}{"ev": "fault", "why": fmt.Sprintf("MatchFrom on a failing reader returned %d matches, err %v", len(res.Matches), err)})
							emu.Unlock()
						}
					}
					res := vt.matchQuiet(cc, inputs[i], api)
					emu.Lock()
					vt.emitMatch(cc, inputs[i], res, fmt.Sprintf("c09|%d", i), api)
					emu.Unlock()
				}
			}(g)
		}
		wg.Wait()
	}
	VerifSink = nil
	v2AloneVsConcurrent(vt)
	v2ColdDictionaryWords(vt)
	v2AdjacentInputs(vt)
	v2ColdStart(vt)
	if why := v2Spoiled.Load(); why != nil {
		vt.emit(map[string]interface{}{"ev": "argfault", "why": why})
	}
	vt.emit(map[string]interface{}{"ev": "diffcalls", "shared": shared, "private": private})
	if os.Getenv("VERIF_DEBUG") != "" {
		fmt.Fprintf(os.Stderr, "diffcalls shared=%d private=%d\n", shared, private)
	}
}

// ---------------------------------------------------------------------------------------------
// "what it returns when run alone": each of a few inputs is matched in a process of its own (this test binary, run again),
// then all of them concurrently in this process; the texts use the same list markers at the start of a line in one input
// and in the middle of a line in another, the same words capitalised and not -- whatever a call may remember.
func v2AloneCorpus() (*Classifier, [][]byte) {
	c := NewClassifier(0.8)
	clauses := "Terms of use\na. You may copy the software and its documentation.\nb. You may modify the software for your own use.\nc. You may not remove this notice from any copy.\nii. Nothing in these terms grants trademark rights.\n"
	c.AddContent("License", "Lettered", "license.txt", []byte(clauses))
	for _, d := range v2Corpus() {
		if d.Key == "License/MIT/pristine.txt" || d.Key == "License/ISC/license.txt" {
			c.AddContent(d.Cat, d.Name, d.Variant, d.Data)
		}
	}
	ins := [][]byte{
		[]byte("zzqxv qqzzk\n" + clauses + "xqzvv\n"),
		[]byte("As described in section a. above and clause b. below, subject to c. and ii. of the terms of use you may copy the software and its documentation.\n"),
		[]byte(strings.ToUpper(clauses)),
		[]byte("see A. and B. and C. of the TERMS OF USE; you may copy the software\n" + clauses),
	}
	return c, ins
}

func v2AloneShow(r Results) string {
	s := fmt.Sprintf("total=%d", r.TotalInputLines)
	for _, m := range r.Matches {
		s += fmt.Sprintf(" [%s/%s %016x %d-%d %d-%d]", m.MatchType, m.Name, mathFloat64bits(m.Confidence), m.StartLine, m.EndLine, m.StartTokenIndex, m.EndTokenIndex)
	}
	return s
}

func TestVerifV2Alone(t *testing.T) {
	i := vuEnvInt("VERIF_ALONE", -1)
	if i < 0 {
		t.Skip("helper of TestVerifV2Conc")
	}
	c, ins := v2AloneCorpus()
	fmt.Printf("ALONE:%s\n", v2AloneShow(c.Match(ins[i])))
}

func v2AloneVsConcurrent(vt *v2T) {
	_, ins := v2AloneCorpus()
	alone := make([]string, len(ins))
	for i := range ins {
		cmd := exec.Command(os.Args[0], "-test.run=^TestVerifV2Alone$", "-test.count=1")
		cmd.Env = append(os.Environ(), fmt.Sprintf("VERIF_ALONE=%d", i), "VERIF_OUT=")
		b, err := cmd.CombinedOutput()
		for _, ln := range strings.Split(string(b), "\n") {
			if strings.HasPrefix(ln, "ALONE:") {
				alone[i] = strings.TrimPrefix(ln, "ALONE:")
			}
		}
		if alone[i] == "" {
			vt.emit(map[string]interface{}{"ev": "skip", "why": fmt.Sprintf("run-alone helper gave no result: %v %s", err, string(b))})
			return
		}
	}
	c, _ := v2AloneCorpus()
	var mu sync.Mutex
	for round := 0; round < 3; round++ {
		var wg sync.WaitGroup
		for g := 0; g < 8; g++ {
			wg.Add(1)
			go func(g int) {
				defer wg.Done()
				for k := range ins {
					i := (g + k) % len(ins)
					if got := v2AloneShow(c.Match(ins[i])); got != alone[i] {
						mu.Lock()
						vt.emit(map[string]interface{}{"ev": "fault", "why": fmt.Sprintf("input %d: among concurrent calls %s, in a process of its own %s", i, got, alone[i])})
						mu.Unlock()
					}
				}
			}(g)
		}
		wg.Wait()
	}
}

// words that Normalize has registered in the dictionary but that no corpus document contains, met for the first time by
// several calls at once -- on a fresh classifier each time, so that whatever is built on first sight is built by racing calls
func v2ColdDictionaryWords(vt *v2T) {
	_, ins := v2AloneCorpus()
	novel := "quuxification frobnicated snarkly wibbling blorptastic zorblefied crumhorned"
	in := append([]byte(novel+"\n"), ins[0]...)
	ref, _ := v2AloneCorpus()
	ref.Normalize([]byte(novel))
	want := v2AloneShow(ref.Match(in))
	var mu sync.Mutex
	for round := 0; round < 6; round++ {
		c, _ := v2AloneCorpus()
		c.Normalize([]byte(novel + " and more unheardofwordage"))
		var wg sync.WaitGroup
		for g := 0; g < 8; g++ {
			wg.Add(1)
			go func() {
				defer wg.Done()
				if got := v2AloneShow(c.Match(in)); got != want {
					mu.Lock()
					vt.emit(map[string]interface{}{"ev": "fault", "why": fmt.Sprintf("novel dictionary words, concurrent first sight: %s, sequentially %s", got, want)})
					mu.Unlock()
				}
			}()
		}
		wg.Wait()
	}
}

// ---------------------------------------------------------------------------------------------
// Inputs that are adjacent sub-slices of ONE buffer (an arena, a memory-mapped archive): the capacity of the first reaches
// over the second.  Matched from two goroutines, each must give what its bytes give alone, and the buffer must read afterwards
// as it did before.
func v2AdjacentInputs(vt *v2T) {
	var docs []v2Doc
	for _, d := range v2Corpus() {
		if d.Key == "License/MIT/pristine.txt" || d.Key == "License/ISC/license.txt" || d.Key == "License/BSD-2-Clause/license.txt" || d.Key == "License/Zlib/license.txt" {
			docs = append(docs, d)
		}
	}
	c := vt.build("c09adj", 0.8, docs)
	var parts [][]byte
	for _, d := range docs {
		parts = append(parts, []byte(strings.TrimRight(string(d.Data), " \t\r\n"))) // no white space at the end: the next input follows at once
	}
	var arena []byte
	var cut []int
	for _, p := range parts {
		cut = append(cut, len(arena))
		arena = append(arena, p...)
	}
	cut = append(cut, len(arena))
	arena = append(make([]byte, 0, len(arena)+64), arena...)
	orig := append([]byte(nil), arena...)
	for i, p := range parts {
		vt.match(c, p, v2MatchOpts{memo: fmt.Sprintf("c09adj|%d", i)})
	}
	var emu sync.Mutex
	for round := 0; round < 4; round++ {
		var wg sync.WaitGroup
		for i := range parts {
			wg.Add(1)
			go func(i int) {
				defer wg.Done()
				in := arena[cut[i]:cut[i+1]] // len = the part, cap = everything behind it
				var res Results
				if (i+round)%2 == 0 {
					res = c.c.Match(in)
				} else {
					res, _ = c.c.MatchFrom(bytes.NewReader(in))
				}
				emu.Lock()
				vt.emitMatch(c, parts[i], res, fmt.Sprintf("c09adj|%d", i), "Match")
				emu.Unlock()
			}(i)
		}
		wg.Wait()
		if !bytes.Equal(arena, orig) {
			i := 0
			for arena[i] == orig[i] {
				i++
			}
			vt.emit(map[string]interface{}{"ev": "argfault", "why": fmt.Sprintf("after matching adjacent sub-slices of one buffer, byte %d of the buffer reads %q, was %q (parts start at %v)", i, arena[i], orig[i], cut)})
			copy(arena, orig)
		}
	}
	vt.reset(false)
}

// ---------------------------------------------------------------------------------------------
// Cold start: the very first lines tokenized in a PROCESS come from concurrent calls on a shared classifier with an empty
// corpus (nothing was added, so nothing warmed up whatever the package builds on first use).  The helper test runs in a process
// of its own (this test binary again -- a -race build when the check runs the driver under the race detector) and prints what
// each call returned; every call must report the notices of its input, and the race detector nothing.
func v2ColdInputs() [][]byte {
	return [][]byte{
		[]byte("Copyright 2019 A B\nsome words here\n2019-jan-05\nCopyright (c) 2020 C\n"),
		[]byte("2020-01-02\nother words there\nCopyright 2018 D\n2017-dec-31\n"),
		[]byte("// Copyright 2021 E\nplain text\nCopyright (c) [dates of first publication] F\n"),
	}
}

func TestVerifV2Cold(t *testing.T) {
	if os.Getenv("VERIF_COLD") == "" {
		t.Skip("helper of TestVerifV2Conc")
	}
	c := NewClassifier(0.8)
	ins := v2ColdInputs()
	const n = 12
	got := make([]string, n)
	var wg sync.WaitGroup
	start := make(chan struct{})
	for g := 0; g < n; g++ {
		wg.Add(1)
		go func(g int) {
			defer wg.Done()
			<-start
			got[g] = v2AloneShow(c.Match(ins[g%len(ins)]))
		}(g)
	}
	close(start)
	wg.Wait()
	for g := 0; g < n; g++ {
		fmt.Printf("COLD:%d:%s\n", g%len(ins), got[g])
	}
}

func v2ColdStart(vt *v2T) {
	ins := v2ColdInputs()
	ref := NewClassifier(0.8)
	var want []string
	for _, in := range ins {
		want = append(want, v2AloneShow(ref.Match(in)))
	}
	for rep := 0; rep < 4; rep++ {
		cmd := exec.Command(os.Args[0], "-test.run=^TestVerifV2Cold$", "-test.count=1")
		cmd.Env = append(os.Environ(), "VERIF_COLD=1", "VERIF_OUT=")
		b, err := cmd.CombinedOutput()
		outp := string(b)
		if strings.Contains(outp, "WARNING: DATA RACE") {
			i := strings.Index(outp, "WARNING: DATA RACE")
			vt.emit(map[string]interface{}{"ev": "fault", "why": "cold start: the race detector reports concurrent first calls on an empty classifier: " + outp[i:vuMin(len(outp), i+1500)]})
			return
		}
		seen := 0
		for _, ln := range strings.Split(outp, "\n") {
			if strings.HasPrefix(ln, "COLD:") {
				parts := strings.SplitN(ln, ":", 3)
				k := int(parts[1][0] - '0')
				seen++
				if parts[2] != want[k] {
					vt.emit(map[string]interface{}{"ev": "fault", "why": fmt.Sprintf("cold start: one of 12 concurrent first calls returned %s for input %d, alone it returns %s", parts[2], k, want[k])})
					return
				}
			}
		}
		if seen == 0 {
			vt.emit(map[string]interface{}{"ev": "skip", "why": fmt.Sprintf("cold-start helper gave no result: %v %s", err, outp[:vuMin(len(outp), 300)])})
			return
		}
	}
}
