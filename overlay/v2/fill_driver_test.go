//go:build verif

package classifier

// S1 (refill loop) driver: every reader script printed by specs/V2Fill.tla (V2FillGen.cfg) through the real fill().

import (
	"encoding/json"
	"errors"
	"fmt"
	"io"
	"os"
	"testing"
)

type vfRead struct {
	k int
	e string
}

type vfReader struct {
	script []vfRead
	reads  int
	next   byte
	own    error
}

func (r *vfReader) Read(p []byte) (int, error) {
	a := vfRead{0, "EOF"}
	if r.reads < len(r.script) {
		a = r.script[r.reads]
	}
	r.reads++
	n := a.k
	if n > len(p) {
		n = len(p)
	}
	for i := 0; i < n; i++ {
		r.next++
		p[i] = r.next
	}
	switch a.e {
	case "EOF":
		return n, io.EOF
	case "ERR":
		return n, r.own
	case "UEOF":
		return n, io.ErrUnexpectedEOF
	}
	return n, nil
}

func vfRun(script []vfRead, L int) (n int, eof bool, errs string, reads int, inOrder bool) {
	r := &vfReader{script: script, own: errors.New("verif: the reader's own error")}
	buf := make([]byte, L)
	n, eof, err := fill(r, buf)
	switch {
	case err == nil:
		errs = "nil"
	case err == r.own:
		errs = "ERR"
	case err == io.ErrUnexpectedEOF:
		errs = "UEOF"
	default:
		errs = "other: " + err.Error()
	}
	inOrder = n >= 0 && n <= L
	for i := 0; inOrder && i < n; i++ {
		inOrder = buf[i] == byte(i+1)
	}
	return n, eof, errs, r.reads, inOrder
}

func TestVerifFillReplay(t *testing.T) {
	out := vuOpenOut("VERIF_OUT")
	defer out.Close()
	nv, bad := 0, 0
	fail := func(why string) {
		bad++
		if bad <= 6 {
			out.Emit(map[string]interface{}{"kind": "mismatch", "why": why})
		}
	}
	vuVectors(os.Getenv("VERIF_IN"), func(raw []byte) bool {
		var v struct {
			Script [][]json.RawMessage `json:"script"`
			Len    int                 `json:"len"`
			N      int                 `json:"n"`
			EOF    bool                `json:"eof"`
			Err    string              `json:"err"`
			Reads  *int                `json:"reads"`
		}
		if json.Unmarshal(raw, &v) != nil || v.Reads == nil {
			return true
		}
		var sc []vfRead
		for _, e := range v.Script {
			var a vfRead
			json.Unmarshal(e[0], &a.k)
			json.Unmarshal(e[1], &a.e)
			sc = append(sc, a)
		}
		nv++
		n, eof, errs, reads, ok := vfRun(sc, v.Len)
		if n != v.N || eof != v.EOF || errs != v.Err || reads != *v.Reads || !ok {
			fail(fmt.Sprintf("reader %v, buffer of %d: fill = (%d, %v, %s) after %d reads, bytes in order %v; spec (%d, %v, %s) after %d reads", sc, v.Len, n, eof, errs, reads, ok, v.N, v.EOF, v.Err, *v.Reads))
		}
		return true
	})
	// beyond the model's bounds, same rule: long runs of empty reads between the bytes (a non-blocking source) are neither an
	// end nor a failure, however many there are while one buffer is filled
	for _, empties := range []int{1, 99, 100, 101, 250, 1000} {
		for _, L := range []int{1, 16, 1024} {
			var sc []vfRead
			for i := 0; i < L; i++ {
				for k := 0; k < empties/((i%3)+1); k++ {
					sc = append(sc, vfRead{0, "nil"})
				}
				sc = append(sc, vfRead{1, "nil"})
			}
			nv++
			if n, eof, errs, _, ok := vfRun(sc, L); n != L || eof || errs != "nil" || !ok {
				fail(fmt.Sprintf("%d empty reads before every byte, buffer of %d: fill = (%d, %v, %s), bytes in order %v; the rule gives (%d, false, nil)", empties, L, n, eof, errs, ok, L))
			}
		}
	}
	out.Emit(map[string]interface{}{"kind": "summary", "vectors": nv, "mismatches": bad})
}
