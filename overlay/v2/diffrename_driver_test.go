//go:build verif

package classifier

// C04 / C02, the diff stage: a diff is a function of which tokens are equal, not of the numbers that stand for them.
// Every pair (corpus document, edited copy) goes through the real docDiff twice -- with the ids the dictionary gave the
// words, and with ids renamed by a bijection that gives the most frequent word of the pair the id 10 (and 13, 32, ...: the
// numbers that mean something to a text diff) -- and the two edit scripts must have the same shape.

import (
	"fmt"
	"math/rand"
	"sort"
	"strings"
	"testing"

	"github.com/sergi/go-diff/diffmatchpatch"
)

func drShape(ds []diffmatchpatch.Diff) string {
	s := ""
	for _, d := range ds {
		s += fmt.Sprintf("%d:%d ", d.Type, len(strings.Fields(d.Text))) // words: the hydrated text of renamed ids is other words
	}
	return s
}

func TestVerifDiffRenaming(t *testing.T) {
	out := vuOpenOut("VERIF_OUT")
	defer out.Close()
	rng := rand.New(rand.NewSource(vuSeed()))
	c := NewClassifier(0.8)
	docs := v2Corpus()
	for _, d := range docs {
		c.AddContent(d.Cat, d.Name, d.Variant, d.Data)
	}
	n, bad := 0, 0
	keys := make([]string, 0, len(c.docs))
	for k := range c.docs {
		keys = append(keys, k)
	}
	sort.Strings(keys)
	rng.Shuffle(len(keys), func(i, j int) { keys[i], keys[j] = keys[j], keys[i] })
	limit := vuEnvInt("VERIF_PAIRS", 60)
	for _, k := range keys {
		d := c.docs[k]
		if len(d.Tokens) < 150 || len(d.Tokens) > 4000 || n >= limit*3 {
			continue
		}
		for _, rate := range []float64{0.02, 0.06, 0.12} {
			// the "input": the document with scattered substitutions, deletions and insertions
			in := &indexedDocument{dict: c.dict}
			for _, tk := range d.Tokens {
				switch x := rng.Float64(); {
				case x < rate/3:
				case x < 2*rate/3:
					in.Tokens = append(in.Tokens, indexedToken{ID: d.Tokens[rng.Intn(len(d.Tokens))].ID, Line: tk.Line})
				case x < rate:
					in.Tokens = append(in.Tokens, tk, indexedToken{ID: unknownIndex, Line: tk.Line})
				default:
					in.Tokens = append(in.Tokens, tk)
				}
			}
			in.runes = diffWordsToRunes(in, 0, in.size())
			// renaming: the most frequent id of the pair <-> 10, the next ones <-> 13, 32, 9
			freq := map[tokenID]int{}
			for _, tk := range d.Tokens {
				freq[tk.ID]++
			}
			ids := make([]tokenID, 0, len(freq))
			for id := range freq {
				ids = append(ids, id)
			}
			sort.Slice(ids, func(i, j int) bool {
				return freq[ids[i]] > freq[ids[j]] || (freq[ids[i]] == freq[ids[j]] && ids[i] < ids[j])
			})
			type swap struct{ a, b rune }
			var swaps []swap
			for i, special := range []rune{10, 13, 32, 9} {
				if i < len(ids) {
					swaps = append(swaps, swap{idToRune(ids[i]), special})
				}
			}
			apply := func(rs []rune) []rune { // a composition of transpositions: a bijection on runes
				o := make([]rune, len(rs))
				for i, r := range rs {
					for _, sw := range swaps {
						if r == sw.a {
							r = sw.b
						} else if r == sw.b {
							r = sw.a
						}
					}
					o[i] = r
				}
				return o
			}
			in2 := &indexedDocument{dict: c.dict, Tokens: in.Tokens, runes: apply(in.runes)}
			d2 := &indexedDocument{dict: c.dict, Tokens: d.Tokens, runes: apply(d.runes)}
			n++
			a := drShape(docDiff(k, in, 0, in.size(), d, 0, d.size()))
			b := drShape(docDiff(k, in2, 0, in2.size(), d2, 0, d2.size()))
			if a != b {
				bad++
				if bad <= 3 {
					out.Emit(map[string]interface{}{"kind": "mismatch", "doc": k, "rate": rate,
						"why": fmt.Sprintf("the edit script changes shape when token ids are renamed (most frequent word <-> id 10): %d vs %d ops", len(a), len(b))})
				}
			}
		}
	}
	out.Emit(map[string]interface{}{"kind": "summary", "vectors": n, "mismatches": bad})
}
