//go:build verif

package classifier

// Tokenizer-level driver (S1): replays every input enumerated by specs/V2TokGen.tla into the real
// tokenizeStream (both modes) and Normalize and compares words, lines, notices and the rendering.

import (
	"bytes"
	"encoding/json"
	"fmt"
	"os"
	"strings"
	"testing"
)

// symbolic rune names of the spec -> bytes fed to the code / text expected back
var vtIn = map[string]string{
	"EACUTE": "é", "EACUTEU": "É", "ENDASH": "–", "EMDASH": "—", "FIGDASH": "‒", "HYPHEN": "‐",
	"COPY": "©", "SECT": "§", "CURR": "¤", "MIDDOT": "·", "NBSP": "\u00a0", "RQUOTE": "’", "A4": "𝒜", "BAD": "\xff",
}
var vtOut = map[string]string{"BAD": "�"}

func vtBytes(syms []string) []byte {
	var sb strings.Builder
	for _, s := range syms {
		if v, ok := vtIn[s]; ok {
			sb.WriteString(v)
		} else {
			sb.WriteString(s)
		}
	}
	return []byte(sb.String())
}

func vtText(syms []string) string {
	var sb strings.Builder
	for _, s := range syms {
		if v, ok := vtOut[s]; ok {
			sb.WriteString(v)
		} else if v, ok := vtIn[s]; ok {
			sb.WriteString(v)
		} else {
			sb.WriteString(s)
		}
	}
	return sb.String()
}

type vtVec struct {
	I  []string   `json:"i"`
	W  [][]string `json:"w"`
	L  []int      `json:"l"`
	N  []int      `json:"n"`
	FW [][]string `json:"fw"`
	FL []int      `json:"fl"`
	R  []string   `json:"r"`
}

// vtTokenize runs the real tokenizer on a fresh dictionary and projects words/lines/notice lines.
func vtTokenize(src []byte, normalize bool) (words []string, lines []int, notes []int, err error) {
	defer func() {
		if r := recover(); r != nil {
			err = fmt.Errorf("panic: %v", r)
		}
	}()
	d := newDictionary()
	doc, e := tokenizeStream(bytes.NewReader(src), normalize, d, true)
	if e != nil {
		return nil, nil, nil, e
	}
	for _, t := range doc.Tokens {
		words = append(words, d.getWord(t.ID))
		lines = append(lines, t.Line)
	}
	for _, m := range doc.Matches {
		if m.Name != "Copyright" || m.MatchType != "Copyright" || m.Confidence != 1.0 || m.StartLine != m.EndLine {
			return nil, nil, nil, fmt.Errorf("malformed notice match %+v", *m)
		}
		notes = append(notes, m.StartLine)
	}
	return
}

func vtDiff(src []byte, v *vtVec) string {
	w, l, n, err := vtTokenize(src, true)
	if err != nil {
		return "tokenize(normalize): " + err.Error()
	}
	var ew []string
	for _, x := range v.W {
		ew = append(ew, vtText(x))
	}
	if vuJS(w) != vuJS(ew) && !(len(w) == 0 && len(ew) == 0) {
		return fmt.Sprintf("words %q, spec %q", w, ew)
	}
	if vuJS(l) != vuJS(v.L) && !(len(l) == 0 && len(v.L) == 0) {
		return fmt.Sprintf("lines %v, spec %v (words %q)", l, v.L, w)
	}
	if vuJS(n) != vuJS(v.N) && !(len(n) == 0 && len(v.N) == 0) {
		return fmt.Sprintf("notice lines %v, spec %v", n, v.N)
	}
	fw, fl, _, err := vtTokenize(src, false)
	if err != nil {
		return "tokenize(raw): " + err.Error()
	}
	var efw []string
	for _, x := range v.FW {
		efw = append(efw, vtText(x))
	}
	if vuJS(fw) != vuJS(efw) && !(len(fw) == 0 && len(efw) == 0) {
		return fmt.Sprintf("raw-mode words %q, spec %q", fw, efw)
	}
	if vuJS(fl) != vuJS(v.FL) && !(len(fl) == 0 && len(v.FL) == 0) {
		return fmt.Sprintf("raw-mode lines %v, spec %v", fl, v.FL)
	}
	var norm []byte
	func() {
		defer func() {
			if r := recover(); r != nil {
				err = fmt.Errorf("Normalize panic: %v", r)
			}
		}()
		norm = NewClassifier(0.8).Normalize(src)
	}()
	if err != nil {
		return err.Error()
	}
	if string(norm) != vtText(v.R) {
		return fmt.Sprintf("Normalize %q, spec %q", norm, vtText(v.R))
	}
	return ""
}

func TestVerifTokReplay(t *testing.T) {
	out := vuOpenOut("VERIF_OUT")
	defer out.Close()
	const W = 12
	type acc struct {
		n, nontrivial, bad int
		samples            []json.RawMessage
	}
	accs := make([]*acc, W)
	for i := range accs {
		accs[i] = &acc{}
	}
	vuParallel(os.Getenv("VERIF_IN"), W, func(w int, line []byte) {
		a := accs[w]
		raw := vuDecode(line)
		if raw == nil {
			return
		}
		var v vtVec
		if json.Unmarshal(raw, &v) != nil {
			return
		}
		a.n++
		if len(v.W) >= 2 || len(v.N) > 0 {
			a.nontrivial++
			if len(a.samples) < 1 && a.nontrivial%300 == 5 {
				a.samples = append(a.samples, append([]byte(nil), raw...))
			}
		}
		src := vtBytes(v.I)
		if why := vtDiff(src, &v); why != "" {
			a.bad++
			if a.bad <= 4 {
				out.Emit(map[string]interface{}{"kind": "mismatch", "src": string(src), "why": why, "spec": json.RawMessage(raw)})
			}
		}
	})
	tot := &acc{}
	for _, a := range accs {
		tot.n += a.n
		tot.nontrivial += a.nontrivial
		tot.bad += a.bad
		tot.samples = append(tot.samples, a.samples...)
	}
	out.Emit(map[string]interface{}{"kind": "summary", "vectors": tot.n, "nontrivial": tot.nontrivial, "mismatches": tot.bad, "samples": tot.samples})
}
