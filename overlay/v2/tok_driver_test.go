//go:build verif

package classifier

// Tokenizer-level driver (S1): replays every input enumerated by specs/V2TokGen.tla into the real
// tokenizeStream (both modes) and Normalize and compares words, lines, notices and the rendering.

import (
	"bytes"
	"encoding/json"
	"fmt"
	"os"
	"strings"
	"testing"
)

// symbolic rune names of the spec -> bytes fed to the code / text expected back
var vtIn = map[string]string{
	"EACUTE": "é", "EACUTEU": "É", "ENDASH": "–", "EMDASH": "—", "FIGDASH": "‒", "HYPHEN": "‐",
	"NBHYPHEN": "\u2011", "HBAR": "\u2015", "MINUS": "\u2212", "COPY": "©", "SECT": "§", "CURR": "¤", "MIDDOT": "·", "NBSP": "\u00a0", "RQUOTE": "’", "A4": "𝒜", "BAD": "\xff",
}
var vtOut = map[string]string{"BAD": "�"}

func vtBytes(syms []string) []byte {
	var sb strings.Builder
	for _, s := range syms {
		if v, ok := vtIn[s]; ok {
			sb.WriteString(v)
		} else {
			sb.WriteString(s)
		}
	}
	return []byte(sb.String())
}

func vtText(syms []string) string {
	var sb strings.Builder
	for _, s := range syms {
		if v, ok := vtOut[s]; ok {
			sb.WriteString(v)
		} else if v, ok := vtIn[s]; ok {
			sb.WriteString(v)
		} else {
			sb.WriteString(s)
		}
	}
	return sb.String()
}

type vtVec struct {
	I  []string   `json:"i"`
	W  [][]string `json:"w"`
	L  []int      `json:"l"`
	N  []int      `json:"n"`
	FW [][]string `json:"fw"`
	FL []int      `json:"fl"`
	R  []string   `json:"r"`
}

// vtTokenize runs the real tokenizer on a fresh dictionary and projects words/lines/notice lines.
func vtTokenize(src []byte, normalize bool) (words []string, lines []int, notes []int, err error) {
	defer func() {
		if r := recover(); r != nil {
			err = fmt.Errorf("panic: %v", r)
		}
	}()
	d := newDictionary()
	doc, e := tokenizeStream(bytes.NewReader(src), normalize, d, true)
	if e != nil {
		return nil, nil, nil, e
	}
	for _, t := range doc.Tokens {
		words = append(words, d.getWord(t.ID))
		lines = append(lines, int(t.Line))
	}
	for _, m := range doc.Matches {
		if m.Name != "Copyright" || m.MatchType != "Copyright" || m.Confidence != 1.0 || m.StartLine != m.EndLine {
			return nil, nil, nil, fmt.Errorf("malformed notice match %+v", *m)
		}
		notes = append(notes, m.StartLine)
	}
	return
}

func vtDiff(src []byte, v *vtVec) string {
	w, l, n, err := vtTokenize(src, true)
	if err != nil {
		return "tokenize(normalize): " + err.Error()
	}
	var ew []string
	for _, x := range v.W {
		ew = append(ew, vtText(x))
	}
	if vuJS(w) != vuJS(ew) && !(len(w) == 0 && len(ew) == 0) {
		return fmt.Sprintf("words %q, spec %q", w, ew)
	}
	if vuJS(l) != vuJS(v.L) && !(len(l) == 0 && len(v.L) == 0) {
		return fmt.Sprintf("lines %v, spec %v (words %q)", l, v.L, w)
	}
	if vuJS(n) != vuJS(v.N) && !(len(n) == 0 && len(v.N) == 0) {
		return fmt.Sprintf("notice lines %v, spec %v", n, v.N)
	}
	fw, fl, _, err := vtTokenize(src, false)
	if err != nil {
		return "tokenize(raw): " + err.Error()
	}
	var efw []string
	for _, x := range v.FW {
		efw = append(efw, vtText(x))
	}
	if vuJS(fw) != vuJS(efw) && !(len(fw) == 0 && len(efw) == 0) {
		return fmt.Sprintf("raw-mode words %q, spec %q", fw, efw)
	}
	if vuJS(fl) != vuJS(v.FL) && !(len(fl) == 0 && len(v.FL) == 0) {
		return fmt.Sprintf("raw-mode lines %v, spec %v", fl, v.FL)
	}
	var norm []byte
	func() {
		defer func() {
			if r := recover(); r != nil {
				err = fmt.Errorf("Normalize panic: %v", r)
			}
		}()
		norm = NewClassifier(0.8).Normalize(src)
	}()
	if err != nil {
		return err.Error()
	}
	if string(norm) != vtText(v.R) {
		return fmt.Sprintf("Normalize %q, spec %q", norm, vtText(v.R))
	}
	return ""
}

func TestVerifTokReplay(t *testing.T) {
	out := vuOpenOut("VERIF_OUT")
	defer out.Close()
	const W = 12
	type acc struct {
		n, nontrivial, bad int
		samples            []json.RawMessage
	}
	accs := make([]*acc, W)
	for i := range accs {
		accs[i] = &acc{}
	}
	vuParallel(os.Getenv("VERIF_IN"), W, func(w int, line []byte) {
		a := accs[w]
		raw := vuDecode(line)
		if raw == nil {
			return
		}
		var v vtVec
		if json.Unmarshal(raw, &v) != nil {
			return
		}
		a.n++
		if len(v.W) >= 2 || len(v.N) > 0 {
			a.nontrivial++
			if len(a.samples) < 1 && a.nontrivial%300 == 5 {
				a.samples = append(a.samples, append([]byte(nil), raw...))
			}
		}
		src := vtBytes(v.I)
		if why := vtDiff(src, &v); why != "" {
			a.bad++
			if a.bad <= 4 {
				out.Emit(map[string]interface{}{"kind": "mismatch", "src": string(src), "why": why, "spec": json.RawMessage(raw)})
			}
		}
	})
	tot := &acc{}
	for _, a := range accs {
		tot.n += a.n
		tot.nontrivial += a.nontrivial
		tot.bad += a.bad
		tot.samples = append(tot.samples, a.samples...)
	}
	out.Emit(map[string]interface{}{"kind": "summary", "vectors": tot.n, "nontrivial": tot.nontrivial, "mismatches": tot.bad, "samples": tot.samples})
}

// TestVerifPadTokens: the tokenisation of a text is the tokenisation of its lines (none ends in a hyphen), wherever the
// read buffer's boundaries fall: the text -- multi-byte letters, dashes inside digit words, non-ASCII blanks, an invalid
// byte, a notice line -- is slid over every alignment by leading blanks and read in both modes.
func TestVerifPadTokens(t *testing.T) {
	out := vuOpenOut("VERIF_OUT")
	defer out.Close()
	base := []string{
		"Boston, MA 02110–1301 États‐Unis d’Amérique übergrößenträger",
		"naïve café société 𝒜𝒜 résumé — coöperate (§ 5) © 2020 Liège",
		"Copyright © 2019 Société Générale",
		"1. préface \xff fiancée 3.1. Überschrift · point",
	}
	var all []string
	for k := 0; k < 9; k++ {
		all = append(all, base...)
	}
	text := strings.Join(all, "\n") + "\n"
	n, bad := 0, 0
	for _, norm := range []bool{true, false} {
		var ww []string
		var wl, wn []int
		for li, ln := range all {
			w, l, nt, err := vtTokenize([]byte(ln), norm)
			if err != nil {
				t.Fatal(err)
			}
			for i := range w {
				if w[i] == "\n" {
					continue
				}
				ww = append(ww, w[i])
				wl = append(wl, l[i]+li)
			}
			for range nt {
				wn = append(wn, li+1)
			}
		}
		for pad := 0; pad <= 1100; pad++ {
			n++
			w, l, nt, err := vtTokenize([]byte(strings.Repeat(" ", pad)+text), norm)
			why := ""
			if err != nil {
				why = err.Error()
			} else {
				var gw []string
				var gl []int
				for i := range w {
					if w[i] != "\n" {
						gw = append(gw, w[i])
						gl = append(gl, l[i])
					}
				}
				if vuJS(gw) != vuJS(ww) {
					for i := 0; i < len(gw) && i < len(ww); i++ {
						if gw[i] != ww[i] {
							why = fmt.Sprintf("word %d is %q, line by line %q", i, gw[i], ww[i])
							break
						}
					}
					if why == "" {
						why = fmt.Sprintf("%d words, line by line %d", len(gw), len(ww))
					}
				} else if vuJS(gl) != vuJS(wl) {
					why = "same words on other lines"
				} else if vuJS(nt) != vuJS(wn) {
					why = fmt.Sprintf("notice lines %v, line by line %v", nt, wn)
				}
			}
			if why != "" {
				bad++
				if bad <= 5 {
					out.Emit(map[string]interface{}{"kind": "mismatch", "pad": pad, "normalize": norm, "why": why})
				}
			}
		}
	}
	// words broken over lines (hyphen + line break, also over blank lines, with CRLF, before a notice, at the end of input): the
	// tokenizer's state for the pending word lives across refills of its read buffer, so every alignment must give the
	// words, lines and notices of the unpadded text (leading blanks are not words and do not move lines)
	unit := "alpha ver-\nsion beta gamma\nhy-\n\nphen delta &amp; x-\r\ny z-\nCopyright 2020 Foo\nlong-\n-\ntail 3.1-\n2 é-\nÉ end\n"
	text2 := strings.Repeat(unit, 24) + "last-\n"
	for _, norm := range []bool{true, false} {
		w0, l0, n0, err := vtTokenize([]byte(text2), norm)
		if err != nil {
			t.Fatal(err)
		}
		for pad := 1; pad <= 1100; pad++ {
			n++
			w, l, nt, err := vtTokenize([]byte(strings.Repeat(" ", pad)+text2), norm)
			why := ""
			switch {
			case err != nil:
				why = err.Error()
			case vuJS(w) != vuJS(w0):
				why = "other words than without the padding"
			case vuJS(l) != vuJS(l0):
				why = "same words on other lines than without the padding"
				for i := range l {
					if l[i] != l0[i] {
						why += fmt.Sprintf(" (word %d %q: line %d, unpadded %d)", i, w[i], l[i], l0[i])
						break
					}
				}
			case vuJS(nt) != vuJS(n0):
				why = fmt.Sprintf("notice lines %v, unpadded %v", nt, n0)
			}
			if why != "" {
				bad++
				if bad <= 5 {
					out.Emit(map[string]interface{}{"kind": "mismatch", "pad": pad, "normalize": norm, "why": "hyphenated text: " + why})
				}
			}
		}
	}
	out.Emit(map[string]interface{}{"kind": "summary", "vectors": n, "bytes": len(text) + len(text2), "mismatches": bad})
}
