//go:build verif

package classifier

// S2 (tracing switches) driver: every configuration enumerated by specs/V2Trace.tla is given to the real
// TraceConfiguration; isTraceLicense / shouldTrace must answer as the spec does, and asking must not change the
// configuration (the lookup maps are shared by all concurrent Match calls).

import (
	"encoding/json"
	"fmt"
	"os"
	"strings"
	"testing"
)

func TestVerifTraceCfgReplay(t *testing.T) {
	out := vuOpenOut("VERIF_OUT")
	defer out.Close()
	n, bad := 0, 0
	join := func(cs []string) string { return strings.Join(cs, "") }
	vuVectors(os.Getenv("VERIF_IN"), func(raw []byte) bool {
		var v struct {
			Lics   [][]string          `json:"lics"`
			Phases [][]string          `json:"phases"`
			Lic    [][]json.RawMessage `json:"lic"`
			Ph     [][]json.RawMessage `json:"ph"`
		}
		if json.Unmarshal(raw, &v) != nil || v.Lic == nil {
			return true
		}
		n++
		var le, pe []string
		for _, e := range v.Lics {
			le = append(le, join(e))
		}
		for _, e := range v.Phases {
			pe = append(pe, join(e))
		}
		tc := &TraceConfiguration{TraceLicenses: strings.Join(le, ","), TracePhases: strings.Join(pe, ","), Tracer: func(string, ...interface{}) {}}
		tc.init()
		l0, p0 := len(tc.traceLicenses), len(tc.tracePhases)
		why := ""
		for _, pr := range v.Lic {
			var name []string
			var want bool
			json.Unmarshal(pr[0], &name)
			json.Unmarshal(pr[1], &want)
			if got := tc.isTraceLicense(join(name)); got != want {
				why = fmt.Sprintf("isTraceLicense(%q) with %q = %v, spec %v", join(name), tc.TraceLicenses, got, want)
			}
		}
		for _, pr := range v.Ph {
			var name []string
			var want bool
			json.Unmarshal(pr[0], &name)
			json.Unmarshal(pr[1], &want)
			if got := tc.shouldTrace(join(name)); got != want {
				why = fmt.Sprintf("shouldTrace(%q) with %q = %v, spec %v", join(name), tc.TracePhases, got, want)
			}
		}
		if why == "" && (len(tc.traceLicenses) != l0 || len(tc.tracePhases) != p0) {
			why = fmt.Sprintf("asking changed the configuration: %d -> %d license entries, %d -> %d phase entries", l0, len(tc.traceLicenses), p0, len(tc.tracePhases))
		}
		if why != "" {
			bad++
			if bad <= 5 {
				out.Emit(map[string]interface{}{"kind": "mismatch", "why": why, "spec": json.RawMessage(raw)})
			}
		}
		return true
	})
	out.Emit(map[string]interface{}{"kind": "summary", "vectors": n, "mismatches": bad})
}
