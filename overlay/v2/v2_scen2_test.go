//go:build verif

package classifier

// Scenarios C05 (presentation changes), C06 (notices, markers, hyphenation, spelling), C11 (Normalize).

import (
	"bytes"
	"fmt"
	"sort"
	"strings"
	"unicode"
)

// v2EndsDashed: the text ends in a line that ends in a dash, possibly followed by empty lines: its last word waits for a
// second half, so whatever follows joins it -- the one way in which a piece of text reaches into the next.
func v2EndsDashed(b []byte) bool {
	return v2DashEnded(strings.TrimRight(string(b), "\n"))
}

// ---- raw line structure and the exempt zone of C05 (hyphen-ended line through the next non-blank line)
func v2Lines(data []byte) []string { return strings.Split(string(data), "\n") }

func v2DashEnded(ln string) bool {
	for _, d := range []string{"-", "‒", "–", "—", "‐", "\u2011", "\u2015", "\u2212"} {
		if strings.HasSuffix(ln, d) {
			return true
		}
	}
	return false
}

func v2Exempt(lines []string) []bool {
	ex := make([]bool, len(lines))
	pending := false
	for k, ln := range lines {
		h := v2DashEnded(ln)
		ex[k] = h || pending
		pending = h || (pending && strings.TrimSpace(ln) == "")
	}
	return ex
}

type v2Tr struct {
	kind string
	fn   func(vt *v2T, lines []string, ex []bool) (out []string, lmap []int) // lmap nil = identity
}

func v2MapLines(lines []string, ex []bool, f func(string) string) []string {
	out := make([]string, len(lines))
	for i, ln := range lines {
		if ex[i] {
			out[i] = ln
		} else {
			out[i] = f(ln)
		}
	}
	return out
}

// recase ASCII letters except inside HTML character references (&name; is case sensitive)
func v2Recase(ln string, f func(r rune) rune) string {
	var sb strings.Builder
	inEnt := false
	for _, r := range ln {
		if r == '&' {
			inEnt = true
		} else if inEnt && !(r < 128 && (unicode.IsLetter(r) || unicode.IsDigit(r) || r == '#')) {
			inEnt = false
		}
		if !inEnt && r < 128 {
			r = f(r)
		}
		sb.WriteRune(r)
	}
	return sb.String()
}

func v2Decor(prefix string) v2Tr {
	return v2Tr{"decor:" + prefix, func(vt *v2T, lines []string, ex []bool) ([]string, []int) {
		return v2MapLines(lines, ex, func(s string) string { return prefix + s }), nil
	}}
}

var v2C05Kinds = []v2Tr{
	{"upper", func(vt *v2T, l []string, ex []bool) ([]string, []int) {
		return v2MapLines(l, ex, func(s string) string { return v2Recase(s, unicode.ToUpper) }), nil
	}},
	{"lower", func(vt *v2T, l []string, ex []bool) ([]string, []int) {
		return v2MapLines(l, ex, func(s string) string { return v2Recase(s, unicode.ToLower) }), nil
	}},
	{"flip", func(vt *v2T, l []string, ex []bool) ([]string, []int) {
		return v2MapLines(l, ex, func(s string) string {
			return v2Recase(s, func(r rune) rune {
				if vt.rng.Intn(3) == 0 {
					if unicode.IsUpper(r) {
						return unicode.ToLower(r)
					}
					return unicode.ToUpper(r)
				}
				return r
			})
		}), nil
	}},
	{"tabs", func(vt *v2T, l []string, ex []bool) ([]string, []int) {
		return v2MapLines(l, ex, func(s string) string {
			var sb strings.Builder
			for _, r := range s {
				if r == ' ' {
					switch vt.rng.Intn(3) {
					case 0:
						sb.WriteString("\t")
					case 1:
						sb.WriteString("   ")
					default:
						sb.WriteString(" ")
					}
				} else {
					sb.WriteRune(r)
				}
			}
			return sb.String()
		}), nil
	}},
	{"trail", func(vt *v2T, l []string, ex []bool) ([]string, []int) {
		return v2MapLines(l, ex, func(s string) string {
			return s + strings.Repeat(" ", 1+vt.rng.Intn(3)) + strings.Repeat("\t", vt.rng.Intn(2))
		}), nil
	}},
	{"indent", func(vt *v2T, l []string, ex []bool) ([]string, []int) {
		return v2MapLines(l, ex, func(s string) string {
			return strings.Repeat(" ", vt.rng.Intn(9)) + strings.Repeat("\t", vt.rng.Intn(2)) + s
		}), nil
	}},
	{"crlf", func(vt *v2T, l []string, ex []bool) ([]string, []int) {
		out := v2MapLines(l, ex, func(s string) string { return s + "\r" })
		if n := len(out); n > 0 && !ex[n-1] {
			out[n-1] = strings.TrimSuffix(out[n-1], "\r") // the last piece has no line terminator
		}
		return out, nil
	}},
	{"blank", func(vt *v2T, l []string, ex []bool) ([]string, []int) {
		var out []string
		lmap := make([]int, len(l))
		for i, ln := range l {
			if !ex[i] && (i == 0 || !ex[i-1]) && vt.rng.Intn(4) == 0 {
				for k := 1 + vt.rng.Intn(2); k > 0; k-- {
					out = append(out, "")
				}
			}
			out = append(out, ln)
			lmap[i] = len(out)
		}
		return out, lmap
	}},
	v2Decor("// "), v2Decor("# "), v2Decor(" * "), v2Decor("; "), v2Decor("-- "), v2Decor("> "), v2Decor("| "), v2Decor("% "),
	{"typographic", func(vt *v2T, l []string, ex []bool) ([]string, []int) {
		dashes := []string{"–", "—", "‒", "‐", "\u2011", "\u2015"} // the dash block U+2010..U+2015
		return v2MapLines(l, ex, func(s string) string {
			var sb strings.Builder
			open := true
			for _, r := range s {
				switch r {
				case '-':
					sb.WriteString(dashes[vt.rng.Intn(len(dashes))])
				case '\'':
					sb.WriteString("’")
				case '"':
					if open {
						sb.WriteString("“")
					} else {
						sb.WriteString("”")
					}
					open = !open
				default:
					sb.WriteRune(r)
				}
			}
			return sb.String()
		}), nil
	}},
}

func (vt *v2T) applyTr(data []byte, tr v2Tr) ([]byte, []int) {
	lines := v2Lines(data)
	out, lmap := tr.fn(vt, lines, v2Exempt(lines))
	if lmap == nil {
		lmap = v2Ident(len(lines))
	}
	return []byte(strings.Join(out, "\n")), lmap
}

func v2Compose(a, b []int) []int { // line i -> b[a[i]]
	out := make([]int, len(a))
	for i, x := range a {
		out[i] = b[x-1]
	}
	return out
}

// inputs shared by the metamorphic scenarios: corpus documents in context, edited texts, scenario files
func (vt *v2T) metaInputs(c *v2C, n int) (xs [][]byte, labels []string) {
	docs := v2Corpus()
	for _, i := range vt.sample(len(docs), n) {
		d := docs[i]
		switch vt.rng.Intn(3) {
		case 0:
			xs = append(xs, append([]byte(nil), d.Data...))
		case 1:
			xs = append(xs, append(append(vt.oovBlock(c, 3), v2EnsureNL(d.Data)...), vt.oovBlock(c, 3)...))
		default:
			xs = append(xs, vt.editWords(c, d.Data, 0.04))
		}
		labels = append(labels, d.Key)
	}
	scen := v2Scenarios()
	names := make([]string, 0, len(scen))
	for k := range scen {
		names = append(names, k)
	}
	sort.Strings(names)
	ns := len(names)
	if !vt.thorough() && ns > 12 {
		ns = 12
	}
	for _, k := range names[:ns] {
		xs = append(xs, scen[k])
		labels = append(labels, "scenario/"+k)
	}
	// notice lines of every length between short and very long (a notice is a notice however long the list of holders
	// is), with apostrophes, quotes and hyphens inside words: typographic forms make such a line longer in bytes
	for k := 0; k < 2; k++ {
		d := docs[vt.rng.Intn(len(docs))]
		for len(d.Data) > 6000 {
			d = docs[vt.rng.Intn(len(docs))]
		}
		var sb strings.Builder
		for _, L := range []int{60, 150, 185, 193, 196, 198, 199, 200, 203, 215, 255, 300, 520, 1100} {
			ln := "Copyright 2019 The O'Brien-D'Arcy \"Widget\" Authors"
			for i := 0; len(ln) < L-8; i++ {
				ln += fmt.Sprintf(", Mc'Holder-%d", i)
			}
			for len(ln) < L {
				ln += "x"
			}
			sb.WriteString(ln + "\n")
		}
		sb.WriteString("\n")
		xs = append(xs, append([]byte(sb.String()), d.Data...))
		labels = append(labels, "longnotice/"+d.Key)
		var pb strings.Builder
		// notices behind a short prefix (the expression allows one to five characters before the word): the prefix counts
		// characters, and typographic quotes are three bytes each
		for _, ln := range []string{"\"(c)\" Copyright 2020 X Corp", "It's Copyright 2019 Y Ltd", "'' Copyright 2018 Z", "\"'\"'\" Copyright 2017 W",
			"\"\"\"\"\"Copyright 2016 V", "-- '-Copyright (c) 2015 U", "'\"' Copyright (c) [dates of first publication] T"} {
			pb.WriteString(ln + "\n")
		}
		pb.WriteString("\n")
		xs = append(xs, append([]byte(pb.String()), d.Data...))
		labels = append(labels, "prefixnotice/"+d.Key)
	}
	return
}

func (vt *v2T) scenC05() {
	c := vt.build("c05", 0.8, v2Corpus())
	n := 110
	per := 3
	if vt.thorough() {
		n, per = len(v2Corpus()), len(v2C05Kinds)
	}
	xs, labels := vt.metaInputs(c, n)
	for xi, x := range xs {
		ra := vt.match(c, x, v2MatchOpts{})
		kinds := vt.rng.Perm(len(v2C05Kinds))[:per]
		if strings.HasPrefix(labels[xi], "longnotice/") || strings.HasPrefix(labels[xi], "prefixnotice/") {
			kinds = vt.rng.Perm(len(v2C05Kinds)) // every kind on the few long-notice inputs
		}
		for _, ki := range kinds {
			if strings.HasPrefix(labels[xi], "prefixnotice/") && strings.HasPrefix(v2C05Kinds[ki].kind, "decor:") {
				continue // a comment marker in front of a prefix that is already there pushes the word beyond the five characters allowed
			}
			y, lmap := vt.applyTr(x, v2C05Kinds[ki])
			rb := vt.match(c, y, v2MatchOpts{})
			vt.pair(ra, rb, v2C05Kinds[ki].kind, 0, lmap, false, nil, map[string]interface{}{"label": labels[xi], "nolines": false})
		}
		// a composition of two kinds
		k1, k2 := v2C05Kinds[vt.rng.Intn(len(v2C05Kinds))], v2C05Kinds[vt.rng.Intn(len(v2C05Kinds))]
		if strings.HasPrefix(labels[xi], "prefixnotice/") {
			k1, k2 = v2C05Kinds[len(v2C05Kinds)-1], v2C05Kinds[0] // typographic, then upper case
		}
		y1, m1 := vt.applyTr(x, k1)
		y2, m2 := vt.applyTr(y1, k2)
		rb := vt.match(c, y2, v2MatchOpts{})
		vt.pair(ra, rb, k1.kind+"+"+k2.kind, 0, v2Compose(m1, m2), false, nil, map[string]interface{}{"label": labels[xi], "nolines": false})
		vt.reset(false)
	}
}

// ---------------------------------------------------------------------------------------------
// C06
var v2NoticeTemplates = []string{"Copyright 2020 Jane Doe", "Copyright (c) 2019 Foo Inc. All rights reserved.", "// Copyright 2007, 2008 The Authors",
	"2020-01-02", "2019-jan-07",
	// a notice is a notice however many holders it lists (far more than thirty words on the line)
	"Copyright (c) 1998-2020 Ann Archer, Bob Baker, Cy Cooper, Di Draper, Ed Elder, Flo Fisher, Gus Gardner, Hal Hunter, Ida Iron, Jo Joiner, Kit Knight, Lou Lister, Max Miller, Nan Nailor, Oz Ostler, Pat Porter, Quin Quarry, Ray Reeve, Sam Sawyer, Tom Turner and others"}
var v2Markers = []string{"1. ", "iv. ", "3.1. ", "12. ", "100. ", "2.105. ", "99: "}

func v2HeaderLike(w string) bool { return header(strings.ToLower(w)) }

// v2FirstWord: the first word of a line as the tokenizer sees it (decoration in front of it is skipped)
func v2FirstWord(ln string) string {
	start := strings.IndexFunc(ln, func(r rune) bool { return unicode.IsLetter(r) || unicode.IsDigit(r) || r == '&' || r == '(' })
	if start < 0 {
		return ""
	}
	rest := ln[start:]
	if end := strings.IndexFunc(rest, unicode.IsSpace); end >= 0 {
		rest = rest[:end]
	}
	return rest
}

// a line the tokenizer treats as a notice / date line (markers are prefixed to text lines only); decided by the
// tokenizer itself on the line alone, so that decoration and mapped runes ("©") are seen as it sees them
func v2NoticeLine(fields []string) bool {
	_, _, notes, err := vtTokenize([]byte(strings.Join(fields, " ")), true)
	return err == nil && len(notes) > 0
}

func (vt *v2T) scenC06() {
	c := vt.build("c06", 0.8, v2Corpus())
	n := 90
	if vt.thorough() {
		n = len(v2Corpus())
	}
	xs, labels := vt.metaInputs(c, n)
	inter := map[string]string{}
	for k, v := range interchangeableWords {
		if !strings.Contains(k, " ") && k != "https" {
			inter[k], inter[v] = v, k
		}
	}
	// the recorded instance of the open finding C06-split-on-shared-line is always part of the run: BSD-0-Clause is
	// reported next to ISC only because ISC's disclaimer is one line (retain loop, c.StartLine == o.EndLine)
	for _, d := range v2Corpus() {
		if d.Key == "License/ISC/pristine.txt" {
			x := string(d.Data)
			y := strings.Replace(x, "INCLUDING ALL IMPLIED WARRANTIES", "INCLUDING ALL IMPLIED WARRAN-\n   TIES", 1)
			if x != y {
				L := strings.Count(x[:strings.Index(x, "INCLUDING ALL IMPLIED")], "\n") + 1
				n := strings.Count(x, "\n") + 1
				lmap := make([]int, n)
				for i := range lmap {
					lmap[i] = i + 1
					if i+1 > L {
						lmap[i] = i + 2
					}
				}
				ra := vt.match(c, []byte(x), v2MatchOpts{})
				rb := vt.match(c, []byte(y), v2MatchOpts{})
				vt.pair(ra, rb, "hyphen-split", 0, lmap, true, nil, map[string]interface{}{"label": d.Key, "nolines": true, "split": L})
			}
		}
	}
	for xi, x := range xs {
		ra := vt.match(c, x, v2MatchOpts{})
		lines := v2Lines(x)
		ex := v2Exempt(lines)
		lab := map[string]interface{}{"label": labels[xi], "nolines": true}
		// (1) notice / date lines inserted between lines
		{
			var out []string
			lmap := make([]int, len(lines))
			var notices []int
			for i, ln := range lines {
				if !ex[i] && (i == 0 || !ex[i-1]) && vt.rng.Intn(8) == 0 {
					out = append(out, v2NoticeTemplates[vt.rng.Intn(len(v2NoticeTemplates))])
					notices = append(notices, len(out))
				}
				out = append(out, ln)
				lmap[i] = len(out)
			}
			rb := vt.match(c, []byte(strings.Join(out, "\n")), v2MatchOpts{})
			vt.pair(ra, rb, "notice", 0, lmap, false, notices, map[string]interface{}{"label": labels[xi], "nolines": false})
		}
		// (2) list markers in front of lines whose first word is not itself header-like
		{
			m := v2Markers[vt.rng.Intn(len(v2Markers))]
			out := make([]string, len(lines))
			for i, ln := range lines {
				out[i] = ln
				f := strings.Fields(ln)
				if fw := v2FirstWord(ln); !ex[i] && fw != "" && !v2HeaderLike(fw) && !v2NoticeLine(f) && vt.rng.Intn(3) == 0 {
					out[i] = m + ln
				}
			}
			rb := vt.match(c, []byte(strings.Join(out, "\n")), v2MatchOpts{})
			vt.pair(ra, rb, "marker:"+strings.TrimSpace(m), 0, v2Ident(len(lines)), false, nil, lab)
		}
		// (3) one word in the middle of a line split across two lines with a trailing hyphen; the word that
		//     follows must not be header-like (known finding HyphenJoinResetsPos is probed separately)
		{
			var cand [][2]int
			for i, ln := range lines {
				if ex[i] || (i > 0 && ex[i-1]) {
					continue
				}
				f := strings.Fields(ln)
				if v2NoticeLine(f) {
					continue // a notice is defined per line: splitting it makes a different text
				}
				for j := 1; j+1 < len(f); j++ {
					w := f[j]
					if len(w) >= 6 && strings.IndexFunc(w, func(r rune) bool { return !(r < 128 && unicode.IsLetter(r)) }) < 0 && !v2HeaderLike(f[j+1]) && !strings.HasSuffix(f[j+1], "-") {
						cand = append(cand, [2]int{i, j})
					}
				}
			}
			if len(cand) > 0 {
				pick := cand[vt.rng.Intn(len(cand))]
				f := strings.Fields(lines[pick[0]])
				w := f[pick[1]]
				cut := 2 + vt.rng.Intn(len(w)-3)
				l1 := strings.Join(f[:pick[1]], " ") + " " + w[:cut] + "-"
				l2 := "   " + w[cut:] + " " + strings.Join(f[pick[1]+1:], " ")
				// the halves are lines of their own: `Python ver-` / `sion Copyright (c) 2008 ...` makes the second one a
				// notice by the per-line definition, which is a different text, not a split of the same one
				if v2NoticeLine(strings.Fields(l1)) || v2NoticeLine(strings.Fields(l2)) {
					goto nosplit
				}
				out := append([]string(nil), lines[:pick[0]]...)
				out = append(out, l1)
				out = append(out, l2)
				out = append(out, lines[pick[0]+1:]...)
				lmap := make([]int, len(lines))
				for i := range lmap {
					lmap[i] = i + 1
					if i > pick[0] {
						lmap[i] = i + 2
					}
				}
				rb := vt.match(c, []byte(strings.Join(out, "\n")), v2MatchOpts{})
				vt.pair(ra, rb, "hyphen-split", 0, lmap, true, nil, map[string]interface{}{"label": labels[xi], "nolines": true, "split": pick[0] + 1})
			}
		nosplit:
		}
		// (4) interchangeable spellings and (5) URL scheme
		{
			changed := false
			out := v2MapLines(lines, ex, func(s string) string {
				f := strings.Split(s, " ")
				for i, w := range f {
					lw := strings.ToLower(w)
					if rep, ok := inter[lw]; ok && lw == w {
						f[i] = rep
						changed = true
					}
				}
				return strings.Join(f, " ")
			})
			if changed {
				y := []byte(strings.Join(out, "\n"))
				rb := vt.match(c, y, v2MatchOpts{})
				vt.pair(ra, rb, "spelling", 0, v2Ident(len(lines)), false, nil, lab)
				// ... also once the other spelling is a word of the shared dictionary (Normalize registers the
				// spellings it keeps)
				if xi%3 == 0 {
					c.c.Normalize(append([]byte(nil), y...))
					rb2 := vt.match(c, y, v2MatchOpts{})
					vt.pair(ra, rb2, "spelling-after-normalize", 0, v2Ident(len(lines)), false, nil, lab)
				}
			}
			sw := bytes.Contains(x, []byte("http://")) || bytes.Contains(x, []byte("https://"))
			if sw {
				y := strings.NewReplacer("http://", "https://", "https://", "http://").Replace(string(x))
				rb := vt.match(c, []byte(y), v2MatchOpts{})
				vt.pair(ra, rb, "scheme", 0, v2Ident(len(lines)), false, nil, lab)
			}
		}
		vt.reset(false)
	}
	// a word split with a trailing hyphen (continuation line indented) at every alignment to the read buffer
	{
		var mit v2Doc
		for _, d := range v2Corpus() {
			if d.Key == "License/MIT/pristine.txt" {
				mit = d
			}
		}
		txt := strings.Replace(string(mit.Data), "CONNECTION", "CONNEC-\n    TION", 1)
		txt = "Copyright 2020 Jane Doe\n" + txt
		ref := vt.match(c, []byte(txt), v2MatchOpts{})
		nl := v2NLines([]byte(txt))
		step := 1
		if !vt.thorough() {
			step = 2
		}
		for pad := 1; pad <= 1024; pad += step {
			r := vt.match(c, append(bytes.Repeat([]byte(" "), pad), txt...), v2MatchOpts{})
			vt.pair(ref, r, fmt.Sprintf("hyphen-pad:%d", pad), 0, v2Ident(nl), false, nil, map[string]interface{}{"label": "MIT split", "nolines": false})
		}
		vt.reset(false)
	}
	// probes of the recorded call-site findings (replayed model counter-examples)
	vt.probeC06()
}

// probeC06 re-observes the two tokenizer-level findings on the real tokenizer.
func (vt *v2T) probeC06() {
	words := func(s string) []string {
		w, _, _, _ := vtTokenize([]byte(s), true)
		return w
	}
	base := words("foo bar baz\n")
	vt.emit(map[string]interface{}{"ev": "probe", "id": "C06-letter-paren-marker", "input": "a) foo bar baz\n",
		"observed": fmt.Sprint(words("a) foo bar baz\n")), "ideal": fmt.Sprint(base), "deviates": fmt.Sprint(words("a) foo bar baz\n")) != fmt.Sprint(base)})
	b2 := words("license version 1.1. of\n")
	vt.emit(map[string]interface{}{"ev": "probe", "id": "C06-hyphen-join-resets-position", "input": "license ver-\nsion 1.1. of\n",
		"observed": fmt.Sprint(words("license ver-\nsion 1.1. of\n")), "ideal": fmt.Sprint(b2), "deviates": fmt.Sprint(words("license ver-\nsion 1.1. of\n")) != fmt.Sprint(b2)})
}

// ---------------------------------------------------------------------------------------------
// C11: Normalize lines up with Match positions and matches the same
func (vt *v2T) scenC11() {
	c := vt.build("c11", 0.8, v2Corpus())
	n := 140
	if vt.thorough() {
		n = len(v2Corpus())
	}
	xs, labels := vt.metaInputs(c, n)
	// the documents of the two open findings of C11 are always part of the run, unedited
	for _, d := range v2Corpus() {
		if d.Key == "License/GIAJWTOU-2.0/license.txt" || d.Key == "Supplement/Apache-2.0/openssl.txt" {
			xs = append(xs, d.Data)
			labels = append(labels, "finding/"+d.Key)
		}
	}
	// edited variants: a URL scheme with a capital first letter (Normalize keeps the case of a word's first
	// letter), and a notice line that ends in a hyphen (the line break after it leaves no EOL token)
	for xi, n0 := 0, len(xs); xi < n0; xi++ {
		x := string(xs[xi])
		if y := strings.Replace(strings.Replace(x, "https://", "Https://", -1), "http://", "Https://", -1); y != x && vt.rng.Intn(2) == 0 {
			xs = append(xs, []byte(y))
			labels = append(labels, "cap-scheme/"+labels[xi])
		}
		// a word that carries a protected phrase (scoring vetoes "apache", "gnu", ... appearing on one side only)
		// replaced by an out-of-vocabulary word that contains the phrase as well
		if y := strings.Replace(strings.Replace(x, "www.apache.org", "mirror.apache.example.net", -1), "www.gnu.org", "ftp.gnu.mirror.example", -1); y != x {
			xs = append(xs, []byte(y))
			labels = append(labels, "oov-phrase/"+labels[xi])
		}
		if lines := strings.Split(x, "\n"); len(lines) > 3 && vt.rng.Intn(4) == 0 {
			k := 1 + vt.rng.Intn(len(lines)-2)
			if ex := v2Exempt(lines); !ex[k] && !ex[k-1] {
				y := strings.Join(lines[:k], "\n") + "\nCopyright 2020 foo-\n" + strings.Join(lines[k:], "\n")
				xs = append(xs, []byte(y))
				labels = append(labels, "hyphen-notice/"+labels[xi])
			}
		}
	}
	for xi, x := range xs {
		// the original is matched first: Normalize registers the words it keeps in the classifier's dictionary, and what
		// a later call does with them is part of what is compared
		ra := vt.match(c, x, v2MatchOpts{})
		norm := vt.normalize(c, x)
		// Align: line k of the normalized text holds, as Match reads it, the words Match attributes to
		// line k of the original (Normalize keeps the case of a word's first letter and the original
		// spelling; both are folded by Match's own tokenisation)
		td, tn := c.tokens(x), c.tokens(norm)
		align, alignclass := "", ""
		for k := 0; k < len(td.Tokens) || k < len(tn.Tokens); k++ {
			if k >= len(td.Tokens) || k >= len(tn.Tokens) || td.Tokens[k] != tn.Tokens[k] {
				desc := func(d *indexedDocument) string {
					if k >= len(d.Tokens) {
						return "<end>"
					}
					return fmt.Sprintf("%q@%d", c.c.dict.getWord(d.Tokens[k].ID), d.Tokens[k].Line)
				}
				align = fmt.Sprintf("token %d: original %s, normalized %s", k, desc(td), desc(tn))
				// call-site signatures of the two recorded findings, decided on the token level
				if k < len(td.Tokens) {
					w := c.c.dict.getWord(td.Tokens[k].ID)
					lastOnLine := k+1 >= len(td.Tokens) || td.Tokens[k+1].Line > td.Tokens[k].Line
					firstOnLine := k == 0 || td.Tokens[k-1].Line < td.Tokens[k].Line
					if strings.HasSuffix(w, "-") && lastOnLine {
						alignclass = "token-ends-in-hyphen"
					} else if w == "copyright" && firstOnLine {
						for _, m := range tn.Matches {
							if m.StartLine == int(td.Tokens[k].Line) {
								alignclass = "cleaned-line-is-notice"
							}
						}
					}
				}
				break
			}
		}
		rb := vt.match(c, norm, v2MatchOpts{})
		vt.pair(ra, rb, "normalize", 0, v2Ident(v2NLines(x)), true, nil, map[string]interface{}{"label": labels[xi], "nolines": false, "align": align, "alignclass": alignclass})
		vt.reset(false)
	}
}
