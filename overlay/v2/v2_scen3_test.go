//go:build verif

package classifier

// Scenarios C02 (score scripts), C04 (determinism / purity), C08 (streaming, reader faults), C10 (totality).

import (
	"bytes"
	"errors"
	"fmt"
	"io"
	"math"
	"os"
	"sort"
	"strings"
	"sync"
)

// ---------------------------------------------------------------------------------------------
// C02: every reported match is backed by a recorded call of score() whose edit script is checked by TLC
func (vt *v2T) scenC02() {
	docs := v2Corpus()
	c := vt.build("c02", 0.8, docs)
	n := 45
	if vt.thorough() {
		n = 400
	}
	scen := v2Scenarios()
	names := make([]string, 0, len(scen))
	for k := range scen {
		names = append(names, k)
	}
	sort.Strings(names)
	var xs [][]byte
	for _, i := range vt.sample(len(docs), n) {
		d := docs[i]
		if len(d.Data) > 14000 && !vt.thorough() {
			continue // keep the quick trace small: the big documents are covered in the thorough tier
		}
		switch vt.rng.Intn(5) {
		case 0:
			xs = append(xs, d.Data)
		case 1, 2:
			xs = append(xs, vt.editWords(c, d.Data, []float64{0.02, 0.06, 0.15}[vt.rng.Intn(3)]))
		case 3: // truncated
			xs = append(xs, d.Data[:len(d.Data)*(6+vt.rng.Intn(4))/10])
		default: // concatenated
			o := docs[vt.rng.Intn(len(docs))]
			if len(o.Data) > 8000 {
				o = d
			}
			xs = append(xs, append(append(v2EnsureNL(vt.editWords(c, d.Data, 0.03)), vt.oovBlock(c, 2)...), o.Data...))
		}
	}
	// a text whose closing words are cut off, followed on the next lines by a partial repeat of its last sentence: the
	// candidate range runs on into the repeat and score() trims it off again (a non-zero end offset, on a later line)
	nst := 0
	for _, i := range vt.rng.Perm(len(docs)) {
		d := docs[i]
		w := strings.Fields(string(d.Data))
		if len(d.Data) > 2500 || len(w) < 60 || nst >= 8 {
			continue
		}
		lines := strings.Split(strings.TrimRight(string(d.Data), "\n"), "\n")
		last := strings.Fields(lines[len(lines)-1])
		if len(last) < 7 {
			continue
		}
		body := strings.Join(lines[:len(lines)-1], "\n") + "\n" + strings.Join(last[:len(last)-4], " ")
		tail := w[len(w)-14 : len(w)-4]
		xs = append(xs, []byte(body+"\n"+strings.Join(tail[:6], " ")+"\n"+strings.Join(tail[6:8], " ")+"\n"+strings.Join(tail[4:9], " ")+"\n"))
		nst++
	}
	// one instance of that shape that is known to reach the trimming path (MIT in plain words, its closing words replaced by
	// a stutter of the sentence before them)
	xs = append(xs, []byte(strings.Join([]string{
		"permission is hereby granted free of charge to any person obtaining a copy",
		"of this software and associated documentation files the software to deal",
		"in the software without restriction including without limitation the rights",
		"to use copy modify merge publish distribute sublicense andor sell",
		"copies of the software and to permit persons to whom the software is",
		"furnished to do so subject to the following conditions", "",
		"the above copyright notice and this permission notice shall be included in all",
		"copies or substantial portions of the software", "",
		"the software is provided as is without warranty of any kind express or",
		"implied including but not limited to the warranties of merchantability",
		"fitness for a particular purpose and noninfringement in no event shall the",
		"authors or copyright holders be liable for any claim damages or other",
		"liability whether in an action of contract tort or otherwise arising from",
		"out of or in connection with the software or the use",
		"arising from out of or in connection with", "the software", "or the use or"}, "\n")+"\n"))
	ns := 6
	if vt.thorough() {
		ns = len(names)
	}
	for _, k := range names[:ns] {
		xs = append(xs, scen[k])
	}
	xs = append(xs, []byte("some arbitrary prose that is not a license at all but mentions the word license and copyright\n"))
	// single-word swaps the scoring rules treat specially: every one of them is a real word difference, so the
	// reported distance must count it (or the candidate must be vetoed) -- never report it as identical
	swaps := [][2]string{{"lesser", "library"}, {"library", "lesser"}, {"Lesser", "Library"}, {"Library", "Lesser"}, {"2.0", "3.0"}, {"2.1", "3.0"}, {"version 2", "version 3"},
		{"apache", "bsd"}, {"Apache", "Artistic"}, {"warranty", "guarantee"}, {"gnu", "gnat"}, {"GNU", "GNAT"}}
	for _, sw := range swaps {
		ndocs := 0
		for _, di := range vt.rng.Perm(len(docs)) {
			d := docs[di]
			txt := string(d.Data)
			occ := strings.Count(txt, sw[0])
			if occ == 0 || len(d.Data) > 30000 || (len(d.Data) > 9000 && !vt.thorough() && ndocs > 0) {
				continue
			}
			for rep := 0; rep < 3 && rep < occ; rep++ { // three seeded occurrences per document
				k := vt.rng.Intn(occ)
				pos := 0
				for j := 0; j <= k; j++ {
					pos += strings.Index(txt[pos:], sw[0])
					if j < k {
						pos += len(sw[0])
					}
				}
				xs = append(xs, []byte(txt[:pos]+sw[1]+txt[pos+len(sw[0]):]))
			}
			ndocs++
			if ndocs >= 2 {
				break
			}
		}
	}
	for xi, x := range xs {
		vt.match(c, x, v2MatchOpts{scored: true})
		if xi%5 == 0 { // the same bytes once more, at once: every reported match is backed by a scoring of THIS call
			vt.match(c, x, v2MatchOpts{scored: true})
		}
		vt.reset(false)
	}
	// a reader that answers one Read with (0, nil) -- allowed, neither an end nor a failure -- in the middle of a word that
	// continues: what is scored is the whole input, not the part delivered before the empty read
	for k := 0; k < 6; k++ {
		d := docs[vt.rng.Intn(len(docs))]
		for len(d.Data) > 3000 || len(d.Data) < 200 {
			d = docs[vt.rng.Intn(len(docs))]
		}
		body := bytes.TrimRight(d.Data, " \t\r\n")
		x := append(append([]byte(nil), body...), []byte("sx and further words that are not part of it\n")...)
		cutAt := len(body)
		vt.match(c, x, v2MatchOpts{scored: true, api: "MatchFrom", reader: func(data []byte) (interface{ Read([]byte) (int, error) }, string) {
			return &v2ChunkReader{data: data, chunks: []int{cutAt, 0, 1 << 20}, failAt: -1}, ""
		}})
		vt.reset(false)
	}
	// repetitive documents: a long run of one word, a phrase repeated, a two-word vocabulary.  Their q-grams line up with
	// the input in many ways, so one document yields several candidate ranges, most of them far too short or overcounted;
	// every reported one must still be backed by its own scored edit script
	{
		rc := vt.build("c02rep", 0.8, nil)
		uniq := func(tag string, n int) []string {
			ws := make([]string, n)
			for i := range ws {
				ws[i] = fmt.Sprintf("rep%s%c%c", tag, 'a'+i%26, 'a'+i/26)
			}
			return ws
		}
		rep := func(w []string, n int) []string {
			var out []string
			for i := 0; i < n; i++ {
				out = append(out, w...)
			}
			return out
		}
		lines := func(ws []string) string {
			var sb strings.Builder
			for i, w := range ws {
				sb.WriteString(w)
				if i%9 == 8 || i == len(ws)-1 {
					sb.WriteByte('\n')
				} else {
					sb.WriteByte(' ')
				}
			}
			return sb.String()
		}
		runDoc := append(uniq("r", 60), rep([]string{"filler"}, 40)...)
		phrase := []string{"to", "the", "extent", "permitted", "by", "law"}
		phraseDoc := append(rep(phrase, 8), uniq("p", 10)...)
		var lowDoc []string
		for i := 0; i < 40; i++ {
			lowDoc = append(lowDoc, []string{"to", "be"}[vt.rng.Intn(2)])
		}
		for name, ws := range map[string][]string{"Run": runDoc, "Phrase": phraseDoc, "Low": lowDoc} {
			vt.add(rc, v2Doc{Key: "License/" + name + "/license.txt", Cat: "License", Name: name, Variant: "license.txt", Data: []byte(lines(ws))})
		}
		junk := []string{"zzqxvaa", "qqzzkbb", "xqzvvcc"}
		var ins [][]string
		for _, d := range [][]string{runDoc, phraseDoc, lowDoc} {
			ins = append(ins, d,
				append(append(append([]string(nil), d...), junk...), rep([]string{"filler"}, 45)...),
				append(append(append([]string(nil), d...), junk...), rep(phrase, 7)...),
				append(append(rep([]string{"filler"}, 45), junk...), d...),
				append(append(append([]string(nil), d[:len(d)*9/10]...), junk...), d[len(d)/2:]...))
		}
		for k := 0; k < 12; k++ {
			var w []string
			for i, n := 0, 30+vt.rng.Intn(60); i < n; i++ {
				w = append(w, []string{"to", "be", "filler", "law"}[vt.rng.Intn(2+k%3)])
			}
			ins = append(ins, w)
		}
		for _, w := range ins {
			vt.match(rc, []byte(lines(w)), v2MatchOpts{scored: true})
		}
		vt.reset(false)
	}
	// a document registered again under the same (category, name, variant) with another text: what is reported under that
	// triple afterwards is scored against the text the triple identifies NOW
	{
		rc := vt.build("c02repl", 0.8, nil)
		mk := func(tag string, n int) string {
			var sb strings.Builder
			for i := 0; i < n; i++ {
				fmt.Fprintf(&sb, "rpl%s%c%c", tag, 'a'+i%26, 'a'+i/26)
				if i%8 == 7 || i == n-1 {
					sb.WriteByte('\n')
				} else {
					sb.WriteByte(' ')
				}
			}
			return sb.String()
		}
		oldT, newT, other := mk("o", 40), mk("n", 33), mk("x", 25)
		key := v2Doc{Key: "License/Replaced/license.txt", Cat: "License", Name: "Replaced", Variant: "license.txt"}
		key.Data = []byte(oldT)
		vt.add(rc, key)
		vt.add(rc, v2Doc{Key: "License/Other/license.txt", Cat: "License", Name: "Other", Variant: "license.txt", Data: []byte(other)})
		vt.match(rc, []byte("zzqxv\n"+oldT+"qqzzk\n"), v2MatchOpts{scored: true})
		key.Data = []byte(newT)
		vt.add(rc, key)
		for _, in := range []string{oldT, newT, "zzqxv\n" + oldT + "qqzzk\n" + newT + "xqzvv\n" + other, newT + oldT} {
			vt.match(rc, []byte(in), v2MatchOpts{scored: true})
		}
		// ... and once more, back to a variant of the first text
		key.Data = []byte(strings.Replace(oldT, "rploc", "rplzz", 1))
		vt.add(rc, key)
		for _, in := range []string{oldT, newT} {
			vt.match(rc, []byte(in), v2MatchOpts{scored: true})
		}
		vt.reset(false)
	}
	// a corpus whose dictionary is larger than 0xD800 words: token ids travel through go-diff as runes, and ids in the
	// surrogate range do not survive string([]rune)
	{
		big := NewClassifier(0.8)
		bc := &v2C{"c02big", big, 0.8}
		vt.emit(map[string]interface{}{"ev": "new", "c": bc.id})
		var sb strings.Builder
		for i := 0; i < 56000; i++ {
			fmt.Fprintf(&sb, "w%c%c%c%c ", 'a'+i%26, 'a'+(i/26)%26, 'a'+(i/676)%26, 'a'+(i/17576)%26)
			if i%12 == 11 {
				sb.WriteByte('\n')
			}
		}
		vt.add(bc, v2Doc{Key: "License/Filler/license.txt", Cat: "License", Name: "Filler", Variant: "license.txt", Data: []byte(sb.String())})
		hi := func(tag string, n int) []string {
			var ws []string
			for i := 0; i < n; i++ {
				ws = append(ws, fmt.Sprintf("hi%s%c%c", tag, 'a'+i%26, 'a'+i/26))
			}
			return ws
		}
		xw, yw := hi("x", 40), hi("y", 40)
		vt.add(bc, v2Doc{Key: "License/HighX/license.txt", Cat: "License", Name: "HighX", Variant: "license.txt", Data: []byte(strings.Join(xw, " ") + "\n")})
		vt.add(bc, v2Doc{Key: "License/HighY/license.txt", Cat: "License", Name: "HighY", Variant: "license.txt", Data: []byte(strings.Join(yw, " ") + "\n")})
		for _, k := range []int{5, 20, 33} {
			in := append([]string(nil), xw...)
			in[k] = yw[k] // one word replaced by another dictionary word with a high id
			vt.match(bc, []byte("zzqxv qqzzk\n"+strings.Join(in, " ")+"\nxqzvv\n"), v2MatchOpts{scored: true})
		}
		vt.match(bc, []byte("zzqxv qqzzk\n"+strings.Join(xw, " ")+"\nxqzvv\n"), v2MatchOpts{scored: true})
		vt.reset(false)
	}
}

// ---------------------------------------------------------------------------------------------
// C04: same bytes, same Results -- across insertion orders, supersets, tracing, instances, call histories.
// The memo key is (base corpus, input); the check concatenates the traces of several processes.
func (vt *v2T) scenC04() {
	docs := v2Corpus()
	nbase := 90
	if vt.thorough() {
		nbase = len(docs)
	}
	// the base corpus is chosen by a seed that is the same in every process; the process-specific
	// seed (VERIF_PROC) only varies insertion orders, histories and the map seeds of the runtime
	base := []v2Doc{}
	pick := newV2Sub(vuSeed()).sample(len(docs), nbase)
	for _, i := range pick {
		base = append(base, docs[i])
	}
	// both WTFPL variants have the same words: the ambiguity the order of ties hinges on
	for _, d := range docs {
		if d.Name == "WTFPL" {
			found := false
			for _, b := range base {
				found = found || b.Key == d.Key
			}
			if !found {
				base = append(base, d)
			}
		}
	}
	// a document that is nothing but the last line of another one: for the input "that other document, whole" the overlap filter
	// keeps it next to the exact match (it starts on the line where the exact match ends) -- on every call, in every instance
	var tailOwner []byte
	for _, b := range base {
		lines := strings.Split(strings.TrimRight(string(b.Data), "\n"), "\n")
		if last := lines[len(lines)-1]; len(b.Data) < 3000 && len(lines) > 3 && len(strings.Fields(last)) >= 8 && !v2DashEnded(last) {
			base = append(base, v2Doc{Key: "License/Tail-Line/license.txt", Cat: "License", Name: "Tail-Line", Variant: "license.txt", Data: []byte(last + "\n")})
			tailOwner = b.Data
			break
		}
	}
	// two user documents every process has: one whose words repeat (an input that is most of it has the sequence but not the word
	// statistics: whether it is found must not depend on anything but corpus and input -- not on tracing, not on history), one
	// written with the words that have a second spelling
	c04Phrase := "redistribution and use in source or binary forms are hereby permitted\n"
	base = append(base, v2Doc{Key: "License/Repetitive/license.txt", Cat: "License", Name: "Repetitive", Variant: "license.txt", Data: []byte(strings.Repeat(c04Phrase, 4) + "provided nobody complains loudly\n")},
		v2Doc{Key: "License/Spelled/license.txt", Cat: "License", Name: "Spelled", Variant: "license.txt", Data: []byte("this license is granted by the organization while the program is in use\nfor the purpose of fulfillment of the license the owner of the copyright favors no one\nand the center of the analog catalog is judged by the sublicense and the acknowledgment\n")})
	c04Spelled := []byte("This Licence is granted by the Organisation whilst the Programme is in use\nfor the purpose of fulfilment of the Licence the owner of the copyright favours no one\nand the centre of the analogue catalogue is judged by the sub-license and the acknowledgement\n")
	proc := os.Getenv("VERIF_PROC")
	perm := func() []v2Doc {
		p := vt.rng.Perm(len(base))
		out := make([]v2Doc, len(base))
		for i, j := range p {
			out[i] = base[j]
		}
		return out
	}
	c1 := vt.build("c04a"+proc, 0.8, base)
	c2 := vt.build("c04b"+proc, 0.8, perm())
	extra := append(perm(),
		v2Doc{Key: "License/Unrelated-One/license.txt", Cat: "License", Name: "Unrelated-One", Variant: "license.txt", Data: []byte("quux frobnicate xyzzy plugh wibble wobble flarp snork blivet grault garply waldo\n")},
		v2Doc{Key: "Header/Unrelated-Two/header.txt", Cat: "Header", Name: "Unrelated-Two", Variant: "header.txt", Data: []byte("fred thud corge zork mumble grumble bletch foobar bazqux norf zot spqr\n")},
		// four words that an input below shares, in another order: the document survives the first pass and never matches
		v2Doc{Key: "Header/Unrelated-Three/header.txt", Cat: "Header", Name: "Unrelated-Three", Variant: "header.txt", Data: []byte("deltaq charlieq bravoq alphaq\n")})
	// in this one the tenth word of the dictionary (token id 10 = '\n' as a rune) is a very common one: token ids are handed
	// to the diff library as runes, and nothing about a result may depend on which word has which id
	extra = append([]v2Doc{{Key: "License/Unrelated-Zero/license.txt", Cat: "License", Name: "Unrelated-Zero", Variant: "license.txt",
		Data: []byte("zeroth oneth twoth threeth fourth fifthy sixthy seventhy eighthy the ninthy of and to\n")}}, extra...)
	c3 := vt.build("c04c"+proc, 0.8, extra)
	c4 := vt.build("c04d"+proc, 0.8, base)
	c4.c.SetTraceConfiguration(&TraceConfiguration{TracePhases: "*", TraceLicenses: "*", Tracer: func(string, ...interface{}) {}})
	c5 := vt.build("c04e"+proc, 0.8, perm())
	// a classifier that is used before it is complete: half the corpus, a call, the other half
	c6 := vt.build("c04f"+proc, 0.8, base[:len(base)/2])
	vt.match(c6, base[0].Data, v2MatchOpts{quiet: true})
	vt.match(c6, base[len(base)-1].Data, v2MatchOpts{quiet: true})
	for _, d := range base[len(base)/2:] {
		vt.add(c6, d)
	}
	cs := []*v2C{c1, c2, c3, c4, c5, c6}
	// two of them have normalized the text with the other spellings (and a re-cased copy of it) before anything is matched
	vt.normalize(c5, c04Spelled)
	vt.normalize(c2, []byte(strings.ToUpper(string(c04Spelled))))
	// inputs: the same in every process
	sub := newV2Sub(vuSeed() + 7)
	var inputs [][]byte
	nin := 40
	if vt.thorough() {
		nin = 200
	}
	for _, i := range sub.sample(len(base), nin) {
		d := base[i]
		switch sub.rng.Intn(3) {
		case 0:
			inputs = append(inputs, d.Data)
		case 1:
			inputs = append(inputs, sub.editWords(c1, d.Data, 0.05))
		default:
			o := base[sub.rng.Intn(len(base))]
			inputs = append(inputs, append(append(v2EnsureNL(d.Data), []byte("zzqxvaa qqzzkbb xqzvvcc\n")...), o.Data...))
		}
	}
	for _, d := range docs {
		if d.Name == "WTFPL" {
			inputs = append(inputs, d.Data)
		}
	}
	if tailOwner != nil {
		inputs = append(inputs, tailOwner)
	}
	inputs = append(inputs, []byte(strings.Repeat(c04Phrase, 4)), []byte("zzqxv qqzzk\n"+strings.Repeat(c04Phrase, 4)+"xqzvv\n"), c04Spelled)
	// long documents with scattered edits (both sides of the diff far beyond 100 words)
	nlong := 0
	for _, i := range sub.rng.Perm(len(base)) {
		if d := base[i]; len(d.Data) > 3000 && len(d.Data) < 20000 && nlong < 6 {
			inputs = append(inputs, sub.editWords(c1, d.Data, []float64{0.04, 0.07, 0.1}[nlong%3]))
			nlong++
		}
	}
	// notices and prose that no document of the base corpus resembles (what is reported for them must not depend on whether
	// some unrelated document happens to share their words)
	inputs = append(inputs, []byte("Copyright 2020 Foo Inc\nalphaq bravoq charlieq deltaq\nmore words here\n2021-03-04\n"))
	// a lettered clause marker at the start of a line in one input, the same marker in the middle of a line in another
	inputs = append(inputs,
		[]byte("Terms of use\na. You may copy the software.\nb. You may modify the software.\nc. You may not remove this notice.\n"),
		[]byte("As described in section a. above and clause b. below, subject to c. and the terms of use you may copy the software.\n"))
	// the other spelling of every interchangeable word, a capitalised URL scheme: words that Normalize (which keeps
	// original spellings and registers them in the shared dictionary) and Match read differently
	for k := 0; k < 6; k++ {
		d := base[sub.rng.Intn(len(base))]
		f := strings.Fields(string(d.Data))
		changed := false
		for i, w := range f {
			for from, to := range interchangeableWords {
				if w == to && !strings.Contains(from, " ") && from != "https" {
					f[i], changed = from, true
				}
			}
			if strings.HasPrefix(w, "http://") {
				f[i], changed = "Https://"+w[len("http://"):], true
			}
		}
		if changed {
			inputs = append(inputs, []byte(strings.Join(f, " ")+"\n"))
		}
	}
	scen := v2Scenarios()
	names := make([]string, 0, len(scen))
	for k := range scen {
		names = append(names, k)
	}
	sort.Strings(names)
	for _, k := range names[:8] {
		inputs = append(inputs, scen[k])
	}
	// inputs shorter than the read buffer that end in a truncated UTF-8 sequence, and fillers made of two-byte
	// runes in both alignments: a buffer (or any other state) carried over from an earlier call would show
	for k := 0; k < 4; k++ {
		d := base[sub.rng.Intn(len(base))]
		cut := d.Data
		if len(cut) > 700 {
			cut = cut[:500+sub.rng.Intn(200)]
		}
		inputs = append(inputs, append(append([]byte(nil), cut...), [][]byte{{0xc3}, {0xe2, 0x80}, {0xf0, 0x9f}, {0xc5}}[k]...))
	}
	inputs = append(inputs, []byte(strings.Repeat("é", 1600)), []byte(" "+strings.Repeat("é", 1600)), []byte(strings.Repeat("\u2019x", 900)))
	// many notice lines around several licenses: more than a dozen fully tied candidates, which is what an
	// unstable sort needs in order to show an incomplete ordering
	{
		var sb strings.Builder
		for k := 0; k < 3; k++ {
			d := base[sub.rng.Intn(len(base))]
			for li, ln := range strings.Split(string(d.Data), "\n") {
				if li%7 == 0 {
					fmt.Fprintf(&sb, "Copyright %d Holder Number %d\n", 1990+k*10+li%10, li)
				}
				sb.WriteString(ln + "\n")
			}
			sb.WriteString("zzqxvaa qqzzkbb\n")
		}
		inputs = append(inputs, []byte(sb.String()))
	}
	if proc == "" || proc == "0" {
		vt.probeC04()
	}
	// histories: every classifier sees the inputs in its own order, interleaved with Match / MatchFrom /
	// Normalize calls on other inputs
	for round := 0; round < 2; round++ {
		for ci, c := range cs {
			order := vt.rng.Perm(len(inputs))
			for _, ii := range order {
				in := inputs[ii]
				switch vt.rng.Intn(5) {
				case 0:
					vt.normalize(c, inputs[vt.rng.Intn(len(inputs))])
				case 1:
					vt.match(c, inputs[vt.rng.Intn(len(inputs))], v2MatchOpts{api: "MatchFrom"})
				case 2: // the very input is normalized first
					vt.normalize(c, in)
				}
				api := "Match"
				if (ci+ii+round)%3 == 0 {
					api = "MatchFrom"
				}
				vt.match(c, in, v2MatchOpts{memo: fmt.Sprintf("base%d|%s", vuSeed(), v2Hash(in)), api: api})
			}
			vt.reset(true)
		}
	}
}

// probeC04 re-observes the recorded finding C04-unknown-word-hydration: the scoring rules read the words of a deletion
// (text only the input has) out of the classifier's dictionary, where a word no corpus document contains is "UNKNOWN"
// -- until something (Normalize, an unrelated document) registers it.
func (vt *v2T) probeC04() {
	doc := "this program is free software you can redistribute it under the terms of the gnu general public license as published by the free software foundation either version two or any later version of that text"
	in := []byte(strings.Replace(doc, "gnu general", "gnu lesser general", 1))
	show := func(r Results) string {
		s := ""
		for _, m := range r.Matches {
			s += fmt.Sprintf("[%s %.4f %d-%d]", m.Name, m.Confidence, m.StartTokenIndex, m.EndTokenIndex)
		}
		return s
	}
	c := NewClassifier(0.8)
	c.AddContent("License", "Foo", "license.txt", []byte(doc))
	before := show(c.Match(in))
	c.Normalize([]byte("x lesser"))
	after := show(c.Match(in))
	vt.emit(map[string]interface{}{"ev": "probe", "id": "C04-unknown-word-hydration", "input": string(in),
		"observed": "after Normalize(\"x lesser\"): " + after, "ideal": "as before: " + before, "deviates": before != after})
}

// a second, independently seeded helper so that choices shared by all processes do not depend on VERIF_PROC
func newV2Sub(seed int64) *v2T {
	t := &v2T{}
	t.rng = newRand(seed)
	return t
}

// ---------------------------------------------------------------------------------------------
// C08: streaming equals in-memory; pads move multi-byte runes across the buffer boundary; reader faults
type v2ChunkReader struct {
	data    []byte
	chunks  []int // sizes, cycled
	i       int
	withEOF bool // deliver the last bytes together with io.EOF
	failAt  int  // fail with failErr once this many bytes were delivered (-1: never)
	failErr error
	once    bool // the fault is transient: the Read after it succeeds again (a timeout)
	withErr bool // the fault is reported by the same Read that delivers the last bytes before it (n > 0, err != nil)
	failed  bool
	sent    int
}

func (r *v2ChunkReader) Read(p []byte) (int, error) {
	if r.once && r.failed {
		r.failAt = -1
	}
	if r.failAt >= 0 && r.sent >= r.failAt {
		r.failed = true
		return 0, r.failErr
	}
	if len(r.data) == 0 {
		return 0, io.EOF
	}
	n := r.chunks[r.i%len(r.chunks)]
	r.i++
	if n > len(p) {
		n = len(p)
	}
	if n > len(r.data) {
		n = len(r.data)
	}
	if r.failAt >= 0 && r.sent+n > r.failAt {
		n = r.failAt - r.sent
		if n == 0 {
			r.failed = true
			return 0, r.failErr
		}
	}
	copy(p, r.data[:n])
	r.data = r.data[n:]
	r.sent += n
	if r.withErr && r.failAt >= 0 && r.sent >= r.failAt {
		r.failed = true
		return n, r.failErr
	}
	if len(r.data) == 0 && r.withEOF {
		return n, io.EOF
	}
	return n, nil
}

func (vt *v2T) scenC08() {
	docs := v2Corpus()
	c := vt.build("c08", 0.8, docs)
	mbWords := strings.Fields("café naïve résumé Жизнь 𝒜lpha 𝒜beta smörgåsbord façade coöperate übermut señor Ångström élan piñata jalapeño crème brûlée fiancée touché soufflé cliché décor protégé sauté exposé née mañana doppelgänger")
	mbDoc := v2Doc{Key: "License/Multibyte/license.txt", Cat: "License", Name: "Multibyte", Variant: "license.txt", Data: []byte(strings.Join(mbWords, " ") + "\n" + strings.Join(mbWords[3:], " ") + "\n" + strings.Join(mbWords[:20], " ") + "\n")}
	vt.add(c, mbDoc)
	var mit, apacheHdr v2Doc
	for _, d := range docs {
		if d.Key == "License/MIT/pristine.txt" {
			mit = d
		}
		if d.Key == "Header/Apache-2.0/header.txt" {
			apacheHdr = d
		}
	}
	multi := func(b []byte) []byte { // sprinkle 2-, 3- and 4-byte runes and invalid bytes that do not change the words
		s := strings.Replace(string(b), "\"", "“", -1)
		s = strings.Replace(s, " - ", " – ", -1)
		s = strings.Replace(s, ", ", ", é𝒜Ж ", 7)
		return []byte(strings.Replace(s, ". ", ". \xff\xfe ", 3))
	}
	var contents [][]byte
	long := append(append(append([]byte(nil), mit.Data...), mbDoc.Data...), apacheHdr.Data...)
	contents = append(contents, append(append(multi(mit.Data), '\n'), mbDoc.Data...), multi(apacheHdr.Data), append(append(long, long...), mbDoc.Data...))
	// texts full of continuation bytes that END in a truncated multi-byte sequence: at some pad width the input ends
	// exactly where a buffer pass ends, and nothing behind the last byte may complete the sequence
	// (the text is the Multibyte document itself, twice, so that its last word counts and the byte one buffer pass before the
	// end lies in the text; four lead-ins move that byte over continuation and lead bytes)
	ntrunc := 0
	for lead := 0; lead < 4; lead++ {
		for _, tail := range [][]byte{{0xc3}, {0xe2, 0x80}, {0xf0, 0x9f, 0x92}} {
			t := append([]byte(strings.Repeat("x", lead)+" "), mbDoc.Data...)
			t = append(append(t, bytes.TrimRight(append([]byte(nil), mbDoc.Data...), "\n")...), tail...)
			contents = append(contents, t)
			ntrunc++
		}
	}
	// a text that ends in a carriage return (half a CRLF): whatever looks ahead for the line feed has nothing to look at
	contents = append(contents, append(bytes.TrimRight(multi(mit.Data), "\n"), '\r'), append(append([]byte(nil), apacheHdr.Data...), []byte("last line\r")...))
	nd := 6
	if vt.thorough() {
		nd = 40
	}
	for _, i := range vt.sample(len(docs), nd) {
		if len(docs[i].Data) < 20000 {
			contents = append(contents, multi(vt.editWords(c, docs[i].Data, 0.03)))
		}
	}
	for ci, content := range contents {
		ref := vt.match(c, content, v2MatchOpts{})
		nl := v2NLines(content)
		id := v2Ident(nl)
		// (1) fragmentations
		frags := [][]int{{1}, {1 << 20}, {7}, {1024}, {1020, 4}, {1023, 1, 1}, {3, 1021}, {vt.rng.Intn(2000) + 1, vt.rng.Intn(50) + 1, vt.rng.Intn(1100) + 1},
			{1024, 1016}, {1024, 1017}, {1024, 1018}, {1024, 1019, 5}, {1000, 24, 1016, 1020, 1016, 1018}, {1024, 1016 + vt.rng.Intn(4), 1020, 1016 + vt.rng.Intn(4)},
			// empty reads without error between the reads that deliver (a non-blocking source): neither an end nor a failure
			{5, 0}, {0, 0, 3, 0}, {1, 0, 0}, {700, 0, 0, 0, 330}}
		for fi, fr := range frags {
			fr := fr
			eof := fi%2 == 1
			r := vt.match(c, content, v2MatchOpts{api: "MatchFrom", reader: func(data []byte) (interface{ Read([]byte) (int, error) }, string) {
				return &v2ChunkReader{data: data, chunks: fr, withEOF: eof, failAt: -1}, ""
			}})
			vt.pair(ref, r, fmt.Sprintf("stream:%v eof=%v", fr, eof), 0, id, false, nil, nil)
		}
		// (2) pads: every width 0..2*1024+8 for the first contents, a seeded sample for the others
		var pads []int
		if ci >= 3 && ci < 3+ntrunc {
			// the widths at which the input ends within a few bytes of the end of a buffer pass
			for p := 0; p <= 2*1024+8; p++ {
				if r := (p + len(content)) % 1020; r <= 8 {
					pads = append(pads, p)
				}
			}
		} else if ci < 2 || vt.thorough() {
			for p := 0; p <= 2*1024+8; p++ {
				pads = append(pads, p)
			}
		} else {
			for k := 0; k < 40; k++ {
				pads = append(pads, vt.rng.Intn(2*1024+9))
			}
		}
		for _, p := range pads {
			padded := append(bytes.Repeat([]byte(" "), p), content...)
			r := vt.match(c, padded, v2MatchOpts{})
			vt.pair(ref, r, fmt.Sprintf("pad:%d", p), 0, id, false, nil, nil)
		}
		// the widths at which the input ends exactly where a buffer ends (1024 + 1020k bytes, and one byte either side), read from a
		// reader that says EOF together with the last bytes: the last pass has no spare bytes behind the input
		for p := 0; p <= 2*1024+8; p++ {
			if m := (p + len(content)) % 1020; m >= 3 && m <= 5 && p+len(content) >= 1023 {
				padded := append(bytes.Repeat([]byte(" "), p), content...)
				r := vt.match(c, padded, v2MatchOpts{api: "MatchFrom", reader: func(data []byte) (interface{ Read([]byte) (int, error) }, string) {
					return &v2ChunkReader{data: data, chunks: []int{1 << 20}, withEOF: true, failAt: -1}, ""
				}})
				vt.pair(ref, r, fmt.Sprintf("pad-eof:%d", p), 0, id, false, nil, nil)
			}
		}
		// (3) failing readers: every offset for short contents, a seeded sample otherwise
		var offs []int
		if len(content) <= 3000 {
			for o := 0; o <= len(content); o++ {
				offs = append(offs, o)
			}
		} else {
			for k := 0; k < 60; k++ {
				offs = append(offs, vt.rng.Intn(len(content)+1))
			}
			offs = append(offs, 0, 1020, 1023, 1024, 1025, 2040, 2044, 2048, len(content))
			for k := 0; 1024+1020*k <= len(content); k++ { // faults exactly where a buffer pass ends
				offs = append(offs, 1024+1020*k)
			}
		}
		for k, o := range offs {
			o := o
			e := errors.New(fmt.Sprintf("verif reader fault at %d", o))
			fr := []int{[]int{1, 7, 1024, 4096}[k%4]}
			once := (k/4)%2 == 1 // every other fault is transient: the reader would go on if asked again
			vt.match(c, content, v2MatchOpts{api: "MatchFrom", reader: func(data []byte) (interface{ Read([]byte) (int, error) }, string) {
				return &v2ChunkReader{data: data, chunks: fr, failAt: o, failErr: e, once: once}, e.Error()
			}})
			// the same fault reported together with the last bytes before it, by a reader that then says EOF; and a reader
			// whose own error is io.ErrUnexpectedEOF (a truncated compressed stream): a failure, not the end of the input
			if k%3 == 0 && o > 0 {
				fr2 := []int{[]int{4096, 1024, 512, 1 << 20}[(k/3)%4]}
				vt.match(c, content, v2MatchOpts{api: "MatchFrom", reader: func(data []byte) (interface{ Read([]byte) (int, error) }, string) {
					return &v2ChunkReader{data: data, chunks: fr2, failAt: o, failErr: e, once: true, withErr: true}, e.Error()
				}})
				vt.match(c, content, v2MatchOpts{api: "MatchFrom", reader: func(data []byte) (interface{ Read([]byte) (int, error) }, string) {
					return &v2ChunkReader{data: data, chunks: fr2, failAt: o, failErr: io.ErrUnexpectedEOF, withErr: k%2 == 0}, io.ErrUnexpectedEOF.Error()
				}})
				// an error that wraps an end-of-file sentinel is an error (errors.Is would call it EOF)
				we := fmt.Errorf("verif transport fault at %d: %w", o, []error{io.EOF, io.ErrUnexpectedEOF}[k%2])
				vt.match(c, content, v2MatchOpts{api: "MatchFrom", reader: func(data []byte) (interface{ Read([]byte) (int, error) }, string) {
					return &v2ChunkReader{data: data, chunks: fr2, failAt: o, failErr: we, withErr: k%4 < 2}, we.Error()
				}})
			}
		}
		vt.reset(false)
	}
	// (4) calls that overlap in time, after calls that failed: two readers take turns, 1..200 bytes each, so that each call
	// is in the middle of filling its buffer while the other one reads and decodes; whatever a failed call left behind
	// (pooled buffers, ...) must not leak from one stream into the other.  Each result must be that of Match on the bytes.
	for rep := 0; rep < 6 && len(contents) >= 2; rep++ {
		a, b := contents[vt.rng.Intn(len(contents))], contents[vt.rng.Intn(len(contents))]
		if len(a) < 200 || len(b) < 200 {
			continue
		}
		for _, x := range [][]byte{a, b} {
			vt.emitMatch(c, x, vt.matchQuiet(c, x, "Match"), "c08ovl|"+v2Hash(x), "Match")
		}
		for k := 0; k < 1+rep%3; k++ {
			e := fmt.Errorf("verif reader fault before overlapping calls %d/%d", rep, k)
			c.c.MatchFrom(&v2ChunkReader{data: append([]byte(nil), a...), chunks: []int{64}, failAt: 64 * (k + 1), failErr: e, withErr: k%2 == 1})
		}
		alt := &v2Alt{}
		alt.cond = sync.NewCond(&alt.mu)
		var res [2]Results
		var errs [2]error
		var wg sync.WaitGroup
		for id, x := range [][]byte{a, b} {
			wg.Add(1)
			go func(id int, x []byte) {
				defer wg.Done()
				res[id], errs[id] = c.c.MatchFrom(&v2TurnReader{alt: alt, id: id, data: append([]byte(nil), x...), step: 1 + (rep*37+id*101)%200})
			}(id, x)
		}
		wg.Wait()
		for id, x := range [][]byte{a, b} {
			if errs[id] != nil {
				vt.emit(map[string]interface{}{"ev": "panic", "api": "MatchFrom", "msg": "a reader that never fails, overlapping with another call: " + errs[id].Error()})
				continue
			}
			vt.emitMatch(c, x, res[id], "c08ovl|"+v2Hash(x), "MatchFrom")
		}
		vt.reset(false)
	}
}

// v2TurnReader: two readers that deliver in turns (a reader whose peer has finished goes on alone).
type v2Alt struct {
	mu   sync.Mutex
	cond *sync.Cond
	turn int
	done [2]bool
}

type v2TurnReader struct {
	alt  *v2Alt
	id   int
	data []byte
	step int
}

func (r *v2TurnReader) Read(p []byte) (int, error) {
	a := r.alt
	a.mu.Lock()
	defer a.mu.Unlock()
	for a.turn != r.id && !a.done[1-r.id] {
		a.cond.Wait()
	}
	n := r.step
	if n > len(p) {
		n = len(p)
	}
	if n > len(r.data) {
		n = len(r.data)
	}
	copy(p, r.data[:n])
	r.data = r.data[n:]
	a.turn = 1 - r.id
	var err error
	if len(r.data) == 0 {
		a.done[r.id] = true
		err = io.EOF
	}
	a.cond.Broadcast()
	return n, err
}

// ---------------------------------------------------------------------------------------------
// C10: totality. Structure-aware mutation of license texts x thresholds x corpora.
func (vt *v2T) scenC10() {
	docs := v2Corpus()
	var small []v2Doc
	for _, d := range docs {
		if len(d.Data) < 1500 && len(small) < 3 {
			small = append(small, d)
		}
	}
	emptyDocs := []v2Doc{{Key: "License/Empty/license.txt", Cat: "License", Name: "Empty", Variant: "license.txt", Data: []byte("")},
		{Key: "License/OnlyNotice/license.txt", Cat: "License", Name: "OnlyNotice", Variant: "license.txt", Data: []byte("Copyright 2020 Nobody\n")},
		{Key: "License/Punct/license.txt", Cat: "License", Name: "Punct", Variant: "license.txt", Data: []byte("!!! --- ... ???\n")}}
	type corp struct {
		name string
		docs []v2Doc
	}
	// names are just strings: empty ones, "." and ".." (the index name is category/name/variant glued with the separator, never a path to clean)
	odd := func(cat, name, variant string, d v2Doc) v2Doc {
		return v2Doc{Key: cat + "/" + name + "/" + variant, Cat: cat, Name: name, Variant: variant, Data: d.Data}
	}
	oddDocs := []v2Doc{odd("", "mit", "", small[0]), odd("License", "..", "x", small[1]), odd(".", "x", ".", small[2])}
	corps := []corp{{"small", small}, {"empty", nil}, {"emptydoc", append(append([]v2Doc(nil), small[:1]...), emptyDocs...)}, {"oddnames", oddDocs}}
	thrs := []float64{0, 0.2, 0.5, 0.8, 0.9, 1.0, 1 - 1e-12, math.Nextafter(1, 0), 0.999}
	seeds := [][]byte{small[0].Data, small[1].Data}
	mut := func(b []byte) []byte {
		b = append([]byte(nil), b...)
		switch vt.rng.Intn(12) {
		case 0:
			return nil
		case 1:
			return bytes.Repeat([]byte("-\n"), 1+vt.rng.Intn(3000))
		case 2:
			return bytes.Repeat([]byte("\n"), 1+vt.rng.Intn(3000))
		case 3: // byte flips
			for k := 0; k < 1+vt.rng.Intn(20) && len(b) > 0; k++ {
				b[vt.rng.Intn(len(b))] ^= byte(1 << uint(vt.rng.Intn(8)))
			}
		case 4: // NUL / invalid UTF-8 splices
			for k := 0; k < 1+vt.rng.Intn(8) && len(b) > 0; k++ {
				p := vt.rng.Intn(len(b))
				b = append(b[:p], append([]byte{[]byte{0, 0xff, 0xc3, 0xe2, 0xf0, 0x80}[vt.rng.Intn(6)]}, b[p:]...)...)
			}
		case 5: // HTML entities, including malformed ones
			ents := []string{"&amp;", "&#xFFFFFFFF;", "&#0;", "&#x110000;", "&quot", "&;", "&#;", "&#x;", "&copy;", "&nbsp;", "&#1114112;", "&lt;&gt;",
				"\n&#41; ", "\n&rpar; ", "\n&#46; ", "\n&period; ", "\n&#58; ", "\n&colon; ", " &#41; ", "\n&#x29;\n", "\n&lpar; ", "\n&hyphen;\n", "\n&#45;\n"}
			for k := 0; k < 1+vt.rng.Intn(6) && len(b) > 0; k++ {
				p := vt.rng.Intn(len(b))
				b = append(b[:p], append([]byte(ents[vt.rng.Intn(len(ents))]), b[p:]...)...)
			}
		case 6: // a very long line
			return append(bytes.Repeat([]byte("word "), 200000), b...)
		case 7: // one long token
			return append(bytes.Repeat([]byte("x"), 1<<20), b...)
		case 8: // truncation near the buffer boundary at an arbitrary byte
			pad := bytes.Repeat([]byte("é"), 500+vt.rng.Intn(30))
			b = append(pad, b...)
			return b[:1015+vt.rng.Intn(14)]
		case 9: // words only punctuation / markers
			return []byte(strings.Repeat("1. a) iv. 3.1. (c) © § · * ", 1+vt.rng.Intn(50)))
		case 10: // hyphen storms inside words
			return []byte(strings.Replace(string(b), " ", "-\n", -1))
		default: // decorated + CRLF
			return []byte(strings.Replace(string(b), "\n", "\r\n// ", -1))
		}
		return b
	}
	nmut := 25
	if vt.thorough() {
		nmut = 300
	}
	var inputs [][]byte
	// storms of words broken over line ends that then end with their line; of hyphens over blank lines
	inputs = append(inputs, bytes.Repeat([]byte("a-\nb\n"), 1500), bytes.Repeat([]byte("co-\n\nop x-\ny\n\n"), 700), bytes.Repeat([]byte("w-\n"), 2500))
	inputs = append(inputs, nil, []byte(""), []byte("!!! ---"), []byte("\n"), []byte("-\n-\n"), []byte("Copyright 2020 X\n"), []byte("a"), []byte("\xff"), []byte("&"), []byte("("), []byte("(c)"),
		[]byte("&#41; first word is a lone parenthesis\n&period;\n&#58; and a colon &#41;\n"), []byte("&#41;"), []byte(")\n.\n:\n"))
	// the corpus documents themselves: the only inputs that still produce hits at thresholds next to 1
	inputs = append(inputs, seeds...)
	inputs = append(inputs, append(append([]byte("zzqxv qqzzk\n"), seeds[0]...), []byte("\nxqzvv\n")...))
	for _, d := range small { // ... and each of them with a word missing, a word added, a word replaced
		w := strings.Fields(string(d.Data))
		k := len(w) / 2
		inputs = append(inputs, []byte(strings.Join(append(append([]string(nil), w[:k]...), w[k+1:]...), " ")),
			[]byte(strings.Join(append(append(append([]string(nil), w[:k]...), "zzqxvaa"), w[k:]...), " ")),
			[]byte(strings.Join(append(append(append([]string(nil), w[:k]...), "zzqxvaa"), w[k+1:]...), " ")))
	}
	for k := 0; k < nmut; k++ {
		inputs = append(inputs, mut(seeds[vt.rng.Intn(len(seeds))]))
	}
	for ci, cp := range corps {
		for ti, thr := range thrs {
			c := vt.build(fmt.Sprintf("c10_%d_%d", ci, ti), thr, cp.docs)
			for _, in := range inputs {
				if (thr < 0.5 || (thr > 0.99 && thr < 1)) && len(in) > 4000 {
					continue // quadratic matching below 0.5 (q = 1), q-grams of ~1/(1-t) words next to 1: time/space complexity is not part of C10
				}
				vt.totalCall(c, in)
			}
			vt.reset(false)
		}
	}
	// the boundary to the diff library: (a) a comparison so large that go-diff runs into its deadline and answers "delete
	// everything, insert everything" -- at threshold 0 even that is a candidate; (b) more distinct words than there are
	// code points below the surrogates, with the word whose id is 10 (a line feed, as a rune) after every one of them
	{
		big := NewClassifier(0)
		bc := &v2C{"c10_deadline", big, 0}
		vt.emit(map[string]interface{}{"ev": "new", "c": bc.id})
		vt.add(bc, v2Doc{Key: "License/Lorem/license.txt", Cat: "License", Name: "Lorem", Variant: "license.txt",
			Data: []byte("preamble anchorone " + strings.Repeat("lorem ", 250000) + "anchortwo postamble\n")})
		vt.match(bc, []byte("anchorone "+strings.Repeat("ipsum ", 250000)+"anchortwo\n"), v2MatchOpts{})
		vt.reset(false)
		many := NewClassifier(0.8)
		mc := &v2C{"c10_manywords", many, 0.8}
		vt.emit(map[string]interface{}{"ev": "new", "c": mc.id})
		var sb strings.Builder
		word := func(i int) string {
			return fmt.Sprintf("mw%c%c%c%c", 'a'+i%26, 'a'+(i/26)%26, 'a'+(i/676)%26, 'a'+(i/17576)%26)
		}
		for i := 0; i < 9; i++ {
			sb.WriteString(word(i) + " ")
		}
		sb.WriteString("sep\n")
		for i := 9; i < 60000; i++ {
			sb.WriteString(word(i) + " sep")
			if i%6 == 5 {
				sb.WriteByte('\n')
			} else {
				sb.WriteByte(' ')
			}
		}
		doc := sb.String()
		vt.add(mc, v2Doc{Key: "License/Many/license.txt", Cat: "License", Name: "Many", Variant: "license.txt", Data: []byte(doc)})
		in := doc
		for _, i := range []int{1000, 20000, 33333, 50000, 59000} {
			in = strings.Replace(in, " "+word(i)+" ", " zzqxvaa ", 1)
		}
		vt.match(mc, []byte(in), v2MatchOpts{})
		vt.reset(false)
	}
	// the full corpus at the default threshold
	full := vt.build("c10_full", 0.8, docs)
	for _, in := range inputs {
		vt.totalCall(full, in)
	}
	for _, i := range vt.sample(len(docs), 10) {
		vt.totalCall(full, mut(docs[i].Data))
	}
	vt.reset(false)
}

// totalCall: Match, MatchFrom, Normalize and AddContent (on a scratch classifier) must return.
func (vt *v2T) totalCall(c *v2C, in []byte) {
	vt.match(c, in, v2MatchOpts{})
	vt.match(c, in, v2MatchOpts{api: "MatchFrom"})
	guard := func(api string, f func()) {
		defer vt.watch(c, api, in)()
		defer func() {
			if p := recover(); p != nil {
				vt.emit(map[string]interface{}{"ev": "panic", "c": c.id, "in": "", "api": api, "thr": c.thr, "panic": fmt.Sprint(p), "input_b64": vuB64(in), "hash": v2Hash(in)})
			}
		}()
		f()
	}
	guard("Normalize", func() {
		out := c.c.Normalize(in)
		// the normalized text keeps the lines of the input: it cannot have more of them (a run-away line counter would write
		// line ends without end)
		if no, ni := bytes.Count(out, []byte("\n")), bytes.Count(in, []byte("\n")); no > ni+1 {
			panic(fmt.Sprintf("Normalize wrote %d line ends for an input with %d", no, ni))
		}
	})
	guard("AddContent", func() {
		s := NewClassifier(c.thr)
		s.AddContent("License", "Scratch", "license.txt", in)
		if len(in) < 3000 {
			s.Match(in) // self-match of long repetitive inputs is quadratic: complexity is not part of C10
		}
	})
}
