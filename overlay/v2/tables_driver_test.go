//go:build verif

package classifier

// S1 (tables) driver: the spec's tables of list markers, interchangeable spellings and rewritten runes, printed entry
// by entry by specs/V2TokTables.tla, against the real header(), cleanupToken() and the tokenizer's rune mapping.

import (
	"encoding/json"
	"fmt"
	"os"
	"strings"
	"testing"
)

func TestVerifTablesReplay(t *testing.T) {
	out := vuOpenOut("VERIF_OUT")
	defer out.Close()
	n, bad := 0, 0
	fail := func(why string) {
		bad++
		if bad <= 8 {
			out.Emit(map[string]interface{}{"kind": "mismatch", "why": why})
		}
	}
	vuVectors(os.Getenv("VERIF_IN"), func(raw []byte) bool {
		var v struct {
			Hdr   [][]json.RawMessage `json:"hdr"`
			Inter [][][]string        `json:"inter"`
			Punct [][]json.RawMessage `json:"punct"`
			Dates [][]json.RawMessage `json:"dates"`
			Wrap  [][][][]string      `json:"wrapped"`
		}
		if json.Unmarshal(raw, &v) != nil || v.Hdr == nil {
			return true
		}
		for _, e := range v.Hdr {
			var w []string
			var sx [][]json.RawMessage
			json.Unmarshal(e[0], &w)
			json.Unmarshal(e[1], &sx)
			for _, p := range sx {
				var suf string
				var want bool
				json.Unmarshal(p[0], &suf)
				json.Unmarshal(p[1], &want)
				n++
				word := strings.Join(w, "") + suf
				if got := header(word); got != want {
					fail(fmt.Sprintf("header(%q) = %v, spec %v", word, got, want))
				}
			}
		}
		for _, e := range v.Inter { // from, Clean(from, normalize), Clean(from, not), Clean(to, normalize)
			n++
			from := strings.Join(e[0], "")
			if got, want := cleanupToken(1, from, true), strings.Join(e[1], ""); got != want {
				fail(fmt.Sprintf("cleanupToken(%q, normalize) = %q, spec %q", from, got, want))
			}
			if got, want := cleanupToken(1, from, false), strings.Join(e[2], ""); got != want {
				fail(fmt.Sprintf("cleanupToken(%q, keep) = %q, spec %q", from, got, want))
			}
			to := strings.Join(e[1], "")
			if got, want := cleanupToken(1, to, true), strings.Join(e[3], ""); got != want {
				fail(fmt.Sprintf("cleanupToken(%q, normalize) = %q, spec %q", to, got, want))
			}
		}
		for _, e := range v.Punct { // a rune in the middle of a digit-led word: what it turns into
			var sym string
			var rep []string
			json.Unmarshal(e[0], &sym)
			json.Unmarshal(e[1], &rep)
			n++
			src := "1" + string(vtBytes([]string{sym})) + "2"
			w, _, _, err := vtTokenize([]byte(src), true)
			// the spec's cleanup of the digit-led word 1 <rep> 2: digits, dots and hyphens stay, everything else (also the
			// blank that "*" and the middle dot are mapped to: it is written into the word, not between words) goes
			cur := "1"
			for _, c := range rep {
				c = vtText([]string{c})
				if c == "-" || c == "." || (c >= "0" && c <= "9") {
					cur += c
				}
			}
			want := []string{cur + "2"}
			if err != nil || strings.Join(w, "|") != strings.Join(want, "|") {
				fail(fmt.Sprintf("%q tokenises to %q (err %v), the spec's mapping %v gives %q", src, w, err, rep, want))
			}
		}
		for _, e := range v.Dates { // a line that is (or just is not) an ISO date, alone and between two words-bearing lines
			var l []string
			var want bool
			json.Unmarshal(e[0], &l)
			json.Unmarshal(e[1], &want)
			n++
			line := string(vtBytes(l))
			w, _, notes, err := vtTokenize([]byte("foo bar\n"+line+"\nbaz\n"), true)
			got := err == nil && len(notes) == 1 && notes[0] == 2 && strings.Join(w, "|") == "foo|bar|baz"
			if got != want {
				fail(fmt.Sprintf("the line %q: ignored as a date = %v (words %q, notices %v, err %v), spec %v", line, got, w, notes, err, want))
			}
		}
		for _, row := range v.Wrap { // a listed spelling with punctuation attached: cleanupToken directly, and through the tokenizer
			for _, e := range row {
				n++
				raw, want := string(vtBytes(e[0])), strings.Join(e[1], "")
				if got := cleanupToken(1, raw, true); got != want {
					fail(fmt.Sprintf("cleanupToken(%q, normalize) = %q, spec %q", raw, got, want))
				}
				if w, _, _, err := vtTokenize([]byte("foo "+raw+" bar\n"), true); err != nil || len(w) != 3 || w[1] != want {
					fail(fmt.Sprintf("%q tokenises to %q (err %v), spec: foo %s bar", "foo "+raw+" bar", w, err, want))
				}
			}
		}
		return true
	})
	out.Emit(map[string]interface{}{"kind": "summary", "vectors": n, "mismatches": bad})
}
