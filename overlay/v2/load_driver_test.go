//go:build verif

package classifier

// C12 driver: every (tree, spelling) enumerated by specs/V2Load.tla is materialised on disk and loaded
// with the real LoadLicenses; the resulting corpus must be the one AddContent builds from the files at
// category/name/variant depth.  A second test compares LoadLicenses on the real assets directory with
// per-file AddContent on every corpus document and scenario file.

import (
	"encoding/json"
	"fmt"
	"io/ioutil"
	"os"
	"path/filepath"
	"sort"
	"strings"
	"syscall"
	"testing"
)

type ldFile struct {
	Dir  []string `json:"dir"`
	Name string   `json:"name"`
}
type ldVec struct {
	Files    []ldFile   `json:"files"`
	Spelling string     `json:"spelling"`
	Mode     string     `json:"mode"`
	Equiv    bool       `json:"equiv"`
	Keys     [][]string `json:"keys"`
}

func ldContent(f ldFile) []byte {
	id := strings.NewReplacer("/", "", ".", "", "-", "").Replace(strings.Join(f.Dir, "") + f.Name)
	var ws []string
	for i := 0; i < 12; i++ {
		ws = append(ws, fmt.Sprintf("w%s%c", strings.ToLower(id), 'a'+i))
	}
	// the bytes of a file are the document: CRLF line ends (with a hyphen in front of one), a tab, bytes that are not
	// UTF-8, a byte order mark, trailing blanks -- whatever LoadLicenses does to them, AddContent must be given the same
	return []byte("\xef\xbb\xbf" + strings.Join(ws[:6], " ") + " hyph-\r\nenated " + strings.Join(ws[6:], " ") + "\r\nw" + strings.ToLower(id) + "tab\there \xff\xfe w" + strings.ToLower(id) + "end  \n")
}

const ldForeign = "a document of another directory that was registered by hand and is nobody's business here\n"

func ldKeys(c *Classifier) []string {
	var ks []string
	for k := range c.docs {
		ks = append(ks, filepath.ToSlash(k))
	}
	sort.Strings(ks)
	return ks
}

func ldProject(r Results) string {
	var sb strings.Builder
	fmt.Fprintf(&sb, "total=%d", r.TotalInputLines)
	for _, m := range r.Matches {
		fmt.Fprintf(&sb, " [%s/%s/%s %016x %d-%d %d-%d]", m.MatchType, m.Name, m.Variant, v2BitsU(m.Confidence), m.StartLine, m.EndLine, m.StartTokenIndex, m.EndTokenIndex)
	}
	return sb.String()
}

func TestVerifLoadReplay(t *testing.T) {
	out := vuOpenOut("VERIF_OUT")
	defer out.Close()
	root, err := ioutil.TempDir("", "verif-load-")
	if err != nil {
		t.Fatal(err)
	}
	defer os.RemoveAll(root)
	cwd, _ := os.Getwd()
	defer os.Chdir(cwd)
	if err := os.Chdir(root); err != nil {
		t.Fatal(err)
	}
	n, nontrivial, seq := 0, 0, 0
	shardI, shardN := vuEnvInt("VERIF_SHARD", 0), vuEnvInt("VERIF_SHARDS", 1)
	classes := map[string]int{}
	emitted := map[string]int{}
	var samples []json.RawMessage
	vuVectors(os.Getenv("VERIF_IN"), func(raw []byte) bool {
		var v ldVec
		if json.Unmarshal(raw, &v) != nil {
			return true
		}
		seq++
		if shardN > 1 && seq%shardN != shardI {
			return true
		}
		n++
		if len(v.Keys) > 0 {
			nontrivial++
			if len(samples) < 3 && nontrivial%900 == 1 {
				samples = append(samples, append([]byte(nil), raw...))
			}
		}
		os.Chdir(root)
		os.RemoveAll(filepath.Join(root, "corp"))
		os.MkdirAll(filepath.Join(root, "corp"), 0755)
		os.RemoveAll(filepath.Join(root, "store"))
		content := func(f ldFile) []byte { // what the file holds at the (last) load
			if v.Mode == "preempty" || v.Mode == "reloadempty" {
				return nil
			}
			return ldContent(f)
		}
		write := func(version string) {
			for i, f := range v.Files {
				d := filepath.Join(append([]string{root, "corp"}, f.Dir...)...)
				os.MkdirAll(d, 0755)
				data := append([]byte(version), content(f)...)
				if version != "" {
					data = append([]byte(version), ldContent(f)...)
				}
				if v.Mode == "links" {
					os.MkdirAll(filepath.Join(root, "store"), 0755)
					target := filepath.Join(root, "store", fmt.Sprintf("text%d", i))
					ioutil.WriteFile(target, data, 0644)
					os.Remove(filepath.Join(d, f.Name))
					if os.Symlink(target, filepath.Join(d, f.Name)) == nil {
						continue
					}
				}
				ioutil.WriteFile(filepath.Join(d, f.Name), data, 0644)
			}
		}
		dir := map[string]string{"plain": "corp", "trailing": "corp/", "dot": "./corp", "dottrailing": "./corp/", "absolute": filepath.Join(root, "corp"),
			"cwd": ".", "cwdslash": "./", "inner": "corp/.", "updown": "corp/../corp", "symlink": "corplink", "symlinktrailing": "corplink/"}[v.Spelling]
		os.Remove(filepath.Join(root, "corplink"))
		if strings.HasPrefix(v.Spelling, "symlink") {
			if err := os.Symlink("corp", filepath.Join(root, "corplink")); err != nil {
				return true // no symbolic links here: the spelling cannot be exercised
			}
		}
		if v.Mode == "txtdir" {
			os.MkdirAll(filepath.Join(root, "corp", "License", "x", "zz.txt"), 0755)
		}
		c := NewClassifier(0.8)
		why := ""
		load := func() {
			defer func() {
				if p := recover(); p != nil {
					why = fmt.Sprintf("panic: %v", p)
				}
			}()
			if v.Spelling == "cwd" || v.Spelling == "cwdslash" {
				os.Chdir(filepath.Join(root, "corp"))
				defer os.Chdir(root)
			}
			if e := c.LoadLicenses(dir); e != nil {
				why = "error: " + e.Error()
			}
		}
		switch v.Mode {
		case "pre", "preempty": // the keys of the tree, and a foreign one, already hold other documents
			for _, k := range v.Keys {
				c.AddContent(k[0], k[1], k[2], []byte("older words registered under this key before the directory was loaded\n"))
			}
			c.AddContent("License", "zz", "pre.txt", []byte(ldForeign))
		case "reload", "reloadempty": // the directory was loaded before, then its files were edited (or emptied)
			write("earlier edition of this file ")
			load()
		}
		write("")
		if why == "" {
			load()
		}
		class := ""
		if why != "" {
			class = "panic-or-error"
		} else if v.Equiv {
			var want []string
			for _, k := range v.Keys {
				want = append(want, strings.Join(k, "/"))
			}
			sort.Strings(want)
			if v.Mode == "pre" || v.Mode == "preempty" {
				want = append(want, "License/zz/pre.txt")
				sort.Strings(want)
			}
			got := ldKeys(c)
			if vuJS(got) != vuJS(want) && !(len(got) == 0 && len(want) == 0) {
				class, why = "keys", fmt.Sprintf("corpus keys %v, expected %v", got, want)
			} else {
				// equivalence with AddContent: same Match results on every file's content
				c2 := NewClassifier(0.8)
				if v.Mode == "pre" || v.Mode == "preempty" {
					c2.AddContent("License", "zz", "pre.txt", []byte(ldForeign))
				}
				for _, f := range v.Files {
					if len(f.Dir) == 2 && strings.HasSuffix(f.Name, "txt") {
						c2.AddContent(f.Dir[0], f.Dir[1], f.Name, content(f))
					}
				}
				for _, f := range v.Files {
					ins := [][]byte{ldContent(f), append([]byte("earlier edition of this file "), ldContent(f)...), []byte("older words registered under this key before the directory was loaded\n")}
					for _, x := range ins { // what the files hold, what they held at the first load, what the keys held before
						in := append(append([]byte("zzqxv qqzzk\n"), x...), []byte("xqzvv\n")...)
						if a, b := ldProject(c.Match(in)), ldProject(c2.Match(in)); a != b {
							class, why = "match", fmt.Sprintf("Match differs on %q (file %v): loaded %s, AddContent %s", x[:vuMin(len(x), 40)], f, a, b)
						}
					}
				}
			}
		}
		if class != "" {
			classes[class+":"+v.Spelling+":"+v.Mode]++
			if emitted[class+v.Spelling] < 2 {
				emitted[class+v.Spelling]++
				out.Emit(map[string]interface{}{"kind": "mismatch", "class": class, "spelling": v.Spelling + ":" + v.Mode, "why": why, "spec": json.RawMessage(raw)})
			}
		}
		return true
	})
	out.Emit(map[string]interface{}{"kind": "summary", "vectors": n, "nontrivial": nontrivial, "classes": classes, "samples": samples})
}

func v2BitsU(f float64) uint64 { return mathFloat64bits(f) }

// TestVerifLoadAssets: LoadLicenses on the real assets directory (absolute spelling) against per-file AddContent.
func TestVerifLoadAssets(t *testing.T) {
	out := vuOpenOut("VERIF_OUT")
	defer out.Close()
	docs := v2Corpus()
	abs, _ := filepath.Abs("assets")
	spellings := map[string]string{"plain": "assets", "dot": "./assets", "absolute": abs, "trailing": "assets/"}
	ref := NewClassifier(0.8)
	for _, d := range docs {
		ref.AddContent(d.Cat, d.Name, d.Variant, d.Data)
	}
	var inputs [][]byte
	for _, d := range docs {
		inputs = append(inputs, d.Data)
	}
	for _, b := range v2Scenarios() {
		inputs = append(inputs, b)
	}
	want := make([]string, len(inputs))
	for i, in := range inputs {
		want[i] = ldProject(ref.Match(in))
	}
	names := []string{"plain", "dot", "absolute", "trailing"}
	for _, sp := range names {
		c := NewClassifier(0.8)
		why := ""
		func() {
			defer func() {
				if p := recover(); p != nil {
					why = fmt.Sprintf("panic: %v", p)
				}
			}()
			if e := c.LoadLicenses(spellings[sp]); e != nil {
				why = "error: " + e.Error()
			}
		}()
		diffs := 0
		if why == "" {
			if a, b := vuJS(ldKeys(c)), vuJS(ldKeys(ref)); a != b {
				why = "corpus keys differ"
			}
			for i, in := range inputs {
				if got := ldProject(c.Match(in)); got != want[i] {
					diffs++
					if why == "" {
						why = fmt.Sprintf("Match differs: %s vs %s", got, want[i])
					}
				}
			}
		}
		out.Emit(map[string]interface{}{"kind": "assets", "spelling": sp, "docs": len(c.docs), "inputs": len(inputs), "diffs": diffs, "why": why})
	}
}

// TestVerifLoadBig: corpus files are documents whatever their size -- a file of 1.3 MiB (rulers and blank lines in front of a
// short text, so that matching stays cheap) loaded from disk against the same bytes given to AddContent; and the same
// corpus reached through a symbolic link in the middle of the path.
func TestVerifLoadBig(t *testing.T) {
	out := vuOpenOut("VERIF_OUT")
	defer out.Close()
	root, err := ioutil.TempDir("", "verif-loadbig-")
	if err != nil {
		t.Fatal(err)
	}
	defer os.RemoveAll(root)
	text := "the frobnicator may be used copied and distributed by anyone for any purpose provided that this notice stays with it\n"
	big := []byte(strings.Repeat("----------------------------------------------------------------\n\n", 21000) + text)
	os.MkdirAll(filepath.Join(root, "store", "corp", "License", "Big"), 0755)
	os.MkdirAll(filepath.Join(root, "store", "corp", "License", "Small"), 0755)
	ioutil.WriteFile(filepath.Join(root, "store", "corp", "License", "Big", "license.txt"), big, 0644)
	small := []byte("permission to tinker with the gizmo is granted to whoever holds a copy of it without any warranty at all\n")
	ioutil.WriteFile(filepath.Join(root, "store", "corp", "License", "Small", "license.txt"), small, 0644)
	ref := NewClassifier(0.8)
	ref.AddContent("License", "Big", "license.txt", big)
	ref.AddContent("License", "Small", "license.txt", small)
	inputs := [][]byte{[]byte("zzqxv qqzzk\n" + text + "xqzvv\n"), append([]byte("zzqxv\n"), small...), big}
	dirs := map[string]string{"plain": filepath.Join(root, "store", "corp")}
	if os.Symlink("store", filepath.Join(root, "link")) == nil {
		dirs["through-a-link"] = filepath.Join(root, "link", "corp")
	}
	for name, dir := range dirs {
		c := NewClassifier(0.8)
		why := ""
		func() {
			defer func() {
				if p := recover(); p != nil {
					why = fmt.Sprintf("panic: %v", p)
				}
			}()
			if e := c.LoadLicenses(dir); e != nil {
				why = "error: " + e.Error()
			}
		}()
		if why == "" {
			if a, b := vuJS(ldKeys(c)), vuJS(ldKeys(ref)); a != b {
				why = fmt.Sprintf("corpus keys %s, AddContent %s", a, b)
			}
			for _, in := range inputs {
				if a, b := ldProject(c.Match(in)), ldProject(ref.Match(in)); a != b && why == "" {
					why = fmt.Sprintf("Match differs: loaded %s, AddContent %s", a, b)
				}
			}
		}
		out.Emit(map[string]interface{}{"kind": "big", "spelling": name, "bytes": len(big), "why": why})
	}
}

// TestVerifLoadEdges: (1) "never panics on any directory tree" includes the trees that are not there -- a directory that does not
// exist, the empty string, a regular file given as the directory: an error or nothing loaded, never a panic; (2) a corpus of
// more files than the process may hold open at once (the soft limit is lowered around the call) loads like any other.
func TestVerifLoadEdges(t *testing.T) {
	out := vuOpenOut("VERIF_OUT")
	defer out.Close()
	root, err := ioutil.TempDir("", "verif-loadedges-")
	if err != nil {
		t.Fatal(err)
	}
	defer os.RemoveAll(root)
	ioutil.WriteFile(filepath.Join(root, "plainfile.txt"), []byte("some words in a file that is not a directory\n"), 0644)
	os.MkdirAll(filepath.Join(root, "emptydir"), 0755)
	for name, dir := range map[string]string{"missing": filepath.Join(root, "nowhere"), "empty-string": "", "file-as-directory": filepath.Join(root, "plainfile.txt"),
		"missing-below-a-file": filepath.Join(root, "plainfile.txt", "x"), "empty-directory": filepath.Join(root, "emptydir"), "missing-with-separator": filepath.Join(root, "nowhere") + string(os.PathSeparator)} {
		c := NewClassifier(0.8)
		c.AddContent("License", "Before", "license.txt", []byte("a document that was there before the load and stays there after it\n"))
		why := ""
		func() {
			defer func() {
				if p := recover(); p != nil {
					why = fmt.Sprintf("panic: %v", p)
				}
			}()
			c.LoadLicenses(dir) // an error is fine
		}()
		if why == "" && vuJS(ldKeys(c)) != vuJS([]string{"License/Before/license.txt"}) {
			why = fmt.Sprintf("corpus keys %v after loading a directory that holds nothing", ldKeys(c))
		}
		out.Emit(map[string]interface{}{"kind": "edge", "spelling": name, "why": why})
	}
	// (2)
	corp := filepath.Join(root, "many")
	ref := NewClassifier(0.8)
	const nfiles = 300
	var texts []string
	for i := 0; i < nfiles; i++ {
		txt := fmt.Sprintf("license number %d grants holder%d the right to use module%d under condition%d and nothing else whatsoever\n", i, i, i, i)
		texts = append(texts, txt)
		d := filepath.Join(corp, "License", fmt.Sprintf("L%03d", i))
		os.MkdirAll(d, 0755)
		ioutil.WriteFile(filepath.Join(d, "license.txt"), []byte(txt), 0644)
		ref.AddContent("License", fmt.Sprintf("L%03d", i), "license.txt", []byte(txt))
	}
	var lim syscall.Rlimit
	why := ""
	if err := syscall.Getrlimit(syscall.RLIMIT_NOFILE, &lim); err != nil {
		why = "skipped: " + err.Error()
	} else {
		low := lim
		low.Cur = 128
		if low.Cur > lim.Max {
			low.Cur = lim.Max
		}
		syscall.Setrlimit(syscall.RLIMIT_NOFILE, &low)
		c := NewClassifier(0.8)
		var lerr error
		func() {
			defer func() {
				if p := recover(); p != nil {
					why = fmt.Sprintf("panic: %v", p)
				}
			}()
			lerr = c.LoadLicenses(corp)
		}()
		syscall.Setrlimit(syscall.RLIMIT_NOFILE, &lim)
		if why == "" && lerr != nil {
			why = fmt.Sprintf("LoadLicenses of %d small files with %d descriptors allowed: %v", nfiles, low.Cur, lerr)
		}
		if why == "" && vuJS(ldKeys(c)) != vuJS(ldKeys(ref)) {
			why = fmt.Sprintf("%d documents loaded, %d files", len(ldKeys(c)), nfiles)
		}
		for _, i := range []int{0, 127, 128, 129, nfiles - 1} {
			in := []byte("zzqxv qqzzk\n" + texts[i] + "xqzvv\n")
			if a, b := ldProject(c.Match(in)), ldProject(ref.Match(in)); a != b && why == "" {
				why = fmt.Sprintf("Match on file %d's text differs: loaded %s, AddContent %s", i, a, b)
			}
		}
	}
	out.Emit(map[string]interface{}{"kind": "edge", "spelling": "more-files-than-descriptors", "why": why})
}
