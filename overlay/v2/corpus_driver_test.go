//go:build verif

package classifier

// S3 (long-lived state) driver: every history of calls printed by specs/V2Corpus.tla, replayed on a real Classifier; after every
// call the dictionary (word by id) and the documents (token ids by index name) must be the specification's.

import (
	"encoding/json"
	"fmt"
	"os"
	"sort"
	"strings"
	"testing"
)

type crStep struct {
	Op    string   `json:"op"`
	K     string   `json:"k"`
	T     []string `json:"t"`
	After struct {
		Dict []string        `json:"dict"`
		Docs json.RawMessage `json:"docs"` // an object; TLC prints the empty function as []
	} `json:"after"`
}

func crState(c *Classifier) (dict []string, docs map[string][]int, why string) {
	for i := 1; i <= len(c.dict.words); i++ {
		w, ok := c.dict.words[tokenID(i)]
		if !ok {
			return nil, nil, fmt.Sprintf("the dictionary has %d words but no word number %d", len(c.dict.words), i)
		}
		if c.dict.indices[w] != tokenID(i) {
			return nil, nil, fmt.Sprintf("word %d is %q, whose index is %d", i, w, c.dict.indices[w])
		}
		dict = append(dict, w)
	}
	if len(c.dict.indices) != len(c.dict.words) {
		return nil, nil, fmt.Sprintf("%d words, %d indices", len(c.dict.words), len(c.dict.indices))
	}
	docs = map[string][]int{}
	for k, d := range c.docs {
		ids := []int{}
		for _, t := range d.Tokens {
			ids = append(ids, int(t.ID))
		}
		docs[k] = ids
	}
	return dict, docs, ""
}

func TestVerifCorpusReplay(t *testing.T) {
	out := vuOpenOut("VERIF_OUT")
	defer out.Close()
	n, bad, steps := 0, 0, 0
	sep := string(os.PathSeparator)
	vuVectors(os.Getenv("VERIF_IN"), func(raw []byte) bool {
		var hist []crStep
		if json.Unmarshal(raw, &hist) != nil || len(hist) == 0 || hist[0].Op == "" {
			return true
		}
		n++
		c := NewClassifier(0.8)
		for si, st := range hist {
			text := []byte(strings.Join(st.T, " ") + "\n")
			switch st.Op {
			case "add":
				c.AddContent("License", st.K, "license.txt", text)
			case "norm":
				c.Normalize(text)
			case "match":
				c.Match(text)
			default:
				continue
			}
			steps++
			dict, docs, why := crState(c)
			want := map[string][]int{}
			specDocs := map[string][]int{}
			json.Unmarshal(st.After.Docs, &specDocs)
			for k, ids := range specDocs {
				if ids == nil {
					ids = []int{}
				}
				want["License"+sep+k+sep+"license.txt"] = ids
			}
			if why == "" && vuJS(dict) != vuJS(st.After.Dict) && !(len(dict) == 0 && len(st.After.Dict) == 0) {
				why = fmt.Sprintf("dictionary %v, the specification has %v", dict, st.After.Dict)
			}
			if why == "" {
				var ks []string
				for k := range docs {
					ks = append(ks, k)
				}
				sort.Strings(ks)
				if len(docs) != len(want) {
					why = fmt.Sprintf("documents %v, the specification has %v", ks, want)
				}
				for _, k := range ks {
					if vuJS(docs[k]) != vuJS(want[k]) {
						why = fmt.Sprintf("document %s holds the ids %v, the specification %v", k, docs[k], want[k])
					}
				}
			}
			if why != "" {
				bad++
				if bad <= 6 {
					out.Emit(map[string]interface{}{"kind": "mismatch", "why": fmt.Sprintf("after call %d of the history: %s", si+1, why), "history": json.RawMessage(raw)})
				}
				break
			}
		}
		return true
	})
	out.Emit(map[string]interface{}{"kind": "summary", "vectors": n, "steps": steps, "mismatches": bad})
}
