//go:build verif

package classifier

// S2 (channel) driver: every id enumerated by specs/V2Runes.tla goes through the real idToRune / runeToID,
// through Go's string([]rune) conversion and through go-diff, and must come back as the spec says.

import (
	"encoding/json"
	"fmt"
	"os"
	"testing"

	"github.com/sergi/go-diff/diffmatchpatch"
)

func TestVerifRunesReplay(t *testing.T) {
	out := vuOpenOut("VERIF_OUT")
	defer out.Close()
	n, bad := 0, 0
	var ids []int
	fail := func(id int, why string) {
		bad++
		if bad <= 5 {
			out.Emit(map[string]interface{}{"kind": "mismatch", "id": id, "why": why})
		}
	}
	vuVectors(os.Getenv("VERIF_IN"), func(raw []byte) bool {
		var v struct {
			ID   *int `json:"id"`
			R    int  `json:"r"`
			Back int  `json:"back"`
		}
		if json.Unmarshal(raw, &v) != nil || v.ID == nil {
			return true
		}
		n++
		id := *v.ID
		ids = append(ids, id)
		r := idToRune(tokenID(id))
		if int(r) != v.R {
			fail(id, fmt.Sprintf("idToRune = %#x, spec %#x", r, v.R))
			return true
		}
		through := []rune(string([]rune{r}))
		if len(through) != 1 || int(runeToID(through[0])) != v.Back {
			fail(id, fmt.Sprintf("id comes back from string([]rune) as %v, spec %d", through, v.Back))
		}
		return true
	})
	// through go-diff: a substitution between any two explored ids is a substitution of exactly those ids
	dmp := diffmatchpatch.New()
	for i := 0; i+1 < len(ids); i++ {
		a, b := ids[i], ids[i+1]
		ctx := []rune{idToRune(1), idToRune(2), idToRune(3)}
		t1 := append(append(append([]rune(nil), ctx...), idToRune(tokenID(a))), ctx...)
		t2 := append(append(append([]rune(nil), ctx...), idToRune(tokenID(b))), ctx...)
		var del, ins []int
		for _, d := range dmp.DiffMainRunes(t1, t2, false) {
			for _, r := range []rune(d.Text) {
				switch d.Type {
				case diffmatchpatch.DiffDelete:
					del = append(del, int(runeToID(r)))
				case diffmatchpatch.DiffInsert:
					ins = append(ins, int(runeToID(r)))
				}
			}
		}
		if a == b {
			continue
		}
		if len(del) != 1 || len(ins) != 1 || del[0] != a || ins[0] != b {
			fail(a, fmt.Sprintf("go-diff of id %d against id %d: deleted %v inserted %v", a, b, del, ins))
		}
	}
	out.Emit(map[string]interface{}{"kind": "summary", "vectors": n, "pairs": len(ids) - 1, "mismatches": bad})
}
