//go:build verif

package classifier

// S2 driver: every (document, input) pair enumerated by specs/V2Match.tla is built from real words and
// pushed through the real stage functions (tokenSimilarity, targetMatchedRanges, detectRuns, fuseRanges,
// findPotentialMatches); each stage's output is compared with the spec's.

import (
	"encoding/json"
	"fmt"
	"io/ioutil"
	"math"
	"os"
	"strconv"
	"strings"
	"testing"
)

var mdWords = map[int]string{0: "zzqxoov", 1: "alpha", 2: "bravo", 3: "charlie", 4: "delta"}

type mdVec struct {
	K, T []int
	Pre  bool
	M    [][5]int
	Runs [][2]int
	F    [][5]int
	C    [][5]int
}

func mdText(ws []int) []byte {
	var s []string
	for _, w := range ws {
		s = append(s, mdWords[w])
	}
	return []byte(strings.Join(s, " "))
}

func mdTup(m *matchRange) [5]int {
	return [5]int{m.TargetStart, m.TargetEnd, m.SrcStart, m.SrcEnd, m.TokensClaimed}
}

func TestVerifMatchReplay(t *testing.T) {
	out := vuOpenOut("VERIF_OUT")
	defer out.Close()
	thr, _ := strconv.ParseFloat(os.Getenv("VERIF_THR"), 64)
	// the tables the spec was generated with must be what the code's expressions give here
	var tabs map[string]struct {
		T      float64
		Q      int
		Need   []int
		Margin []int
	}
	b, _ := ioutil.ReadFile(os.Getenv("VERIF_TABLES"))
	json.Unmarshal(b, &tabs)
	tab := tabs[os.Getenv("VERIF_TABNAME")]
	q := 10
	if thr != 1.0 {
		q = int(thr / (1.0 - thr))
		if q < 1 {
			q = 1
		}
	}
	okTab := tab.T == thr && tab.Q == q
	for n := range tab.Need {
		if tab.Need[n] != int(thr*float64(n)) || tab.Margin[n] != int(math.Round(float64(n)*(1.0-thr))) {
			okTab = false
		}
	}
	if !okTab {
		out.Emit(map[string]interface{}{"kind": "tables", "why": "threshold tables of the spec differ from the float expressions evaluated here"})
		return
	}
	const W = 12
	type acc struct {
		n, nontrivial, bad int
		samples            []json.RawMessage
	}
	accs := make([]*acc, W)
	for i := range accs {
		accs[i] = &acc{}
	}
	vuParallel(os.Getenv("VERIF_IN"), W, func(w int, line []byte) {
		a := accs[w]
		raw := vuDecode(line)
		if raw == nil {
			return
		}
		var v mdVec
		if json.Unmarshal(raw, &v) != nil || len(v.K) == 0 {
			return
		}
		a.n++
		if len(v.F) > 0 {
			a.nontrivial++
			if len(a.samples) < 1 && a.nontrivial%400 == 7 {
				a.samples = append(a.samples, append([]byte(nil), raw...))
			}
		}
		why := ""
		func() {
			defer func() {
				if p := recover(); p != nil {
					why = fmt.Sprintf("panic: %v", p)
				}
			}()
			c := NewClassifier(thr)
			c.AddContent("License", "K", "k.txt", mdText(v.K))
			d := c.docs[c.generateDocName("License", "K", "k.txt")]
			id := c.createTargetIndexedDocument(mdText(v.T))
			if len(id.Tokens) != len(v.T) || len(d.Tokens) != len(v.K) {
				why = "driver: word mapping broke"
				return
			}
			if c.q != q {
				why = fmt.Sprintf("q = %d, spec %d", c.q, q)
				return
			}
			if pre := id.tokenSimilarity(d) >= thr; pre != v.Pre {
				why = fmt.Sprintf("prefilter %v, spec %v", pre, v.Pre)
				return
			}
			id.generateSearchSet(c.q)
			cmp := func(stage string, got matchRanges, want [][5]int) bool {
				var g [][5]int
				for _, m := range got {
					g = append(g, mdTup(m))
				}
				if vuJS(g) != vuJS(want) && !(len(g) == 0 && len(want) == 0) {
					why = fmt.Sprintf("%s: %v, spec %v", stage, g, want)
					return false
				}
				return true
			}
			matched := targetMatchedRanges(d.s, id.s)
			if !cmp("targetMatchedRanges", matched, v.M) {
				return
			}
			if len(matched) > 0 {
				runs := c.detectRuns("k", matched, len(id.s.Tokens), len(d.s.Tokens), thr, d.s.q)
				var gr [][2]int
				for _, r := range runs {
					gr = append(gr, [2]int{r.SrcStart, r.SrcEnd})
				}
				if vuJS(gr) != vuJS(v.Runs) && !(len(gr) == 0 && len(v.Runs) == 0) {
					why = fmt.Sprintf("detectRuns: %v, spec %v", gr, v.Runs)
					return
				}
				if len(runs) > 0 {
					fused := c.fuseRanges("k", matched, thr, len(d.s.Tokens), runs, len(id.s.Tokens))
					if !cmp("fuseRanges", fused, v.F) {
						return
					}
				}
			}
			// the whole stage again from scratch (fuseRanges mutated the ranges above)
			id2 := c.createTargetIndexedDocument(mdText(v.T))
			id2.generateSearchSet(c.q)
			cmp("findPotentialMatches", c.findPotentialMatches(d.s, id2.s, thr), v.C)
		}()
		if why != "" {
			a.bad++
			if a.bad <= 3 {
				out.Emit(map[string]interface{}{"kind": "mismatch", "why": why, "thr": thr, "spec": json.RawMessage(raw)})
			}
		}
	})
	tot := &acc{}
	for _, a := range accs {
		tot.n += a.n
		tot.nontrivial += a.nontrivial
		tot.bad += a.bad
		tot.samples = append(tot.samples, a.samples...)
	}
	out.Emit(map[string]interface{}{"kind": "summary", "vectors": tot.n, "nontrivial": tot.nontrivial, "mismatches": tot.bad, "thr": thr, "samples": tot.samples})
}
