//go:build verif

package classifier

// S2 (scoring half) driver: every edit script enumerated by specs/V2Score.tla is handed to the real
// scoreDiffs, diffLevenshteinWord, textLength and diffRange; results compared with the spec.

import (
	"encoding/json"
	"fmt"
	"os"
	"strings"
	"testing"

	"github.com/sergi/go-diff/diffmatchpatch"
)

type sdVec struct {
	Ops  [][]json.RawMessage `json:"ops"`
	Sc   map[string]int      `json:"sc"`
	Cost int                 `json:"cost"`
	Tl   int                 `json:"tl"`
	Rg   [][2]int            `json:"rg"`
}

var sdKnowns = [][]string{{"a"}, {"gnu", "lesser"}, {"a", "a"}, {"version", "2.0"}, {"gnu", "library", "a"}}

func TestVerifScoreReplay(t *testing.T) {
	out := vuOpenOut("VERIF_OUT")
	defer out.Close()
	n, nontrivial, bad := 0, 0, 0
	var samples []json.RawMessage
	vuVectors(os.Getenv("VERIF_IN"), func(raw []byte) bool {
		var v sdVec
		if json.Unmarshal(raw, &v) != nil || v.Sc == nil {
			return true
		}
		n++
		var diffs []diffmatchpatch.Diff
		for _, o := range v.Ops {
			var ty string
			var ws []string
			json.Unmarshal(o[0], &ty)
			json.Unmarshal(o[1], &ws)
			op := diffmatchpatch.DiffEqual
			if ty == "-" {
				op = diffmatchpatch.DiffDelete
			} else if ty == "+" {
				op = diffmatchpatch.DiffInsert
			}
			diffs = append(diffs, diffmatchpatch.Diff{Type: op, Text: strings.Join(ws, " ")})
		}
		veto := false
		why := ""
		func() {
			defer func() {
				if p := recover(); p != nil {
					why = fmt.Sprintf("panic: %v", p)
				}
			}()
			for name, want := range v.Sc {
				if want < 0 {
					veto = true
				}
				if got := scoreDiffs("License/"+name+"/license.txt", diffs); got != want {
					why = fmt.Sprintf("scoreDiffs(%s) = %d, spec %d", name, got, want)
					return
				}
			}
			if got := diffLevenshteinWord(diffs); got != v.Cost {
				why = fmt.Sprintf("diffLevenshteinWord = %d, spec %d", got, v.Cost)
				return
			}
			if got := textLength(diffs); got != v.Tl {
				why = fmt.Sprintf("textLength = %d, spec %d", got, v.Tl)
				return
			}
			for k, kn := range sdKnowns {
				s, e := diffRange(strings.Join(kn, " "), diffs)
				if k < len(v.Rg) && (s != v.Rg[k][0] || e != v.Rg[k][1]) {
					why = fmt.Sprintf("diffRange(%q) = [%d,%d), spec %v", strings.Join(kn, " "), s, e, v.Rg[k])
					return
				}
			}
			// confidencePercentage on the cost
			if c := confidencePercentage(5, v.Cost); v.Cost <= 5 && c != 1.0-float64(v.Cost)/5.0 {
				why = fmt.Sprintf("confidencePercentage(5, %d) = %v", v.Cost, c)
			}
		}()
		if veto {
			nontrivial++
			if len(samples) < 3 && nontrivial%300 == 1 {
				samples = append(samples, append([]byte(nil), raw...))
			}
		}
		if why != "" {
			bad++
			if bad <= 6 {
				out.Emit(map[string]interface{}{"kind": "mismatch", "why": why, "spec": json.RawMessage(raw)})
			}
		}
		return true
	})
	out.Emit(map[string]interface{}{"kind": "summary", "vectors": n, "nontrivial": nontrivial, "mismatches": bad, "samples": samples})
}
