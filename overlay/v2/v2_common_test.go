//go:build verif

package classifier

// Infrastructure of the v2 trace drivers (leg T): builds classifiers from the corpus files, calls the
// real API, projects results to the abstract events of specs/V2Contract.tla and writes NDJSON.

import (
	"bytes"
	"crypto/sha256"
	"encoding/hex"
	"fmt"
	"io/ioutil"
	"math"
	"math/rand"
	"os"
	"path/filepath"
	"sort"
	"strings"
	"sync/atomic"
	"time"

	"github.com/sergi/go-diff/diffmatchpatch"
)

type v2Doc struct {
	Key, Cat, Name, Variant string
	Data                    []byte
}

var v2CorpusCache []v2Doc

// v2Corpus reads assets/<cat>/<name>/<variant> directly (independent of LoadLicenses).
func v2Corpus() []v2Doc {
	if v2CorpusCache != nil {
		return v2CorpusCache
	}
	var docs []v2Doc
	filepath.Walk("assets", func(p string, info os.FileInfo, err error) error {
		if err != nil || info.IsDir() || !strings.HasSuffix(p, ".txt") {
			return nil
		}
		seg := strings.Split(filepath.ToSlash(p), "/")
		if len(seg) != 4 {
			return nil
		}
		b, e := ioutil.ReadFile(p)
		if e != nil {
			panic(e)
		}
		docs = append(docs, v2Doc{Key: seg[1] + "/" + seg[2] + "/" + seg[3], Cat: seg[1], Name: seg[2], Variant: seg[3], Data: b})
		return nil
	})
	sort.Slice(docs, func(i, j int) bool { return docs[i].Key < docs[j].Key })
	if len(docs) < 400 {
		panic(fmt.Sprintf("verif: only %d corpus documents found under assets/", len(docs)))
	}
	v2CorpusCache = docs
	return docs
}

func v2Scenarios() map[string][]byte {
	out := map[string][]byte{}
	files, _ := ioutil.ReadDir("scenarios")
	for _, f := range files {
		if f.IsDir() || f.Name() == "README.md" {
			continue
		}
		b, err := ioutil.ReadFile(filepath.Join("scenarios", f.Name()))
		if err == nil {
			// scenario files carry a header line "EXPECTED:..." then the text
			if i := bytes.IndexByte(b, '\n'); i >= 0 && bytes.HasPrefix(b, []byte("EXPECTED")) {
				b = b[i+1:]
			}
			out[f.Name()] = b
		}
	}
	return out
}

type v2T struct {
	aliasOf map[string]string // C01: document key -> key of a document with the same words
	byKey   map[string]v2Doc
	out     *vuWriter
	nIn     int
	rng     *rand.Rand
	tier    string
	held    []v2Held // results handed out earlier: they are the caller's now
}

type v2Held struct{ got, want []byte }

// normalize calls the real Normalize on a private copy of src and emits its event.  The result belongs to the caller: it is
// kept (the very slice, next to a copy of its content), and every later Normalize event says whether all results handed out so
// far still read as they did when they were returned.
func (t *v2T) normalize(c *v2C, src []byte) []byte {
	cp := v2Spare(src)
	d0, w0 := len(c.c.docs), len(c.c.dict.words)
	norm := c.c.Normalize(cp)
	held := true
	for _, h := range t.held {
		if !bytes.Equal(h.got, h.want) {
			held = false
		}
	}
	if !held {
		t.held = nil
	}
	if len(t.held) >= 48 {
		t.held = t.held[1:]
	}
	t.held = append(t.held, v2Held{norm, append([]byte(nil), norm...)})
	t.emit(map[string]interface{}{"ev": "norm", "c": c.id, "unchanged": v2Intact(cp, src), "held": held, "docs": []int{d0, len(c.c.docs)}, "dict": []int{w0, len(c.c.dict.words)}})
	return norm
}

func newRand(seed int64) *rand.Rand { return rand.New(rand.NewSource(seed)) }

func newV2T() *v2T {
	seed := vuSeed()*1000003 + int64(vuEnvInt("VERIF_PROC", 0))
	t := &v2T{out: vuOpenOut("VERIF_OUT"), rng: rand.New(rand.NewSource(seed)), tier: os.Getenv("VERIF_TIER")}
	seen := map[string]bool{}
	v2OnTokErr = func(err error, data []byte) {
		if h := v2Hash(data); !seen[h] {
			seen[h] = true
			t.emit(map[string]interface{}{"ev": "panic", "api": "tokenizeStream", "panic": "error from an in-memory reader: " + err.Error(), "len": len(data), "hash": h, "input_b64": vuB64(data[:vuMin(len(data), 512)])})
		}
	}
	return t
}

func (t *v2T) thorough() bool                { return t.tier == "thorough" }
func (t *v2T) emit(m map[string]interface{}) { t.out.Emit(m) }

// reset drops the per-input state of the trace spec (last results, plants, scores); the corpus of the
// classifiers is kept unless all is set.
func (t *v2T) reset(keepMemo bool) {
	t.emit(map[string]interface{}{"ev": "reset", "keepmemo": keepMemo, "keepcorpus": true})
}

// watch arms a watchdog for one call of the real API: if it does not return within the limit, a
// `timeout` event is written, the trace flushed and the process ended (the call cannot be interrupted).
func (t *v2T) watch(c *v2C, api string, data []byte) func() {
	limit := time.Duration(vuEnvInt("VERIF_CALL_TIMEOUT", 90)) * time.Second
	tm := time.AfterFunc(limit, func() {
		t.emit(map[string]interface{}{"ev": "timeout", "c": c.id, "api": api, "thr": c.thr, "limit_s": limit.Seconds(), "len": len(data),
			"input_b64": vuB64(data[:vuMin(len(data), 4096)]), "hash": v2Hash(data)})
		t.out.Flush()
		os.Exit(3)
	})
	return func() { tm.Stop() }
}

func vuMin(a, b int) int {
	if a < b {
		return a
	}
	return b
}

func (t *v2T) newIn() string { t.nIn++; return fmt.Sprintf("i%d", t.nIn) }

func v2Hash(b []byte) string { h := sha256.Sum256(b); return hex.EncodeToString(h[:8]) }

type v2C struct {
	id  string
	c   *Classifier
	thr float64
}

// build creates a classifier and adds docs through the public AddContent, emitting new/add events.
func (t *v2T) build(id string, thr float64, docs []v2Doc) *v2C {
	c := NewClassifier(thr)
	t.emit(map[string]interface{}{"ev": "new", "c": id})
	for _, d := range docs {
		t.add(&v2C{id, c, thr}, d)
	}
	return &v2C{id, c, thr}
}

func (t *v2T) add(c *v2C, d v2Doc) {
	cp := v2Spare(d.Data)
	d0, w0 := len(c.c.docs), len(c.c.dict.words)
	c.c.AddContent(d.Cat, d.Name, d.Variant, cp)
	t.emit(map[string]interface{}{"ev": "add", "c": c.id, "key": d.Key, "unchanged": v2Intact(cp, d.Data),
		"docs": []int{d0, len(c.c.docs)}, "dict": []int{w0, len(c.c.dict.words)}})
}

func mathFloat64bits(f float64) uint64 { return math.Float64bits(f) }

func v2Bits(f float64) string { return fmt.Sprintf("%016x", math.Float64bits(f)) }

// ranks maps each float to its rank among the sorted distinct values.
func v2Ranks(vals []float64) map[float64]int {
	s := append([]float64(nil), vals...)
	sort.Float64s(s)
	r := map[float64]int{}
	n := 0
	for i, v := range s {
		if i == 0 || v != s[i-1] {
			n++
		}
		r[v] = n
	}
	return r
}

// whitebox tokenisation of an input against the classifier's dictionary (what match() sees).
func (c *v2C) tokens(data []byte) *indexedDocument {
	doc, err := tokenizeStream(bytes.NewReader(data), true, c.c.dict, false)
	if err != nil {
		// the tokenizer "will never return an error of its own": an in-memory reader does not fail.  Reported once, as a call
		// that did not complete (C10); the white-box view of this input is empty.
		if v2OnTokErr != nil {
			v2OnTokErr(err, data)
			return &indexedDocument{}
		}
		panic(err)
	}
	return doc
}

var v2OnTokErr func(err error, data []byte)

type v2MatchOpts struct {
	memo   string // memo key ("" = none)
	scored bool   // record score() calls through the hook and require every match to be backed by one
	api    string // "Match" (default) or "MatchFrom"
	reader func(data []byte) (r interface{ Read([]byte) (int, error) }, want string)
	quiet  bool // do not emit, only return the projection
	retain bool // record the retain loop through the hook (sorted candidates, decisions) for TraceV2.RetainRet
}

type v2Res struct {
	In      string
	Ms      []map[string]interface{}
	Total   int
	Results Results
	Panic   string
}

// match calls the real Match/MatchFrom and emits the match (or fail / panic) event. Returns the input id.
func (t *v2T) match(c *v2C, data []byte, o v2MatchOpts) *v2Res {
	in := t.newIn()
	res := &v2Res{In: in}
	// the callee gets a slice with spare capacity (as buf[:n] of a larger buffer is): the bytes behind its length belong
	// to the caller as well
	cp := v2Spare(data)
	d0, w0 := len(c.c.docs), len(c.c.dict.words)
	var scoreEvents []map[string]interface{}
	var wdoc *indexedDocument
	if o.scored {
		wdoc = c.tokens(data)
		VerifSink = func(ev string, kv ...interface{}) {
			if ev != "score" {
				return
			}
			m := map[string]interface{}{}
			for i := 0; i+1 < len(kv); i += 2 {
				m[kv[i].(string)] = kv[i+1]
			}
			scoreEvents = append(scoreEvents, t.scoreEvent(c, in, wdoc, m))
		}
		defer func() { VerifSink = nil }()
	}
	var retainEv map[string]interface{}
	if o.retain && !o.scored {
		VerifSink = func(ev string, kv ...interface{}) {
			if ev != "retain" {
				return
			}
			var cands Matches
			var bits []bool
			for i := 0; i+1 < len(kv); i += 2 {
				switch kv[i] {
				case "cands":
					cands = kv[i+1].(Matches)
				case "retain":
					bits = kv[i+1].([]bool)
				}
			}
			if len(cands) == 0 || len(cands) > 80 {
				return
			}
			retainEv = v2RetainEvent(in, cands, bits)
		}
		defer func() { VerifSink = nil }()
	}
	var r Results
	var err error
	want := ""
	t0 := time.Now()
	defer t.watch(c, "Match", data)()
	defer func() {
		if d := time.Since(t0); d > 2*time.Second && os.Getenv("VERIF_DEBUG") != "" {
			fmt.Fprintf(os.Stderr, "[slow] %s thr=%v len=%d %v\n", c.id, c.thr, len(data), d)
		}
	}()
	func() {
		defer func() {
			if p := recover(); p != nil {
				res.Panic = fmt.Sprint(p)
			}
		}()
		if o.reader != nil {
			rd, w := o.reader(cp)
			want = w
			r, err = c.c.MatchFrom(rd)
		} else if o.api == "MatchFrom" {
			r, err = c.c.MatchFrom(bytes.NewReader(cp))
		} else {
			r = c.c.Match(cp)
		}
	}()
	VerifSink = nil
	res.Results = r
	api := o.api
	if api == "" {
		api = "Match"
	}
	if res.Panic != "" {
		t.emit(map[string]interface{}{"ev": "panic", "c": c.id, "in": in, "api": api, "thr": c.thr, "panic": res.Panic, "input_b64": vuB64(data), "hash": v2Hash(data)})
		return res
	}
	vals := []float64{c.thr, 1.0}
	for _, m := range r.Matches {
		vals = append(vals, m.Confidence)
	}
	rk := v2Ranks(vals)
	ms := []map[string]interface{}{}
	for _, m := range r.Matches {
		ms = append(ms, map[string]interface{}{"k": m.MatchType + "/" + m.Name + "/" + m.Variant, "t": m.MatchType, "name": m.Name,
			"r": rk[m.Confidence], "cb": v2Bits(m.Confidence), "sl": m.StartLine, "el": m.EndLine, "st": m.StartTokenIndex, "et": m.EndTokenIndex})
	}
	res.Ms, res.Total = ms, r.TotalInputLines
	// what a call returns is the caller's: once projected, the driver scribbles on it (a caller that shifts line numbers to the
	// enclosing file, renames, sorts).  Nothing the library hands out later may show these marks.
	for _, m := range r.Matches {
		m.StartLine += 40000
		m.EndLine += 40000
		m.StartTokenIndex, m.EndTokenIndex = -7, -7
		m.Confidence = -1
		m.Name, m.Variant = "scribbled-by-the-caller", "scribbled"
	}
	for i, j := 0, len(r.Matches)-1; i < j; i, j = i+1, j-1 {
		r.Matches[i], r.Matches[j] = r.Matches[j], r.Matches[i]
	}
	if o.quiet {
		return res
	}
	if err != nil || want != "" {
		e := "nil"
		if err != nil {
			e = err.Error()
		}
		if want == "" {
			want = "nil"
		}
		if e != "nil" || want != "nil" {
			t.emit(map[string]interface{}{"ev": "fail", "c": c.id, "in": in, "err": e, "want": want, "ms": ms, "total": r.TotalInputLines})
			return res
		}
	}
	if wdoc == nil {
		wdoc = c.tokens(data)
	}
	ev := map[string]interface{}{"ev": "match", "c": c.id, "in": in, "api": api, "err": "nil",
		"nlines": bytes.Count(data, []byte("\n")) + 1, "nwords": len(wdoc.Tokens), "nfields": len(bytes.Fields(data)),
		"thr": rk[c.thr], "one": rk[1.0], "total": r.TotalInputLines, "ms": ms,
		"unchanged": v2Intact(cp, data), "docs": []int{d0, len(c.c.docs)}, "dict": []int{w0, len(c.c.dict.words)},
		"memo": o.memo, "scored": o.scored, "lines": []int{}, "hash": v2Hash(data)}
	if os.Getenv("VERIF_DUMP_INPUTS") != "" && len(data) < 30000 {
		ev["input_b64"] = vuB64(data)
	}
	if o.scored {
		ls := make([]int, len(wdoc.Tokens))
		for i, tk := range wdoc.Tokens {
			ls[i] = int(tk.Line)
		}
		ev["lines"] = ls
		for _, se := range scoreEvents {
			t.emit(se)
		}
	}
	if retainEv != nil {
		t.emit(retainEv)
	}
	t.emit(ev)
	return res
}

// scoreEvent turns one hook observation of score() into a `score` event: the library's script as
// (type, words) ops plus the two token-id sequences it is a script between.
func (t *v2T) scoreEvent(c *v2C, in string, wdoc *indexedDocument, m map[string]interface{}) map[string]interface{} {
	key := m["doc"].(string)
	ts, te := m["ts"].(int), m["te"].(int)
	diffs := m["diffs"].([]diffmatchpatch.Diff)
	ops := [][]interface{}{}
	for _, d := range diffs {
		ty := "="
		if d.Type == diffmatchpatch.DiffDelete {
			ty = "-"
		} else if d.Type == diffmatchpatch.DiffInsert {
			ty = "+"
		}
		ops = append(ops, []interface{}{ty, wordLen(d.Text)})
	}
	T := make([]int, 0, te-ts)
	for _, tk := range wdoc.Tokens[ts:te] {
		T = append(T, int(tk.ID))
	}
	kd := c.c.docs[key]
	K := make([]int, 0, len(kd.Tokens))
	for _, tk := range kd.Tokens {
		K = append(K, int(tk.ID))
	}
	start, end, dist := m["start"].(int), m["end"].(int), m["dist"].(int)
	so, eo := textLength(diffs[:start]), textLength(diffs[end:])
	conf := 1.0
	if len(K) > 0 {
		conf = 1.0 - float64(dist)/float64(len(K))
	}
	return map[string]interface{}{"ev": "score", "in": in, "doc": filepath.ToSlash(key), "ts": ts, "te": te, "start": start, "end": end,
		"dist": dist, "ops": ops, "T": T, "K": K, "so": so, "eo": eo, "klen": len(K), "cb": v2Bits(conf)}
}

// matchQuiet / emitMatch: the call and the emission of its event separated (concurrent callers emit under a
// mutex of the driver, after the call returned).
func (t *v2T) matchQuiet(c *v2C, data []byte, api string) Results {
	cp := v2Spare(data) // spare capacity behind the input, filled with a sentinel: it is the caller's as well
	var r Results
	if api == "MatchFrom" {
		r, _ = c.c.MatchFrom(bytes.NewReader(cp))
	} else {
		r = c.c.Match(cp)
	}
	if !v2Intact(cp, data) {
		v2Spoiled.Store(fmt.Sprintf("%s changed the caller's bytes (input of %d bytes, or the spare capacity behind it)", api, len(data)))
	}
	return r
}

// v2Spoiled: set (by any goroutine) when a call wrote to memory of its caller; reported by the driver at the end.
var v2Spoiled atomic.Value

func (t *v2T) emitMatch(c *v2C, data []byte, r Results, memo, api string) {
	vals := []float64{c.thr, 1.0}
	for _, m := range r.Matches {
		vals = append(vals, m.Confidence)
	}
	rk := v2Ranks(vals)
	ms := []map[string]interface{}{}
	for _, m := range r.Matches {
		ms = append(ms, map[string]interface{}{"k": m.MatchType + "/" + m.Name + "/" + m.Variant, "t": m.MatchType, "name": m.Name,
			"r": rk[m.Confidence], "cb": v2Bits(m.Confidence), "sl": m.StartLine, "el": m.EndLine, "st": m.StartTokenIndex, "et": m.EndTokenIndex})
	}
	wdoc := c.tokens(data)
	t.emit(map[string]interface{}{"ev": "match", "c": c.id, "in": t.newIn(), "api": api, "err": "nil",
		"nlines": bytes.Count(data, []byte("\n")) + 1, "nwords": len(wdoc.Tokens), "nfields": len(bytes.Fields(data)),
		"thr": rk[c.thr], "one": rk[1.0], "total": r.TotalInputLines, "ms": ms,
		"unchanged": true, "docs": []int{len(c.c.docs), len(c.c.docs)}, "dict": []int{len(c.c.dict.words), len(c.c.dict.words)},
		"memo": memo, "scored": false, "lines": []int{}, "hash": v2Hash(data)})
}

// v2RetainEvent projects the hook observation of the retain loop: ranks instead of floats and strings.
func v2RetainEvent(in string, cands Matches, bits []bool) map[string]interface{} {
	var confs, weights []float64
	var keys []string
	for _, c := range cands {
		confs = append(confs, c.Confidence)
		weights = append(weights, float64(c.EndTokenIndex-c.StartTokenIndex)*c.Confidence) // the loop's own expression
		keys = append(keys, c.MatchType+"\x00"+c.Name+"\x00"+c.Variant)
	}
	cr, wr := v2Ranks(confs), v2Ranks(weights)
	sk := append([]string(nil), keys...)
	sort.Strings(sk)
	kr := map[string]int{}
	for i, k := range sk {
		if _, ok := kr[k]; !ok {
			kr[k] = i + 1
		}
	}
	cs := []map[string]interface{}{}
	for i, c := range cands {
		cs = append(cs, map[string]interface{}{"cr": cr[c.Confidence], "wr": wr[weights[i]], "kr": kr[keys[i]], "sl": c.StartLine, "el": c.EndLine, "st": c.StartTokenIndex, "et": c.EndTokenIndex})
	}
	return map[string]interface{}{"ev": "retain", "in": in, "cands": cs, "bits": append([]bool(nil), bits...)}
}

func (t *v2T) pair(a, b *v2Res, kind string, dtok int, lmap []int, nocopy bool, notices []int, extra map[string]interface{}) {
	if a.Panic != "" || b.Panic != "" {
		return
	}
	if notices == nil {
		notices = []int{}
	}
	ev := map[string]interface{}{"ev": "pair", "a": a.In, "b": b.In, "kind": kind, "dtok": dtok, "lmap": lmap, "nocopy": nocopy, "notices": notices,
		"nolines": false, "align": "", "alignclass": "", "split": 0}
	for k, v := range extra {
		ev[k] = v
	}
	t.emit(ev)
}

// v2Spare copies b into a slice with 24 bytes of spare capacity filled with a sentinel; v2Intact checks both parts.
func v2Spare(b []byte) []byte {
	full := make([]byte, len(b)+24)
	copy(full, b)
	for i := len(b); i < len(full); i++ {
		full[i] = 0xA5
	}
	return full[:len(b)]
}

func v2Intact(cp, orig []byte) bool {
	if !bytes.Equal(cp, orig) {
		return false
	}
	for _, x := range cp[len(cp):cap(cp)] {
		if x != 0xA5 {
			return false
		}
	}
	return true
}

func v2Ident(n int) []int {
	m := make([]int, n)
	for i := range m {
		m[i] = i + 1
	}
	return m
}

func v2NLines(b []byte) int { return bytes.Count(b, []byte("\n")) + 1 }

// OOV words: never in any corpus dictionary (checked white-box by the callers that rely on it)
var v2OOVStems = []string{"zzqxv", "qqzzk", "xqzvv", "vzzqx", "kqxzz", "zxqqv", "qvvzx", "xzkqq"}

func (t *v2T) oovWord(c *v2C) string {
	for {
		w := v2OOVStems[t.rng.Intn(len(v2OOVStems))] + string(rune('a'+t.rng.Intn(26))) + string(rune('a'+t.rng.Intn(26)))
		if c.c.dict.getIndex(w) == unknownIndex {
			return w
		}
	}
}

// oovBlock: 1..maxLines lines of 1..8 OOV words (some hyphenated across a line break), each line newline-terminated.
func (t *v2T) oovBlock(c *v2C, maxLines int) []byte {
	var sb strings.Builder
	for n := 1 + t.rng.Intn(maxLines); n > 0; n-- {
		// every fifth line starts with a list marker: as the first word of a line it gives no token (the block stays out of
		// vocabulary), the same spelling inside a line of the text next to the block is a word (a version number, "a.")
		if t.rng.Intn(5) == 0 {
			sb.WriteString([]string{"2.", "a.", "1.2:", "iv.", "3.1.", "3.", "b:", "2.0.", "1.", "2.1."}[t.rng.Intn(10)] + " ")
		}
		for k, w := 0, 1+t.rng.Intn(8); k < w; k++ {
			if k > 0 {
				sb.WriteByte(' ')
			}
			sb.WriteString(t.oovWord(c))
		}
		// every fourth line ends in a word hyphenated across the line break; its second half is alone on its
		// line or followed by more words (the joined word is out of vocabulary as well)
		if t.rng.Intn(4) == 0 {
			w := t.oovWord(c)
			sb.WriteString(" " + w[:3] + "-\n" + []string{"", "", "\n", "\n\n"}[t.rng.Intn(4)] + w[3:]) // sometimes blank lines follow the hyphen: the word still joins
			if t.rng.Intn(2) == 0 {
				sb.WriteString(" " + t.oovWord(c))
			}
		}
		sb.WriteByte('\n')
	}
	return []byte(sb.String())
}

// ensureNL: a piece that is concatenated with others ends in exactly the text plus one newline.
func v2EnsureNL(b []byte) []byte {
	if len(b) == 0 || b[len(b)-1] != '\n' {
		return append(append([]byte(nil), b...), '\n')
	}
	return b
}

// sample picks k distinct indices out of n (all if k >= n), seeded.
func (t *v2T) sample(n, k int) []int {
	p := t.rng.Perm(n)
	if k < n {
		p = p[:k]
	}
	sort.Ints(p)
	return p
}
