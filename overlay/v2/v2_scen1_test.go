//go:build verif

package classifier

// Scenarios C01 (plants), C03 (well-formedness on arbitrary input), C07 (position independence).

import (
	"bytes"
	"fmt"
	"io/ioutil"
	"os"
	"path/filepath"
	"sort"
	"strings"
	"testing"
)

// TestVerifV2Trace runs the scenarios named in VERIF_SCEN (comma separated) into one trace.
func TestVerifV2Trace(t *testing.T) {
	vt := newV2T()
	defer vt.out.Close()
	for _, s := range strings.Split(os.Getenv("VERIF_SCEN"), ",") {
		switch s {
		case "c01":
			vt.scenC01()
		case "c02":
			vt.scenC02()
		case "c03":
			vt.scenC03()
		case "c04":
			vt.scenC04()
		case "c05":
			vt.scenC05()
		case "c06":
			vt.scenC06()
		case "c07":
			vt.scenC07()
		case "c08":
			vt.scenC08()
		case "c10":
			vt.scenC10()
		case "c11":
			vt.scenC11()
		case "":
		default:
			t.Fatalf("unknown scenario %q", s)
		}
	}
}

// v2MinRun: the minimum run length the statement of C01 attaches to a threshold, floor(t / (1 - t)), at least 1,
// 10 at threshold 1.0 -- computed in integer arithmetic, independently of the code's computeQ.
func v2MinRun(thr float64) int {
	pm := int(thr*100000 + 0.5)
	if pm >= 100000 {
		return 10
	}
	q := pm / (100000 - pm)
	if q < 1 {
		q = 1
	}
	return q
}

func v2Q(thr float64) int { return v2MinRun(thr) }

// ---------------------------------------------------------------------------------------------
// C01: copies of corpus documents planted between blocks of out-of-vocabulary text
func (vt *v2T) scenC01() {
	docs := v2Corpus()
	type cfg struct {
		thr   float64
		ndocs int
	}
	cfgs := []cfg{{0.8, len(docs)}, {0.7, 40}, {0.75, 30}, {0.9, 40}, {1.0, 40}, {0.85, 12}, {0.94, 12}, {0.895, 12}}
	if vt.thorough() {
		cfgs = []cfg{{0.8, len(docs)}, {0.7, len(docs)}, {0.75, 150}, {0.9, len(docs)}, {1.0, len(docs)}, {0.85, 100}, {0.95, 100}}
	}
	// user-added documents at the edge of the statement's domain: exactly q and q+1 distinct words
	for ci, cf := range cfgs {
		c := vt.build(fmt.Sprintf("c01_%d", ci), cf.thr, docs)
		q := v2Q(cf.thr)
		var extra []v2Doc
		for _, n := range []int{q, q + 1, 2 * q} {
			var ws []string
			for i := 0; i < n; i++ {
				ws = append(ws, fmt.Sprintf("usrword%c%c%c", 'a'+ci, 'a'+n%26, 'a'+i%26)+strings.Repeat("x", i/26))
			}
			d := v2Doc{Key: fmt.Sprintf("License/User-%d-%d/license.txt", ci, n), Cat: "License", Name: fmt.Sprintf("User-%d-%d", ci, n), Variant: "license.txt", Data: []byte(strings.Join(ws, " ") + "\n")}
			vt.add(c, d)
			extra = append(extra, d)
		}
		// a user-added alias of an embedded document and two user documents with identical words: every name
		// a planted copy belongs to must be reported (the code keeps both sides of an exact tie)
		{
			src := docs[vt.rng.Intn(len(docs))]
			for len(c.tokens(src.Data).Tokens) < 2*q {
				src = docs[vt.rng.Intn(len(docs))]
			}
			al := v2Doc{Key: fmt.Sprintf("%s/Alias-%d/%s", src.Cat, ci, src.Variant), Cat: src.Cat, Name: fmt.Sprintf("Alias-%d", ci), Variant: src.Variant, Data: src.Data}
			vt.add(c, al)
			extra = append(extra, al)
			tw := extra[2]
			twin := v2Doc{Key: fmt.Sprintf("License/Twin-%d/license.txt", ci), Cat: "License", Name: fmt.Sprintf("Twin-%d", ci), Variant: "license.txt", Data: []byte(strings.ToUpper(string(tw.Data)))}
			vt.add(c, twin)
			extra = append(extra, twin)
			vt.aliasOf = map[string]string{al.Key: src.Key, src.Key: al.Key, twin.Key: tw.Key, tw.Key: twin.Key}
			vt.byKey = map[string]v2Doc{al.Key: al, src.Key: src, twin.Key: twin, tw.Key: tw}
		}
		// names are just strings: one that contains the path separator, next to a document whose name and variant are its
		// two halves (every copy must be reported under the triple its document was added with)
		{
			w := func(tag string) string {
				var ws []string
				for i := 0; i < 3*q+5; i++ {
					ws = append(ws, fmt.Sprintf("sep%s%c%c%c", tag, 'a'+ci, 'a'+i%26, 'a'+i/26))
				}
				return strings.Join(ws, " ") + "\n"
			}
			half := v2Doc{Key: "License/Sep/Var", Cat: "License", Name: "Sep", Variant: "Var", Data: []byte(w("h"))}
			whole := v2Doc{Key: "License/Sep/Var/deep.txt", Cat: "License", Name: "Sep/Var", Variant: "deep.txt", Data: []byte(w("w"))}
			vt.add(c, half)
			vt.add(c, whole)
			extra = append(extra, half, whole)
		}
		all := append(append([]v2Doc(nil), docs...), extra...)
		idx := vt.sample(len(docs), cf.ndocs)
		for i := range extra {
			idx = append(idx, len(docs)+i)
		}
		for _, di := range idx {
			ncopies := 1
			if vt.rng.Intn(4) == 0 {
				ncopies = 2 + vt.rng.Intn(2)
			}
			var planted []v2Doc
			planted = append(planted, all[di])
			for k := 1; k < ncopies; k++ {
				planted = append(planted, all[vt.rng.Intn(len(all))])
			}
			vt.plantCase(c, planted, q)
			if len(planted) > 1 || vt.rng.Intn(6) == 0 {
				vt.plantSharedLines(c, planted, q)
			}
		}
		// copies of two RELATED documents in one file (same family: versions, variants, headers of one license): for each of
		// them the other's copy is a second, longer or shorter, range that scores below the threshold or is vetoed
		if ci == 0 || (vt.thorough() && ci < 5) {
			fam := func(n string) string {
				f := strings.SplitN(n, "-", 2)[0]
				if f == "LGPL" || f == "AGPL" {
					f = "GPL"
				}
				return f
			}
			byFam := map[string][]int{}
			for i, d := range docs {
				if len(d.Data) < 6000 {
					byFam[fam(d.Name)] = append(byFam[fam(d.Name)], i)
				}
			}
			var fams []string
			for f, l := range byFam {
				if len(l) > 1 {
					fams = append(fams, f)
				}
			}
			sort.Strings(fams)
			find := func(key string) v2Doc {
				for _, d := range docs {
					if d.Key == key {
						return d
					}
				}
				panic("no corpus document " + key)
			}
			pairs := [][2]v2Doc{{find("Header/GPL-2.0/j.txt"), find("Header/GPL-3.0/header.txt")}, {find("Header/GPL-3.0/header.txt"), find("Header/GPL-2.0/j.txt")},
				{find("Header/GPL-2.0/k.txt"), find("Header/LGPL-3.0/b.txt")}}
			np := 40
			if vt.thorough() {
				np = 500
			}
			for k := 0; k < np; k++ {
				l := byFam[fams[vt.rng.Intn(len(fams))]]
				a, b := l[vt.rng.Intn(len(l))], l[vt.rng.Intn(len(l))]
				if a != b {
					pairs = append(pairs, [2]v2Doc{docs[a], docs[b]})
				}
			}
			for _, pr := range pairs {
				vt.plantCase(c, []v2Doc{pr[0], pr[1]}, q)
			}
			vt.reset(false)
		}
		vt.reset(false)
	}
	vt.scenC01Composite()
	vt.probeC01()
}

// plantSharedLines: the copies follow each other on the same physical lines -- "<junk> copy1 <junk> copy2 <junk>" with no line
// break around the junk, so that copy k+1 starts on the line copy k ends on.  Every copy spans at least two lines (a copy whose
// only line lies inside a longer copy's line range is the open finding C01-copy-inside-lines-of-heavier-copy, see probeC01).
// Positions come from the pieces: tokens are counted per piece, a piece's line L is line L + (line breaks before the piece).
func (vt *v2T) plantSharedLines(c *v2C, planted []v2Doc, q int) {
	var buf bytes.Buffer
	type pl struct {
		d              v2Doc
		st, et, sl, el int
	}
	var pls []pl
	var want []string
	tokOff, lineOff := 0, 0
	put := func(b []byte, d *v2Doc) bool {
		doc := c.tokens(b)
		n := len(doc.Tokens)
		if d != nil {
			if n < q || n == 0 || doc.Tokens[0].Line == doc.Tokens[n-1].Line {
				return false
			}
			for _, alias := range append([]v2Doc{*d}, func() []v2Doc {
				if ak, ok := vt.aliasOf[d.Key]; ok {
					return []v2Doc{vt.byKey[ak]}
				}
				return nil
			}()...) {
				pls = append(pls, pl{alias, tokOff, tokOff + n - 1, lineOff + int(doc.Tokens[0].Line), lineOff + int(doc.Tokens[n-1].Line)})
			}
		}
		for _, t := range doc.Tokens {
			want = append(want, c.c.dict.getWord(t.ID))
		}
		buf.Write(b)
		tokOff += n
		lineOff += bytes.Count(b, []byte("\n"))
		return true
	}
	put(vt.oovBlock(c, 3), nil)
	put([]byte(vt.oovWord(c)+" "), nil)
	for i := range planted {
		body := bytes.TrimRight(planted[i].Data, " \t\r\n")
		body = bytes.TrimLeft(body, " \t\r\n")
		if !put(body, &planted[i]) {
			return
		}
		put([]byte(" "+vt.oovWord(c)+" "), nil)
	}
	put([]byte(vt.oovWord(c)+"\n"), nil)
	put(vt.oovBlock(c, 3), nil)
	data := buf.Bytes()
	// the pieces must tokenise as they do alone (a first word that is a list marker at a line start, a first line that is a
	// notice only when it stands alone, a last word ending in a hyphen ... change when the copy is not on lines of its own)
	whole := c.tokens(data)
	same := len(whole.Tokens) == len(want)
	for i := 0; same && i < len(want); i++ {
		same = c.c.dict.getWord(whole.Tokens[i].ID) == want[i]
	}
	if !same {
		vt.emit(map[string]interface{}{"ev": "skip", "why": "pieces do not tokenise independently when they share lines", "doc": planted[0].Key})
		return
	}
	in := fmt.Sprintf("i%d", vt.nIn+1)
	for _, p := range pls {
		vt.emit(map[string]interface{}{"ev": "plant", "in": in, "t": p.d.Cat, "name": p.d.Name, "key": p.d.Key, "st": p.st, "et": p.et, "sl": p.sl, "el": p.el, "thr": c.thr, "shared": true})
	}
	vt.match(c, data, v2MatchOpts{retain: true})
}

// probeC01 re-observes the two recorded findings about the overlap filter on the real Match:
//   - a copy whose only line is also the first line of a longer copy (unrelated words between them) is dropped: the filter
//     compares line ranges, and the short copy's range lies inside the long one's (V2RetainShared.cfg);
//   - a corpus document that is the concatenation of two others outweighs their verbatim copies (documented design of
//     the filter: "a less confident match of a larger license has more matching tokens").
func (vt *v2T) probeC01() {
	c := NewClassifier(0.8)
	c.AddContent("License", "One", "license.txt", []byte("alpha bravo charlie delta echo foxtrot\n"))
	c.AddContent("License", "Multi", "license.txt", []byte("golf hotel india juliett kilo\nlima mike november oscar papa\nquebec romeo sierra tango uniform\n"))
	in := []byte("zqa zqb\nalpha bravo charlie delta echo foxtrot zqc golf hotel india juliett kilo\nlima mike november oscar papa\nquebec romeo sierra tango uniform\nzqd\n")
	res := c.Match(in)
	names := map[string]bool{}
	for _, m := range res.Matches {
		names[m.Name] = true
	}
	vt.emit(map[string]interface{}{"ev": "probe", "id": "C01-copy-inside-lines-of-heavier-copy", "input": string(in),
		"deviates": names["Multi"] && !names["One"], "got": fmt.Sprint(names)})
	c2 := NewClassifier(0.8)
	a := "alpha bravo charlie delta echo foxtrot golf hotel india juliett\nkilo lima mike november oscar papa quebec romeo sierra tango\n"
	b := "amber birch cedar dune ember fjord grove heath isle jade\nknoll loch marsh north oasis peak quay ridge shore tarn\n"
	c2.AddContent("License", "A", "license.txt", []byte(a))
	c2.AddContent("License", "B", "license.txt", []byte(b))
	c2.AddContent("License", "AB", "license.txt", []byte(a+b))
	in2 := []byte("zqa zqb\n" + a + "zqc\n" + b + "zqd\n")
	res2 := c2.Match(in2)
	names2 := map[string]bool{}
	for _, m := range res2.Matches {
		names2[m.Name] = true
	}
	vt.emit(map[string]interface{}{"ev": "probe", "id": "C01-concatenated-document-outweighs-copies", "input": string(in2),
		"deviates": names2["AB"] && !names2["A"] && !names2["B"], "got": fmt.Sprint(names2)})
}

// Composite user documents and documents registered late.
//
//	D(a,b) = words of a ++ first half of b, a few words replaced.  In "a <one short junk line> b" D's candidate spans a and
//	half of b at a confidence below 1: it line-contains a with more weighted tokens (a proposal to evict a) and is itself
//	rejected because it partially overlaps the retained b -- a and b must both be reported (retain loop: proposals of a
//	rejected candidate are void).
//	Late documents are registered after the classifier has served calls, and must be found like any other.
func (vt *v2T) scenC01Composite() {
	for ci, thr := range []float64{0.8, 0.7, 0.9} {
		c := vt.build(fmt.Sprintf("c01c_%d", ci), thr, nil)
		q := v2Q(thr)
		mk := func(name string, words []string) v2Doc {
			var sb strings.Builder
			for i, w := range words {
				sb.WriteString(w)
				if i%7 == 6 || i == len(words)-1 {
					sb.WriteByte('\n')
				} else {
					sb.WriteByte(' ')
				}
			}
			return v2Doc{Key: "License/" + name + "/license.txt", Cat: "License", Name: name, Variant: "license.txt", Data: []byte(sb.String())}
		}
		words := func(tag string, n int) []string {
			ws := make([]string, n)
			for i := range ws {
				ws[i] = fmt.Sprintf("cmp%s%c%c", tag, 'a'+i/26, 'a'+i%26)
			}
			return ws
		}
		nb := 5
		var base []v2Doc
		var bw [][]string
		for i := 0; i < nb; i++ {
			w := words(fmt.Sprintf("%c%c", 'a'+ci, 'a'+i), 35+vt.rng.Intn(30))
			bw = append(bw, w)
			base = append(base, mk(fmt.Sprintf("Base-%d-%d", ci, i), w))
			vt.add(c, base[i])
		}
		for i := 0; i < nb; i++ {
			for j := 0; j < nb; j++ {
				if i == j || vt.rng.Intn(2) == 0 {
					continue
				}
				w := append(append([]string(nil), bw[i]...), bw[j][:len(bw[j])/2]...)
				for k := 1 + vt.rng.Intn(2); k > 0; k-- {
					w[vt.rng.Intn(len(bw[i]))] = fmt.Sprintf("cmpsub%c%c%c", 'a'+ci, 'a'+i, 'a'+j)
				}
				vt.add(c, mk(fmt.Sprintf("Comp-%d-%d-%d", ci, i, j), w))
			}
		}
		for i := 0; i < nb; i++ {
			for j := 0; j < nb; j++ {
				if i != j {
					vt.plantCaseSep(c, []v2Doc{base[i], base[j]}, q, 2)
				}
			}
		}
		// registered after the classifier has been used
		for i := 0; i < 3; i++ {
			late := mk(fmt.Sprintf("Late-%d-%d", ci, i), words(fmt.Sprintf("l%c%c", 'a'+ci, 'a'+i), 12+vt.rng.Intn(40)))
			vt.add(c, late)
			vt.plantCaseSep(c, []v2Doc{late}, q, 0)
			vt.plantCaseSep(c, []v2Doc{base[vt.rng.Intn(nb)], late}, q, 2)
		}
		vt.reset(false)
	}
}

// plantCase builds ctx . copy (. ctx . copy)* . ctx, records where each copy sits (from the white-box
// tokenisation of the pieces, not from match's arithmetic), then matches.
func (vt *v2T) plantCase(c *v2C, planted []v2Doc, q int) { vt.plantCaseSep(c, planted, q, 0) }

// plantCaseSep: sepWords > 0 separates the copies by one line of 1..sepWords out-of-vocabulary words instead of a block.
func (vt *v2T) plantCaseSep(c *v2C, planted []v2Doc, q int, sepWords int) {
	var buf bytes.Buffer
	type pl struct {
		d              v2Doc
		st, et, sl, el int
	}
	var pls []pl
	tokOff, lineOff := 0, 0
	addPiece := func(b []byte) *indexedDocument {
		b = v2EnsureNL(b)
		doc := c.tokens(b)
		buf.Write(b)
		return doc
	}
	piece := func(b []byte, d *v2Doc) bool {
		b = v2EnsureNL(b)
		doc := addPiece(b)
		n := len(doc.Tokens)
		if d != nil {
			if n < q || n == 0 {
				return false // shorter than the minimum run length: outside the statement's domain
			}
			pls = append(pls, pl{*d, tokOff, tokOff + n - 1, lineOff + int(doc.Tokens[0].Line), lineOff + int(doc.Tokens[n-1].Line)})
			if ak, ok := vt.aliasOf[d.Key]; ok {
				pls = append(pls, pl{vt.byKey[ak], tokOff, tokOff + n - 1, lineOff + int(doc.Tokens[0].Line), lineOff + int(doc.Tokens[n-1].Line)})
			}
		}
		tokOff += n
		lineOff += bytes.Count(b, []byte("\n"))
		return true
	}
	piece(vt.oovBlock(c, 5), nil)
	for i := range planted {
		if !piece(planted[i].Data, &planted[i]) {
			return
		}
		if sepWords > 0 && i+1 < len(planted) {
			var ws []string
			for k := 1 + vt.rng.Intn(sepWords); k > 0; k-- {
				ws = append(ws, vt.oovWord(c))
			}
			piece([]byte(strings.Join(ws, " ")+"\n"), nil)
		} else {
			piece(vt.oovBlock(c, 5), nil)
		}
	}
	data := buf.Bytes()
	// pieces must tokenise independently (a piece ending in a hyphenated line would join with the next one)
	if whole := c.tokens(data); len(whole.Tokens) != tokOff {
		dashed := false
		for _, d := range planted {
			dashed = dashed || v2EndsDashed(d.Data)
		}
		if dashed {
			vt.emit(map[string]interface{}{"ev": "skip", "why": "a copy ends in a dash: it joins with what follows", "doc": planted[0].Key})
		} else {
			vt.emit(map[string]interface{}{"ev": "panic", "api": "tokenize", "msg": fmt.Sprintf("copies of %s...: the pieces have %d words alone and %d words together, and no copy ends in a dash", planted[0].Key, tokOff, len(whole.Tokens)),
				"input_b64": vuB64(data[:vuMin(len(data), 6000)])})
		}
		return
	}
	in := fmt.Sprintf("i%d", vt.nIn+1)
	for _, p := range pls {
		vt.emit(map[string]interface{}{"ev": "plant", "in": in, "t": p.d.Cat, "name": p.d.Name, "key": p.d.Key, "st": p.st, "et": p.et, "sl": p.sl, "el": p.el, "thr": c.thr})
	}
	vt.match(c, data, v2MatchOpts{retain: true})
}

// ---------------------------------------------------------------------------------------------
// C03: arbitrary inputs, several thresholds, small synthetic corpora with odd names
func (vt *v2T) scenC03() {
	docs := v2Corpus()
	scen := v2Scenarios()
	thrs := []float64{0.01, 0.3, 0.5, 0.7, 0.8, 0.95, 1.0, 0.805, 0.58} // the last two: a threshold is not a whole percentage; 0.58*100 < 58
	for ti, thr := range thrs {
		sub := docs
		if thr < 0.5 {
			// q = 1 below 0.5 and every barely-similar document is diffed: low thresholds run on a
			// small corpus of short documents with short inputs
			sub = nil
			for _, d := range docs {
				if len(d.Data) < 1200 && len(sub) < 12 {
					sub = append(sub, d)
				}
			}
		} else if thr != 0.8 && (!vt.thorough() || thr < 0.7) {
			// every barely similar document is diffed (go-diff gives up after a second each): the lower the threshold, the
			// smaller the corpus -- also in the thorough tier, or one call takes minutes on a loaded machine
			n := 60
			if vt.thorough() {
				n = 150
			}
			sub = nil
			for _, i := range vt.sample(len(docs), n) {
				sub = append(sub, docs[i])
			}
		}
		c := vt.build(fmt.Sprintf("c03_%d", ti), thr, sub)
		// odd but separator-free names
		odd := []v2Doc{
			{Key: "Ünï code/Nämé with space/vär.txt", Cat: "Ünï code", Name: "Nämé with space", Variant: "vär.txt", Data: []byte("alpha beta gamma delta epsilon zeta eta theta iota kappa lambda mu\n")},
			{Key: "License/Dotted.Name-1.0/", Cat: "License", Name: "Dotted.Name-1.0", Variant: "", Data: []byte("one two three four five six seven eight nine ten eleven twelve\n")},
		}
		for _, d := range odd {
			vt.add(c, d)
		}
		var inputs [][]byte
		inputs = append(inputs, []byte(""), []byte("\n\n\n"), []byte("!!! --- ???\n"), []byte("Copyright 2020 Someone\n2020-01-02\n"),
			[]byte("\x00\x01\xff\xfe binary \x00 data\r\n"), []byte(strings.Repeat("verylongline ", 2000)+"\n"+strings.Repeat("x", 70000)),
			[]byte("alpha beta gamma delta epsilon zeta eta theta iota kappa lambda mu\r\none two three four five six seven eight nine ten eleven twelve"),
			[]byte("Copyright 2019 X\nalpha beta gamma delta epsilon zeta eta theta iota kappa lambda mu\nCopyright 2021 Y"),
			// other things Unicode calls a line break are not: only "\n" ends a line (U+2028/U+2029 occur in corpus texts, NEL, VT, FF)
			[]byte("Copyright 2019 X\u2028\u2029\nalpha beta gamma delta epsilon zeta\u2028 eta theta iota\u2029kappa lambda mu\u2028\u2028\u2029\nCopyright 2021 Y\u2028"),
			[]byte("one two three four five six\u0085 seven\v eight\f nine ten eleven twelve\u2029\u2028\u0085\v\f\nCopyright 2021 Y\r"),
			// more lines than 16 bits count, a text on both sides of line 65536; a word longer than any buffer anyone would size for words
			[]byte(strings.Repeat("\n", 65533)+"alpha beta gamma delta\nepsilon zeta eta theta\niota kappa lambda mu\n\nCopyright 2021 Y\n"+strings.Repeat("x\n", 40)+"one two three four five six seven eight nine ten eleven twelve\n"),
			[]byte("one two three four five six "+strings.Repeat("Q", 20000)+" seven eight nine ten eleven twelve"),
			[]byte(strings.Repeat("Z", 4097)+" alpha beta gamma delta epsilon zeta eta theta iota kappa lambda mu"))
		n := 25
		if vt.thorough() {
			n = 150
		}
		if thr < 0.5 {
			n = 6 // every diff against a barely-similar document is expensive at tiny thresholds
		}
		// corpus texts edited at rates bracketing 1-thr, concatenations, scenario files
		for _, i := range vt.sample(len(sub), n) {
			d := sub[i]
			for _, rate := range []float64{0, (1 - thr) * 0.6, (1 - thr) * 1.1} {
				inputs = append(inputs, vt.editWords(c, d.Data, rate))
			}
		}
		for k := 0; k < n/3; k++ {
			a, b := sub[vt.rng.Intn(len(sub))], sub[vt.rng.Intn(len(sub))]
			inputs = append(inputs, append(append(vt.editWords(c, a.Data, 0.03), vt.oovBlock(c, 3)...), vt.editWords(c, b.Data, (1-thr)*0.9)...))
		}
		names := make([]string, 0, len(scen))
		for k := range scen {
			names = append(names, k)
		}
		sortStrings(names)
		for _, k := range names {
			inputs = append(inputs, scen[k])
		}
		for _, in := range inputs {
			if thr < 0.5 && len(in) > 2500 {
				continue
			}
			vt.match(c, in, v2MatchOpts{retain: true})
		}
		vt.reset(false)
	}
}

// editWords: random word deletions / substitutions / insertions at the given rate (per word), line structure kept.
func (vt *v2T) editWords(c *v2C, data []byte, rate float64) []byte {
	if rate <= 0 {
		return append([]byte(nil), data...)
	}
	lines := strings.Split(string(data), "\n")
	for li, ln := range lines {
		ws := strings.Fields(ln)
		var out []string
		for _, w := range ws {
			if vt.rng.Float64() < rate {
				switch vt.rng.Intn(3) {
				case 0: // delete
					continue
				case 1: // substitute
					out = append(out, vt.oovWord(c))
					continue
				default: // insert
					out = append(out, vt.oovWord(c))
				}
			}
			out = append(out, w)
		}
		lines[li] = strings.Join(out, " ")
	}
	return []byte(strings.Join(lines, "\n"))
}

// deleteWords removes words at the given rate; onceOnly restricts the deletions to words that occur once in the
// text, which lowers the number of distinct words as fast as possible.
func (vt *v2T) deleteWords(data []byte, rate float64, onceOnly bool) []byte {
	count := map[string]int{}
	for _, w := range strings.Fields(strings.ToLower(string(data))) {
		count[w]++
	}
	lines := strings.Split(string(data), "\n")
	for li, ln := range lines {
		var out []string
		for _, w := range strings.Fields(ln) {
			if vt.rng.Float64() < rate && (!onceOnly || count[strings.ToLower(w)] == 1) {
				continue
			}
			out = append(out, w)
		}
		lines[li] = strings.Join(out, " ")
	}
	return []byte(strings.Join(lines, "\n"))
}

func sortStrings(a []string) {
	for i := 1; i < len(a); i++ {
		for j := i; j > 0 && a[j] < a[j-1]; j-- {
			a[j], a[j-1] = a[j-1], a[j]
		}
	}
}

// ---------------------------------------------------------------------------------------------
// C07: X alone versus P . X . S with out-of-vocabulary P, S
func (vt *v2T) scenC07() {
	docs := v2Corpus()
	c := vt.build("c07", 0.8, docs)
	// user documents of exactly 100, 50 and 25 distinct words: a text that lacks exactly the first fifth of one of them scores
	// exactly the threshold
	hund := map[int][]string{}
	for _, n := range []int{100, 50, 25} {
		var ws []string
		for i := 0; i < n; i++ {
			ws = append(ws, fmt.Sprintf("hun%dw%c%c", n, 'a'+i%26, 'a'+i/26))
		}
		hund[n] = ws
		vt.add(c, v2Doc{Key: fmt.Sprintf("License/Hundred-%d/license.txt", n), Cat: "License", Name: fmt.Sprintf("Hundred-%d", n), Variant: "license.txt", Data: []byte(strings.Join(ws, " ") + "\n")})
	}
	scen := v2Scenarios()
	n := 140
	rates := []float64{0, 0.04, 0.12}
	if vt.thorough() {
		n = len(docs)
		rates = []float64{0, 0.02, 0.06, 0.12, 0.18}
	}
	var xs [][]byte
	var labels []string
	for _, i := range vt.sample(len(docs), n) {
		for _, r := range rates {
			xs = append(xs, vt.editWords(c, docs[i].Data, r))
			labels = append(labels, fmt.Sprintf("%s@%.2f", docs[i].Key, r))
		}
	}
	names := make([]string, 0, len(scen))
	for k := range scen {
		names = append(names, k)
	}
	sortStrings(names)
	for _, k := range names {
		xs = append(xs, scen[k])
		labels = append(labels, "scenario/"+k)
	}
	// X made of corpus words only (deletions, no substitutions), down to the fewest distinct words that still match
	for _, i := range vt.sample(len(docs), n/2) {
		for _, r := range []float64{0.08, 0.17, 0.2} {
			xs = append(xs, vt.deleteWords(docs[i].Data, r, false))
			labels = append(labels, fmt.Sprintf("%s@del%.2f", docs[i].Key, r))
		}
		xs = append(xs, vt.deleteWords(docs[i].Data, 0.19, true))
		labels = append(labels, docs[i].Key+"@del-once-only")
	}
	// X whose first k words are missing and that is fragmented into short runs (every k-th word replaced)
	for _, i := range vt.sample(len(docs), n/3) {
		ws := strings.Fields(string(docs[i].Data))
		if len(ws) < 60 {
			continue
		}
		k := 4 + vt.rng.Intn(int(float64(len(ws))*0.1))
		if k > 14 {
			k = 14
		}
		ws = ws[k:]
		for j := k; j < len(ws); j += k + 1 {
			ws[j] = vt.oovWord(c)
		}
		xs = append(xs, []byte(strings.Join(ws, " ")))
		labels = append(labels, fmt.Sprintf("%s@head-%d-fragmented", docs[i].Key, k))
	}
	for k := 0; k < n/6; k++ {
		a, b := docs[vt.rng.Intn(len(docs))], docs[vt.rng.Intn(len(docs))]
		xs = append(xs, append(append(v2EnsureNL(vt.editWords(c, a.Data, 0.05)), vt.oovBlock(c, 2)...), vt.editWords(c, b.Data, 0.05)...))
		labels = append(labels, "concat/"+a.Key+"+"+b.Key)
	}
	// X = a document followed by a noisy copy of itself of the same length (one word replaced in the middle)
	for k := 0; k < n/8; k++ {
		a := docs[vt.rng.Intn(len(docs))]
		ws := strings.Fields(string(a.Data))
		if len(a.Data) > 5000 || len(ws) < 12 {
			continue
		}
		noisy := string(a.Data)
		w := ws[len(ws)/2]
		if i := strings.Index(noisy[len(noisy)/3:], " "+w+" "); i >= 0 {
			i += len(noisy) / 3
			noisy = noisy[:i+1] + vt.oovWord(c) + noisy[i+1+len(w):]
		}
		sep := ""
		if vt.rng.Intn(2) == 0 {
			sep = string(vt.oovBlock(c, 1))
		}
		xs = append(xs, []byte(string(v2EnsureNL(a.Data))+sep+noisy))
		labels = append(labels, "selfconcat/"+a.Key)
	}
	// texts that score exactly the threshold: the first (or last) fifth of a user document missing, nothing else
	for _, n := range []int{100, 50, 25} {
		xs = append(xs, []byte(strings.Join(hund[n][n/5:], " ")+"\n"), []byte(strings.Join(hund[n][:n-n/5], " ")+"\n"), []byte(strings.Join(hund[n][n/5-1:], " ")+"\n"))
		labels = append(labels, fmt.Sprintf("at-threshold/head-%d", n), fmt.Sprintf("at-threshold/tail-%d", n), fmt.Sprintf("above-threshold/head-%d", n))
	}
	// the recorded instances of the open finding C07-negative-offset-clamp are always part of the run
	if dir := os.Getenv("VERIF_CASES"); dir != "" {
		files, _ := filepath.Glob(filepath.Join(dir, "C07-*.txt"))
		sort.Strings(files)
		for _, f := range files {
			if b, err := ioutil.ReadFile(f); err == nil {
				xs = append([][]byte{b}, xs...)
				labels = append([]string{"case/" + filepath.Base(f)}, labels...)
			}
		}
	}
	for xi, x := range xs {
		x = v2EnsureNL(x)
		xd := c.tokens(x)
		if len(xd.Tokens) < v2Q(0.8) {
			continue
		}
		p, s := vt.oovBlock(c, 5), vt.oovBlock(c, 5)
		if strings.HasPrefix(labels[xi], "at-threshold/") || strings.HasPrefix(labels[xi], "above-threshold/") {
			// a block in front that is longer than what is missing, ending in a word broken over its last two lines
			var ws []string
			for k := 0; k < 26; k++ {
				ws = append(ws, vt.oovWord(c))
			}
			w := vt.oovWord(c)
			p = []byte(strings.Join(ws[:13], " ") + "\n" + strings.Join(ws[13:], " ") + " " + w[:3] + "-\n" + w[3:] + "\n")
		}
		// spellings X uses inside its lines that are list markers at the start of a line ("version 2.", "clause a."): the
		// block in front of X starts some of its lines with them (no token there; a word in X)
		var mk []string
		for _, ln := range strings.Split(string(x), "\n") {
			for i, w := range strings.Fields(ln) {
				if i > 0 && v2HeaderLike(w) {
					mk = append(mk, w)
				}
			}
		}
		for k := 0; k < 2 && len(mk) > 0; k++ {
			p = append([]byte(mk[vt.rng.Intn(len(mk))]+" "+vt.oovWord(c)+"\n"), p...)
		}
		pd := c.tokens(p)
		pxs := append(append(append([]byte(nil), p...), x...), s...)
		if v2EndsDashed(x) {
			continue // X ends in a hyphenated line: joins with S, different text
		}
		if whole := c.tokens(pxs); len(whole.Tokens) != len(pd.Tokens)+len(xd.Tokens)+len(c.tokens(s).Tokens) {
			// nothing but a pending half-word carries over a line break: the words of a block, of X and of a block are the words of the three
			vt.emit(map[string]interface{}{"ev": "panic", "api": "tokenize", "msg": fmt.Sprintf("%s: %d + %d + %d words alone, %d words as block . X . block, and no piece ends in a dash",
				labels[xi], len(pd.Tokens), len(xd.Tokens), len(c.tokens(s).Tokens), len(whole.Tokens)), "input_b64": vuB64(pxs[:vuMin(len(pxs), 6000)])})
			continue
		}
		var clampsA, clampsB []string
		VerifSink = nil
		ra := vt.matchWithClamps(c, x, &clampsA)
		rb := vt.matchWithClamps(c, pxs, &clampsB)
		dl := bytes.Count(p, []byte("\n"))
		lmap := make([]int, v2NLines(x))
		for i := range lmap {
			lmap[i] = i + 1 + dl
		}
		vt.pair(ra, rb, "shift", len(pd.Tokens), lmap, false, nil, map[string]interface{}{"label": labels[xi], "clampsA": clampsA, "clampsB": clampsB})
		if xi%20 == 19 {
			vt.reset(false)
		}
	}
	vt.reset(false)
}

// matchWithClamps records which documents went through fuseRanges' negative-offset clamp (known finding signature).
func (vt *v2T) matchWithClamps(c *v2C, data []byte, clamps *[]string) *v2Res {
	seen := map[string]bool{}
	VerifSink = func(ev string, kv ...interface{}) {
		if ev == "clamp" {
			for i := 0; i+1 < len(kv); i += 2 {
				if kv[i] == "origin" {
					if o := kv[i+1].(string); !seen[o] {
						seen[o] = true
						*clamps = append(*clamps, o)
					}
				}
			}
		}
	}
	r := vt.match(c, data, v2MatchOpts{})
	VerifSink = nil
	if *clamps == nil {
		*clamps = []string{}
	}
	return r
}
