//go:build verif

package results

// S3 (quoted lines) driver: every (content, StartLine, EndLine) printed by specs/V2CLILines.tla through the real readFileLines.

import (
	"encoding/json"
	"fmt"
	"io/ioutil"
	"os"
	"path/filepath"
	"strings"
	"testing"
)

func TestVerifLinesReplay(t *testing.T) {
	out := vuOpenOut("VERIF_OUT")
	defer out.Close()
	dir, err := ioutil.TempDir("", "verif-lines-")
	if err != nil {
		t.Fatal(err)
	}
	defer os.RemoveAll(dir)
	conc := func(cs []string) string {
		var sb strings.Builder
		for _, c := range cs {
			switch c {
			case "CR":
				sb.WriteByte('\r')
			case "LF":
				sb.WriteByte('\n')
			default:
				sb.WriteString(c)
			}
		}
		return sb.String()
	}
	n, bad, nontrivial := 0, 0, 0
	last, path := "\x00", filepath.Join(dir, "f.txt")
	vuVectors(os.Getenv("VERIF_IN"), func(raw []byte) bool {
		var v struct {
			C    []string `json:"c"`
			SL   int      `json:"sl"`
			EL   *int     `json:"el"`
			Err  bool     `json:"err"`
			Text []string `json:"text"`
		}
		if json.Unmarshal(raw, &v) != nil || v.EL == nil {
			return true
		}
		n++
		content := conc(v.C)
		if content != last {
			last = content
			if err := ioutil.WriteFile(path, []byte(content), 0644); err != nil {
				t.Fatal(err)
			}
		}
		got, gerr := readFileLines(path, v.SL, *v.EL)
		want := conc(v.Text)
		if want != "" {
			nontrivial++
		}
		if (gerr != nil) != v.Err || (!v.Err && got != want) {
			bad++
			if bad <= 6 {
				out.Emit(map[string]interface{}{"kind": "mismatch", "why": fmt.Sprintf("readFileLines(%q, %d, %d) = %q (err %v), the specification gives %q (err %v)", content, v.SL, *v.EL, got, gerr, want, v.Err)})
			}
		}
		return true
	})
	out.Emit(map[string]interface{}{"kind": "summary", "vectors": n, "nontrivial": nontrivial, "mismatches": bad})
}
