//go:build verif

package main

// S3 (scope of a run) driver: every (tree, arguments, -ignore_paths_re) case printed by specs/V2CLIScope.tla, materialised below a
// scratch root and given to the real expandFiles; the list of files must be the spec's, in its order.

import (
	"context"
	"encoding/json"
	"fmt"
	"io/ioutil"
	"os"
	"path/filepath"
	"sort"
	"strings"
	"testing"
)

type scVec struct {
	Tree  [][]string `json:"tree"`
	Args  [][]string `json:"args"`
	Pats  []string   `json:"pats"`
	Err   bool       `json:"err"`
	Files [][]string `json:"files"`
}

func TestVerifScopeReplay(t *testing.T) {
	out := vuOpenOut("VERIF_OUT")
	defer out.Close()
	base, err := ioutil.TempDir("", "verif-scope-")
	if err != nil {
		t.Fatal(err)
	}
	defer os.RemoveAll(base)
	if base, err = filepath.EvalSymlinks(base); err != nil {
		t.Fatal(err)
	}

	cwd, _ := os.Getwd()
	defer os.Chdir(cwd)
	saved := *ignorePaths
	defer func() { *ignorePaths = saved }()
	var vecs []scVec
	vuVectors(os.Getenv("VERIF_IN"), func(raw []byte) bool {
		var v scVec
		if json.Unmarshal(raw, &v) == nil && v.Pats != nil {
			vecs = append(vecs, v)
		}
		return true
	})
	key := func(v scVec) string {
		var k []string
		for _, f := range v.Tree {
			k = append(k, strings.Join(f, "/"))
		}
		sort.Strings(k)
		return strings.Join(k, ",")
	}
	sort.SliceStable(vecs, func(i, j int) bool { return key(vecs[i]) < key(vecs[j]) })
	n, bad, nontrivial, ntree := 0, 0, 0, 0
	cur, root := "\x00", ""
	for _, v := range vecs {
		if k := key(v); k != cur {
			cur = k
			ntree++
			root = filepath.Join(base, fmt.Sprintf("t%d", ntree), "RVS")
			os.MkdirAll(root, 0755)
			for _, f := range v.Tree {
				p := filepath.Join(append([]string{root}, f...)...)
				os.MkdirAll(filepath.Dir(p), 0755)
				ioutil.WriteFile(p, []byte("text of "+strings.Join(f, "/")+"\n"), 0644)
			}
			os.Chdir(root)
		}
		n++
		var args []string
		for _, a := range v.Args {
			if len(a) == 0 {
				args = append(args, ".")
			} else {
				args = append(args, filepath.Join(a...))
			}
		}
		*ignorePaths = strings.Join(v.Pats, ",")
		got, gerr := expandFiles(context.Background(), args)
		var rel []string
		for _, g := range got {
			r, _ := filepath.Rel(root, g)
			if !filepath.IsAbs(g) {
				r = "(not absolute) " + g
			}
			rel = append(rel, filepath.ToSlash(r))
		}
		var want []string
		for _, f := range v.Files {
			want = append(want, strings.Join(f, "/"))
		}
		if len(want) != len(v.Tree) || len(v.Pats) > 1 {
			nontrivial++
		}
		if (gerr != nil) != v.Err || (!v.Err && strings.Join(rel, "|") != strings.Join(want, "|")) {
			bad++
			if bad <= 6 {
				out.Emit(map[string]interface{}{"kind": "mismatch", "tree": cur, "args": args, "ignore_paths_re": *ignorePaths,
					"why": fmt.Sprintf("expandFiles = %v (err %v), the specification gives %v (err %v)", rel, gerr, want, v.Err)})
			}
		}
	}
	out.Emit(map[string]interface{}{"kind": "summary", "vectors": n, "trees": ntree, "nontrivial": nontrivial, "mismatches": bad})
}
