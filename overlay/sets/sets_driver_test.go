//go:build verif

package sets

// C20 driver for SETTYPE (template: SETTYPE / ELEMTYPE / ELEMCONV are substituted by the
// check for StringSet and IntSet).  Two tests:
//   TestVerifSetsReplay : leg G, replays TLC-generated behaviours of specs/Containers.tla
//   TestVerifSetsTrace  : leg T, records long seeded operation sequences as an NDJSON trace

import (
	"encoding/json"
	"fmt"
	"math/rand"
	"os"
	"sort"
	"testing"
)

func vsElem(i int) ELEMTYPE { return ELEMCONV }

func vsElems(is []int) []ELEMTYPE {
	out := make([]ELEMTYPE, 0, len(is))
	for _, i := range is {
		out = append(out, vsElem(i))
	}
	return out
}

// inverse of vsElem on the values a run uses
type vsUniverse struct{ back map[ELEMTYPE]int }

func newVsUniverse(n int) *vsUniverse {
	u := &vsUniverse{back: map[ELEMTYPE]int{}}
	for i := 0; i <= n; i++ {
		u.back[vsElem(i)] = i
	}
	return u
}

func (u *vsUniverse) ints(es []ELEMTYPE) ([]int, error) {
	out := make([]int, 0, len(es))
	for _, e := range es {
		i, ok := u.back[e]
		if !ok {
			return nil, fmt.Errorf("element %v outside the universe", e)
		}
		out = append(out, i)
	}
	return out, nil
}

// project reads the abstract value of a set WHITE-BOX (the map itself), so that the
// projection never calls a public method: observers are operations of the behaviour and
// an implementation may keep hidden state behind them (a cache), which reading through
// them after every step would mask.
func (u *vsUniverse) project(s *SETTYPE) ([]int, error) {
	if s == nil {
		return nil, fmt.Errorf("nil set in slot")
	}
	es := make([]ELEMTYPE, 0, len(s.set))
	for e := range s.set {
		es = append(es, e)
	}
	is, err := u.ints(es)
	if err != nil {
		return nil, err
	}
	sort.Ints(is)
	return is, nil
}

type vsState struct {
	u     *vsUniverse
	slots map[string]*SETTYPE
}

func (st *vsState) get(name string) *SETTYPE {
	if name == "nil" {
		return nil
	}
	return st.slots[name]
}

// apply performs one operation on the real sets; returns the JSON-able return value.
func (st *vsState) apply(op, recv, arg string, elems []int) (ret interface{}, err error) {
	defer func() {
		if r := recover(); r != nil {
			err = fmt.Errorf("panic: %v", r)
		}
	}()
	s, o := st.get(recv), st.get(arg)
	ret = "none"
	switch op {
	case "Insert":
		s.Insert(vsElems(elems)...)
	case "Delete":
		s.Delete(vsElems(elems)...)
	case "Union":
		st.slots["R"] = s.Union(o)
	case "Intersect":
		st.slots["R"] = s.Intersect(o)
	case "Difference":
		st.slots["R"] = s.Difference(o)
	case "Unique":
		st.slots["R"] = s.Unique(o)
	case "Copy":
		st.slots["R"] = s.Copy()
	case "Disjoint":
		ret = s.Disjoint(o)
	case "Equal":
		ret = s.Equal(o)
	case "Contains":
		ret = s.Contains(vsElem(elems[0]))
	case "Len":
		ret = s.Len()
	case "Empty":
		ret = s.Empty()
	case "Elements":
		var is []int
		is, err = st.u.ints(s.Elements())
		sort.Ints(is)
		if is == nil {
			is = []int{}
		}
		ret = is
	case "Sorted":
		var is []int
		is, err = st.u.ints(s.Sorted())
		if is == nil {
			is = []int{}
		}
		ret = is
	default:
		err = fmt.Errorf("unknown op %q", op)
	}
	return ret, err
}

func (st *vsState) projectAll() ([3][]int, error) {
	var out [3][]int
	for i, n := range []string{"A", "B", "R"} {
		p, err := st.u.project(st.slots[n])
		if err != nil {
			return out, fmt.Errorf("slot %s: %v", n, err)
		}
		out[i] = p
	}
	return out, nil
}

func vsNewState(u *vsUniverse, init [3][]int) *vsState {
	st := &vsState{u: u, slots: map[string]*SETTYPE{}}
	for i, n := range []string{"A", "B", "R"} {
		st.slots[n] = NewSETTYPE(vsElems(init[i])...)
	}
	return st
}

func vsCanon(v interface{}) string { b, _ := json.Marshal(v); return string(b) }

// TestVerifSetsReplay: every vector is [init, step, step, ...] with
// init = [A,B,R] and step = [op, recv, arg, elems, ret, [A,B,R]].
func TestVerifSetsReplay(t *testing.T) {
	out := vuOpenOut("VERIF_OUT")
	defer out.Close()
	u := newVsUniverse(8)
	const W = 12
	type acc struct {
		n, nontrivial, bad int
		ops                map[string]int
		samples            []json.RawMessage
	}
	accs := make([]*acc, W)
	for i := range accs {
		accs[i] = &acc{ops: map[string]int{}}
	}
	err := vuParallel(os.Getenv("VERIF_IN"), W, func(w int, line []byte) {
		a := accs[w]
		raw := vuDecode(line)
		if raw == nil {
			return
		}
		var vec []json.RawMessage
		if json.Unmarshal(raw, &vec) != nil || len(vec) < 2 {
			return
		}
		var init [3][]int
		if json.Unmarshal(vec[0], &init) != nil {
			return
		}
		a.n++
		if len(a.samples) < 1 && a.n%1000 == 7 {
			a.samples = append(a.samples, append([]byte(nil), raw...))
		}
		st := vsNewState(u, init)
		changed := false
		for k, rs := range vec[1:] {
			var step []json.RawMessage
			json.Unmarshal(rs, &step)
			var op, recv, arg string
			var elems []int
			var after [3][]int
			json.Unmarshal(step[0], &op)
			json.Unmarshal(step[1], &recv)
			json.Unmarshal(step[2], &arg)
			json.Unmarshal(step[3], &elems)
			json.Unmarshal(step[5], &after)
			a.ops[op]++
			ret, err := st.apply(op, recv, arg, elems)
			var got [3][]int
			if err == nil {
				got, err = st.projectAll()
			}
			exp := vsCanon(json.RawMessage(step[4]))
			why := ""
			if err != nil {
				why = err.Error()
			} else if vsCanon(ret) != exp {
				why = fmt.Sprintf("return value %s, spec %s", vsCanon(ret), exp)
			} else if vsCanon(got) != vsCanon(after) {
				why = fmt.Sprintf("state after step %s, spec %s", vsCanon(got), vsCanon(after))
			}
			if why != "" {
				a.bad++
				if a.bad <= 3 {
					out.Emit(map[string]interface{}{"kind": "mismatch", "type": "SETTYPE", "vector": json.RawMessage(raw), "step": k + 1, "why": why})
				}
				break
			}
			if vsCanon(after) != vsCanon(init) {
				changed = true
			}
		}
		if changed {
			a.nontrivial++
		}
	})
	if err != nil {
		t.Fatal(err)
	}
	tot := &acc{ops: map[string]int{}}
	for _, a := range accs {
		tot.n += a.n
		tot.nontrivial += a.nontrivial
		tot.bad += a.bad
		for k, v := range a.ops {
			tot.ops[k] += v
		}
		tot.samples = append(tot.samples, a.samples...)
	}
	out.Emit(map[string]interface{}{"kind": "summary", "type": "SETTYPE", "vectors": tot.n, "nontrivial": tot.nontrivial, "mismatches": tot.bad, "ops": tot.ops, "samples": tot.samples})
}

// TestVerifSetsTrace: seeded long runs, biased towards Insert/Delete and observers on the
// same objects (what hidden state such as a cache needs in order to show).
func TestVerifSetsTrace(t *testing.T) {
	out := vuOpenOut("VERIF_OUT")
	defer out.Close()
	seed := vuSeed()
	traces := vuEnvInt("VERIF_TRACES", 4)
	steps := vuEnvInt("VERIF_STEPS", 1500)
	usize := vuEnvInt("VERIF_UNIVERSE", 5)
	u := newVsUniverse(usize)
	slots := []string{"A", "B", "R"}
	bins := []string{"Union", "Intersect", "Difference", "Unique"}
	obs := []string{"Disjoint", "Equal", "Contains", "Len", "Empty", "Elements", "Sorted"}
	for tr := 0; tr < traces; tr++ {
		rng := rand.New(rand.NewSource(seed*1000 + int64(tr)))
		st := vsNewState(u, [3][]int{{}, {}, {}})
		out.Emit(map[string]interface{}{"ev": "reset", "type": "SETTYPE", "universe": usize})
		for k := 0; k < steps; k++ {
			var op, recv, arg string
			var elems []int
			recv, arg = slots[rng.Intn(3)], "nil"
			switch x := rng.Intn(100); {
			case x < 45:
				op = []string{"Insert", "Delete"}[rng.Intn(2)]
				for j := rng.Intn(3); j > 0; j-- {
					elems = append(elems, 1+rng.Intn(usize))
				}
			case x < 65:
				op = bins[rng.Intn(4)]
				arg = append(slots, "nil")[rng.Intn(4)]
			case x < 70:
				op = "Copy"
				if rng.Intn(6) == 0 {
					recv = "nil"
				}
			default:
				op = obs[rng.Intn(len(obs))]
				switch op {
				case "Disjoint":
					arg = append(slots, "nil")[rng.Intn(4)]
				case "Equal":
					arg = append(slots, "nil")[rng.Intn(4)]
					if rng.Intn(8) == 0 {
						recv = "nil"
					}
				case "Contains":
					elems = []int{1 + rng.Intn(usize)}
				}
			}
			sort.Ints(elems)
			elems = vsDedup(elems)
			ret, err := st.apply(op, recv, arg, elems)
			ev := map[string]interface{}{"ev": "op", "op": op, "recv": recv, "arg": arg, "elems": elems, "ret": ret}
			if elems == nil {
				ev["elems"] = []int{}
			}
			if err != nil {
				ev["ev"], ev["err"] = "fault", err.Error()
			} else if got, perr := st.projectAll(); perr != nil {
				ev["ev"], ev["err"] = "fault", perr.Error()
			} else {
				ev["A"], ev["B"], ev["R"] = vsNN(got[0]), vsNN(got[1]), vsNN(got[2])
			}
			out.Emit(ev)
			if ev["ev"] == "fault" {
				break
			}
		}
	}
}

func vsNN(a []int) []int {
	if a == nil {
		return []int{}
	}
	return a
}

func vsDedup(a []int) []int {
	var out []int
	for i, x := range a {
		if i == 0 || x != a[i-1] {
			out = append(out, x)
		}
	}
	return out
}
