"""C07 -- detection does not depend on position or surrounding unrelated text.  M/G: V2Match at threshold 0.5 (fuseRanges as built, replayed stage by stage).  T: X alone vs P.X.S, TraceV2 Pair(shift); the known clamp finding is recognised by its hook signature."""
import time
from lib import vlib
from checks.v2common import pad_leg, Acc, trace_leg, match_model, match_replay
PID = "C07"
def run():
    t0 = time.time(); v = vlib.Verdict(PID); acc = Acc()
    th = vlib.TIER == "thorough"
    match_model(acc, ["T50"])
    match_replay(v, acc, ["T50"], 4 if th else 3, 6 if th else 5)               # the fusion-rich threshold: offsets, clamp, filter
    match_replay(v, acc, ["T80"], 4, 6)                                          # documents no longer than q at either end of the input (run filter, window ends)
    pad_leg(v, acc)                                       # the read buffer under the tokenizer: multi-byte text at every alignment
    recs, lines = trace_leg(v, acc, "c07", [PID])
    ps = [r for r in lines if r.get("ev") == "pair"]
    acc.nontrivial = len({r["label"] for r in ps}); acc.extra["pairs"] = len(ps)
    acc.extra["pairs_with_clamp_events"] = sum(1 for r in ps if r.get("clampsA"))
    rc = v.finish()
    vlib.write_evidence(PID, acc.coverage("X = corpus texts with 0-12% (thorough 0-18%) random word edits, scenario files, concatenations; P, S = 1-5 lines of 1-8 out-of-vocabulary words; results compared as bags after shifting token indices and lines"),
        ["X ending in a hyphenated line is skipped (it would join with S)", "OOV words checked white-box"], time.time() - t0, len(v.violations))
    return rc
