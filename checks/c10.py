"""C10 -- the v2 API is total.  G: every tokenizer vector replayed under recover.  T: structure-aware mutation x thresholds 0..1 x corpora (small, empty, with empty documents, full), per-call watchdog."""
import time
from lib import vlib
from checks.v2common import pad_leg, Acc, trace_leg, tok_replay, match_model, match_replay
PID = "C10"
def run():
    t0 = time.time(); v = vlib.Verdict(PID); acc = Acc(); th = vlib.TIER == "thorough"
    tok_replay(v, acc, ["D", "E", "I"], 4 if th else 3, sig="tokenizer-replay")   # I: character references that leave a lone punctuation mark
    match_model(acc, ["T100"])
    match_replay(v, acc, ["T100", "T80"], 3, 5, sig="stage-replay")            # every index the stage functions compute, under recover
    pad_leg(v, acc)                                       # the read buffer under the tokenizer: multi-byte text at every alignment
    recs, lines = trace_leg(v, acc, "c10", [PID], env={"VERIF_CALL_TIMEOUT": "120"})
    calls = [r for r in recs if r.get("ev") in ("match", "panic", "timeout")]
    acc.nontrivial += len({r.get("hash") for r in calls}); acc.extra["api_calls"] = len(calls) * 2
    rc = v.finish()
    vlib.write_evidence(PID, acc.coverage("byte flips, NUL / invalid UTF-8 splices, HTML entities incl. malformed numeric ones, 1 MB tokens and lines, hyphen/newline storms, truncation at the buffer boundary; thresholds {0, 0.2, 0.5, 0.8, 0.9, 0.999, 1-1e-12, the float below 1, 1.0}; corpora: 3 documents, empty, with empty / notice-only / punctuation-only documents, full corpus; Match, MatchFrom, Normalize, AddContent; distinct = distinct input hashes"),
        ["time and space complexity beyond the 120 s per-call watchdog is not part of the property (matching is quadratic below threshold 0.5)"], time.time() - t0, len(v.violations))
    return rc
