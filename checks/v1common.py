"""Shared legs of the v1 checks (C13 C15 C16 C17): resumable drivers (a panic in a goroutine kills the
process) and TraceV1 validation with continuation after a rejected event."""
import json, os, re
from lib import vlib
from lib.vlib import tlc, go_overlay_test, read_ndjson, sub


def run_resumable(pkg, sources, test, env, name, timeout=2400, max_crashes=12, extra_files=None, race=False):
    """Runs a journalled driver; after a crash the case that was running is recorded as
    {"ev":"crash", ...} and the driver resumed behind it."""
    out = os.path.join(sub("out"), name + ".ndjson")
    if os.path.exists(out):
        os.remove(out)
    skip, crashes, last_txt = 0, [], ""
    while True:
        e = dict(env, VERIF_OUT=out, VERIF_SKIP=str(skip), VERIF_SEED=str(vlib.SEED), VERIF_TIER=vlib.TIER)
        rc, txt, _ = go_overlay_test(pkg, sources, "^%s$" % test, env=e, timeout=timeout, extra_files=extra_files, race=race)
        last_txt = txt
        if vlib.build_failed(txt):
            raise vlib.Inconclusive("driver %s did not build:\n%s" % (test, txt[-3000:]))
        recs = read_ndjson(out)
        if any(r.get("ev") == "done" for r in recs[-3:]):
            break
        begins = [r for r in recs if r.get("ev") == "begin"]
        ends = {r["i"] for r in recs if r.get("ev") == "end"}
        open_cases = [b for b in begins if b["i"] not in ends]
        if not open_cases:
            raise vlib.Inconclusive("driver %s ended without 'done' and without an open case:\n%s" % (test, txt[-3000:]))
        b = open_cases[-1]
        m = re.search(r"(panic: .*|fatal error: .*|DATA RACE)", txt)
        crashes.append({"ev": "crash", "i": b["i"], "case": b.get("vec"), "what": (m.group(1) if m else "process died")[:300],
                        "stack": "\n".join(l for l in txt.splitlines() if "licenseclassifier" in l)[:1500]})
        skip = b["i"]
        if len(crashes) >= max_crashes:
            break
    return read_ndjson(out), crashes, last_txt


def validate(v, acc, module, cfgname, cfgtext, tracefile, lines, classify, what, max_rejects=8, timeout=2400):
    rejects = 0
    while True:
        text = "\n".join(json.dumps(r) for r in lines) + "\n"
        res = tlc(module, cfgname, workers=1, timeout=timeout, files={tracefile: text, cfgname: cfgtext}, heap="12g")
        if res.timed_out or (res.error and not res.violated):
            raise vlib.Inconclusive("trace validation did not run (%s): %s" % (what, res.tail[-2500:]))
        acc.add_tlc(res, cfgname, what=what, events=len(lines))
        if res.ok:
            return lines
        idx = max(0, (res.depth or 1) - 1)
        if idx >= len(lines):
            raise vlib.Inconclusive("trace rejected beyond its end (%s)" % what)
        sig, case = classify(lines[idx])
        v.fail(sig, case)
        rejects += 1
        if rejects >= max_rejects:
            return lines
        del lines[idx]


def classify_v1(ev):
    e = {k: (x if len(json.dumps(x)) < 1500 else "...") for k, x in ev.items()}
    kind = ev.get("ev")
    if kind == "add":
        return ("add-panic" if ev.get("panic") else "add"), e
    if kind in ("mm", "nm", "fpm") and ev.get("panic"):
        return kind + "-panic", e
    return kind, e


V1CFG = "SPECIFICATION TSpec\nPOSTCONDITION TraceAccepted\nCHECK_DEADLOCK FALSE\n"


def trace_v1(v, acc, recs, what):
    for r in recs:      # probes re-observe recorded findings on the real code (signature probe:<id>)
        if r.get("ev") == "probe":
            acc.extra.setdefault("probes", []).append(r)
            if r.get("deviates"):
                v.fail("probe:" + r["id"], r)
    lines = [r for r in recs if r.get("ev") in ("reset", "new", "add", "mm", "nm", "fpm")]
    if not lines:
        raise vlib.Inconclusive("no events to validate (%s)" % what)
    lines = validate(v, acc, "TraceV1", "TraceV1.cfg", V1CFG, "trace_v1.ndjson", lines, classify_v1, what)
    acc.traces += sum(1 for r in lines if r.get("ev") == "new") or 1
    acc.evaluations += sum(1 for r in lines if r.get("ev") in ("mm", "nm", "fpm", "add"))
    return lines


def library_panic(v, txt, where):
    """A panic raised inside the library (first frame of the panicking goroutine that is not the runtime's lies in the package's own
    sources, not in a driver file zz_verif_*) while it is used concurrently is the violation itself; a panic of the driver is not."""
    m = re.search(r"^panic: [^\n]*", txt, re.M)
    if not m:
        return False
    tail = txt[m.start():]
    frames = re.findall(r"^\t(/\S+\.go):\d+", tail, re.M)
    own = [f for f in frames if f.startswith(os.path.realpath(vlib.REPO))]      # frames of the repository (library or driver), innermost first
    if own and "zz_verif" not in own[0]:
        v.fail("runtime-panic:" + os.path.basename(own[0]), {"what": m.group(0), "where": where, "stack": tail[:2500]})
        return True
    return False
