"""C04 -- Match is deterministic and side-effect free.  M+G: V2Corpus (the classifier's long-lived state as a state machine, every short history replayed).  G: V2Match stage replay (tie order of candidate ranges), V2Runes (id channel).  T: five classifiers over the same base (other insertion orders, superset, tracing, second instance), interleaved histories, three processes; TraceV2 memo + PureMatch."""
import time
from lib import vlib
from checks.v2common import Acc, trace_leg, runes_legs, match_model, match_replay, score_legs, tracecfg_legs, diffrename_leg, corpus_legs
PID = "C04"
def run():
    t0 = time.time(); v = vlib.Verdict(PID); acc = Acc()
    # determinism of the stages = equality with the (deterministic) spec functions: the candidate stage on a low-vocabulary
    # alphabet (ties among ranges, map iteration order), and the id <-> rune channel (which word gets which id depends on insertion order)
    match_replay(v, acc, ["T50"], 3, 5)
    runes_legs(v, acc)
    diffrename_leg(v, acc, 120 if vlib.TIER == "thorough" else 40)   # the diff of a pair keeps its shape when token ids are renamed (which word has id 10 depends on insertion order)
    corpus_legs(v, acc)            # the long-lived state: ids stable, a name registered again replaced, Match pure -- every history of <= 3 calls on a real Classifier
    tracecfg_legs(v, acc)          # tracing switches: a pure function of the configuration
    score_legs(v, acc, 3)          # the scoring rules range over maps (phrase tables): every script must score as the deterministic spec says
    recs, lines = trace_leg(v, acc, "c04", [PID], procs=5 if vlib.TIER == "thorough" else 3)
    ms = [r for r in lines if r.get("ev") == "match" and r.get("memo")]
    acc.nontrivial = len({r["memo"] for r in ms if r["ms"]})
    acc.extra["memo_checked_calls"] = len(ms)
    rc = v.finish()
    vlib.write_evidence(PID, acc.coverage("the same seeded inputs matched on 5 classifiers x 2 rounds x 3 processes (different map seeds), with Match/MatchFrom/Normalize calls of other inputs in between; results must be identical per input (order, bit patterns); docs/dictionary sizes and input bytes compared before/after each call; distinct = inputs with a non-empty result"),
        ["separate processes give different map-iteration seeds", "every diff stays far below go-diff's 1 s deadline on these inputs"], time.time() - t0, len(v.violations))
    return rc
