"""C08 -- streaming equals in-memory; reader faults surface as errors.  M: V2Buffer (carry-over never splits a rune, chunked decode = whole decode; Keep=2 and stale-byte decoding must fail).  T: fragmentations, every pad 0..2056, failing readers at every offset, TraceV2 Pair / MatchFail."""
import time
from lib import vlib
from lib.vlib import tlc, tlc_require_ok
from checks.v2common import Acc, trace_leg, cfg_text, fill_legs, pad_leg
PID = "C08"
def run():
    t0 = time.time(); v = vlib.Verdict(PID); acc = Acc(); th = vlib.TIER == "thorough"
    r = tlc_require_ok(tlc("V2Buffer", "V2Buffer.cfg", timeout=5000 if th else 1500, files={"V2Buffer.cfg": cfg_text("V2Buffer.cfg", MaxRunes=4 if th else 3)}), "V2Buffer")
    acc.add_tlc(r, "V2Buffer.cfg")
    for cfg, inv in [("V2BufferKeep2.cfg", "NoSplitRune"), ("V2BufferStale.cfg", "ChunkedEqualsWhole")]:
        nv = tlc("V2Buffer", cfg, timeout=600)      # non-vacuity: too small a carry-over / stale-byte decoding must be caught
        if nv.violated != inv:
            raise vlib.Inconclusive("%s did not violate %s: %s" % (cfg, inv, nv.tail[-1500:]))
        acc.tlc.append({"cfg": cfg, "expected_violation": nv.violated})
    fill_legs(v, acc, th)                           # the loop that refills the buffer: every small reader script, and through the real fill()
    pad_leg(v, acc)                                 # words, lines and notices of multi-byte and hyphenated text at every alignment with the buffer
    recs, lines = trace_leg(v, acc, "c08", [PID])
    acc.nontrivial = len({r["kind"] for r in lines if r.get("ev") == "pair"}) + len({r["want"] for r in lines if r.get("ev") == "fail"})
    acc.extra["pairs"] = sum(1 for r in lines if r.get("ev") == "pair"); acc.extra["failing_reader_calls"] = sum(1 for r in lines if r.get("ev") == "fail")
    rc = v.finish()
    vlib.write_evidence(PID, acc.coverage("contents with 2-, 3-, 4-byte runes and invalid bytes; 8 read fragmentations (1 byte, data+EOF, 1020/4, ...); every pad width 0..2056 for two contents, seeded pads for the others; failing readers at every offset of short contents and around 1020..1025 / 2040..2048 of long ones"),
        ["reader errors are sticky", "the buffer model uses BufSize 8 / Keep 4; the real 1024-byte buffer is covered by the pad sweep"], time.time() - t0, len(v.violations))
    return rc
