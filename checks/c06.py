"""C06 -- notices, list markers, hyphenation, spelling variants are ignored.  M: NoticeIns / Marker on the tokenizer spec; MarkerParen and HyphenSplit are EXPECTED to be violated (open findings, replayed as probes).  G: replay of alphabets C, D.  T: TraceV2 Pair with inserted notices."""
import time
from lib import vlib
from checks.v2common import tables_leg, Acc, trace_leg, tok_model, tok_replay
PID = "C06"
def run():
    t0 = time.time(); v = vlib.Verdict(PID); acc = Acc(); th = vlib.TIER == "thorough"
    tok_model(acc, ["A"], 5 if th else 4, invariants=["NoticeIns", "Marker"])
    tok_model(acc, ["C"], 4 if th else 3, invariants=["NoticeIns", "Marker"])
    tok_model(acc, ["A"], 3, invariants=["MarkerParen"], expect_violation="MarkerParen")
    tok_model(acc, ["A"], 5, invariants=["HyphenSplit"], expect_violation="HyphenSplit")
    tok_replay(v, acc, ["C", "D"], 4 if th else 3)
    tok_model(acc, ["L"], 5 if th else 4)       # a word completed at a line break, then a notice or a marker line
    tok_replay(v, acc, ["L"], 5 if th else 4)
    tables_leg(v, acc)                                    # list markers, interchangeable spellings, rewritten runes: the tables entry by entry
    recs, lines = trace_leg(v, acc, "c06", [PID])
    ps = [r for r in lines if r.get("ev") == "pair"]
    acc.nontrivial += len({(r["label"], r["kind"]) for r in ps})
    acc.extra["pairs"] = len(ps)
    rc = v.finish()
    vlib.write_evidence(PID, acc.coverage("M/G: chunk alphabets C (copyright / date / marker chunks) and D (spelling pairs, URL scheme, entity, multi-byte, invalid byte); T: notice and date lines inserted between lines, markers 1. iv. 3.1. 12., one word split with a trailing hyphen, interchangeable spellings, http/https on corpus documents, edited texts, scenario files", exhaustive=True),
        ["markers are prefixed only to lines whose first word is not header-like and that are not notice lines", "a notice line is not split", "the marker a) and a header-like word after a split word are open findings, re-observed by probes"], time.time() - t0, len(v.violations))
    return rc
