"""C01 -- a planted corpus document is found whole at confidence 1.0.  M: V2Match (candidate stage as built: PlantIsCandidate, InBounds).  G: every small (document, input) pair through the real stage functions.  T: plants in OOV context, positions from white-box piece tokenisation, TraceV2 PlantedFound."""
import time
from lib import vlib
from checks.v2common import retain_legs, pad_leg, Acc, trace_leg, match_model, match_replay
PID = "C01"
def run():
    t0 = time.time(); v = vlib.Verdict(PID); acc = Acc()
    th = vlib.TIER == "thorough"
    match_model(acc, ["T80", "T70"] + (["T50", "T100"] if th else []))          # PlantIsCandidate on the mechanism spec
    match_replay(v, acc, ["T80"], 4, 6)                                          # spec = code on every small (K, T)
    match_replay(v, acc, ["T70"] + (["T100"] if th else []), 4 if th else 3, 6 if th else 5)
    retain_legs(v, acc, vlib.TIER == "thorough")                  # the overlap filter: every small candidate set injected into the real match()
    pad_leg(v, acc)                                       # the read buffer under the tokenizer: multi-byte text at every alignment
    recs, lines = trace_leg(v, acc, "c01", [PID])
    plants = [r for r in lines if r.get("ev") == "plant"]
    acc.nontrivial = len({(r["key"], r["thr"]) for r in plants})
    acc.extra["plants"] = len(plants); acc.extra["plants_sharing_lines"] = sum(1 for r in plants if r.get("shared")); acc.extra["thresholds"] = sorted({r["thr"] for r in plants})
    rc = v.finish()
    vlib.write_evidence(PID, acc.coverage("copies of corpus documents (all 431 at 0.8, seeded samples at the other thresholds, plus user-added documents of exactly q, q+1, 2q words) planted 1-3 at a time between blocks of out-of-vocabulary lines, and again with the copies sharing their boundary lines (junk words, no line break, between them); plant positions from the white-box tokenisation of the pieces; distinct = (document, threshold) pairs"),
        ["out-of-vocabulary words are checked white-box against the classifier's dictionary", "documents shorter than q words are outside the statement's domain", "CRC-32 collisions between q-grams are not modelled"], time.time() - t0, len(v.violations))
    return rc
