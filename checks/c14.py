"""C14 -- v1 classifiers are safe for concurrent use.
M: V1Classifier (lazy search-set protocol: NoRace, SetWhenUsed, LazyOnce, termination; the check-outside-lock variant must violate NoRace).
T: concurrent callers on one Classifier; hook events validated by TraceConc (vector-clock happens-before recomputed by TLC),
   call results validated by TraceV1 against the sequential results; the same harness under the Go race detector as a second sensor;
   a License loaded from an archive (precomputed sets) under concurrent NearestMatch / MultipleMatch."""
import json, os, re, time
from lib import vlib
from lib.vlib import tlc, tlc_require_ok, go_overlay_test, read_ndjson, sub
from checks.v2common import Acc
from checks.v1common import trace_v1, validate
PID = "C14"
SRC = ["common/util_test.go", "stringclassifier/sc_driver_test.go", "stringclassifier/conc_driver_test.go"]
CONC = ("lock", "unlock", "acc", "fork", "start", "done", "join")
CONCCFG = "SPECIFICATION Spec\nINVARIANT MutexOK\nPOSTCONDITION TraceAccepted\nCHECK_DEADLOCK FALSE\n"

def classify_conc(ev):
    if ev.get("ev") == "acc":
        return "race:%s:%s" % (ev.get("loc", "").split(":")[0], ev.get("kind")), ev
    return "conc:" + ev.get("ev", "?"), ev

def fatal_map(v, txt, where):
    """The Go runtime stops a process on an unsynchronised map access: that is the violation itself."""
    m = re.search(r"fatal error: concurrent map[^\n]*", txt)
    if m:
        i = txt.find(m.group(0))
        v.fail("runtime-fatal:concurrent-map", {"what": m.group(0), "where": where, "stack": txt[i:i + 2500]})
    return bool(m)

from checks.v1common import library_panic


def run():
    t0 = time.time(); v = vlib.Verdict(PID); acc = Acc(); th = vlib.TIER == "thorough"
    r = tlc_require_ok(tlc("V1Classifier", "V1ClassifierFixed.cfg", timeout=900), "V1ClassifierFixed")
    acc.add_tlc(r, "V1ClassifierFixed.cfg")
    nv = tlc("V1Classifier", "V1ClassifierAsBuilt.cfg", timeout=300)
    if nv.violated != "NoRace":
        raise vlib.Inconclusive("check-outside-lock variant did not violate NoRace: " + nv.tail[-1500:])
    acc.tlc.append({"cfg": "V1ClassifierAsBuilt.cfg", "expected_violation": "NoRace"})
    # unbounded companion (TLAPS): the repaired protocol for ANY sets of callers and values -- NoRace, SetWhenUsed, LazyOnce
    proved, nobl, tail = vlib.tlaps("V1ClassifierProof", timeout=600)
    if not proved:
        raise vlib.Inconclusive("tlapm did not prove V1ClassifierProof: " + tail[-1500:])
    acc.tlc.append({"cfg": "V1ClassifierProof.tla (tlapm)", "obligations_proved": nobl})
    env = {"VERIF_ROUNDS": "150" if th else "25", "VERIF_CALLERS": "8" if th else "4", "VERIF_SEED": str(vlib.SEED)}
    for race in (False, True):
        out = os.path.join(sub("out"), "conc.%s.ndjson" % race)
        if os.path.exists(out):
            os.remove(out)
        rc, txt, _ = go_overlay_test("stringclassifier", SRC, "^TestVerifSCConc$", env=dict(env, VERIF_OUT=out), race=race, timeout=2400)
        if vlib.build_failed(txt):
            raise vlib.Inconclusive("concurrent driver did not build:\n" + txt[-3000:])
        if race:
            n = txt.count("WARNING: DATA RACE")
            acc.extra["race_detector_reports"] = n
            if n:
                m = re.search(r"WARNING: DATA RACE\n(.*?)\n\n", txt, re.S)
                v.fail("race-detector", {"reports": n, "first": (m.group(1) if m else txt)[:2500]})
            elif rc != 0 and not fatal_map(v, txt, "stringclassifier (race build)") and not library_panic(v, txt, "stringclassifier (race build)"):
                hung = [x for x in read_ndjson(out) if x.get("ev") == "hang"]
                if not hung:
                    raise vlib.Inconclusive("driver under -race failed:\n" + txt[-3000:])
                v.fail("hang", hung[0])
            continue
        if fatal_map(v, txt, "stringclassifier"):
            continue
        if library_panic(v, txt, "stringclassifier"):
            continue
        recs = read_ndjson(out)
        hung = [x for x in recs if x.get("ev") == "hang"]
        if rc != 0 and not hung:
            raise vlib.Inconclusive("concurrent driver failed:\n" + txt[-3000:])
        for x in recs:
            if x.get("ev") == "addfail":
                v.fail("addvalue-error", x)
            if x.get("ev") == "hang":       # the driver's watchdog: concurrent calls that never return
                v.fail("hang", x)
        conc = [x for x in recs if x.get("ev") in CONC or x.get("ev") == "reset"]
        lines = validate(v, acc, "TraceConc", "TraceConc.cfg", CONCCFG, "trace_conc.ndjson", conc, classify_conc, "happens-before on hook events")
        acc.traces += sum(1 for x in conc if x.get("ev") == "reset")
        acc.extra["hook_events"] = len(conc)
        acc.nontrivial = sum(1 for x in conc if x.get("ev") == "acc" and x.get("loc", "").startswith("set:") and x.get("kind") == "W")
        trace_v1(v, acc, recs, "concurrent results vs sequential results")
        acc.samples += [x for x in conc if x.get("ev") == "acc"][:3]
    # License with precomputed sets
    from checks.c15 import overlay_extra
    out = os.path.join(sub("out"), "licconc.ndjson")
    for race in (False, True):
        if os.path.exists(out):
            os.remove(out)
        rc, txt, _ = go_overlay_test("serializer", ["common/util_test.go", "serializer/lic_driver_test.go", "serializer/licconc_driver_test.go"], "^TestVerifLicConc$",
                                     env={"VERIF_OUT": out, "VERIF_SEED": str(vlib.SEED), "VERIF_CALLERS": "8" if th else "4"}, race=race, timeout=2400, abs_extra=overlay_extra())
        if vlib.build_failed(txt):
            raise vlib.Inconclusive("License concurrent driver did not build:\n" + txt[-3000:])
        if race:
            n = txt.count("WARNING: DATA RACE")
            acc.extra["race_detector_reports_license"] = n
            if n:
                m = re.search(r"WARNING: DATA RACE\n(.*?)\n\n", txt, re.S)
                v.fail("race-detector", {"reports": n, "first": (m.group(1) if m else txt)[:2500]})
            elif rc != 0 and not fatal_map(v, txt, "License (race build)") and not library_panic(v, txt, "License (race build)"):
                raise vlib.Inconclusive("License driver under -race failed:\n" + txt[-3000:])
            for x in read_ndjson(out):      # what the helper processes (cold starts) saw under the detector
                if x.get("ev") == "coldrace":
                    v.fail("cold-start", x)
        else:
            if fatal_map(v, txt, "License") or library_panic(v, txt, "License"):
                continue
            if rc != 0:
                raise vlib.Inconclusive("License concurrent driver failed:\n" + txt[-3000:])
            lrecs = read_ndjson(out)
            for x in lrecs:
                if x.get("ev") == "coldrace":
                    v.fail("cold-start", x)
            trace_v1(v, acc, [x for x in lrecs if x.get("ev") != "coldrace"], "License: concurrent vs sequential")
    # the v1 command line backend: 1000 worker goroutines over one License
    outb = os.path.join(sub("out"), "v1backend.ndjson")
    for race in (False, True):
        if os.path.exists(outb):
            os.remove(outb)
        rc, txt, _ = go_overlay_test("tools/identify_license/backend", ["common/util_test.go", "v1backend/backend_driver_test.go"], "^TestVerifV1Backend$",
                                     env={"VERIF_OUT": outb, "VERIF_SEED": str(vlib.SEED)}, race=race, timeout=2400, abs_extra=overlay_extra())
        if vlib.build_failed(txt):
            raise vlib.Inconclusive("v1 backend driver did not build:\n" + txt[-3000:])
        if race:
            n = txt.count("WARNING: DATA RACE")
            acc.extra["race_detector_reports_v1_backend"] = n
            if n:
                m = re.search(r"WARNING: DATA RACE\n(.*?)\n\n", txt, re.S)
                v.fail("race-detector", {"reports": n, "first": (m.group(1) if m else txt)[:2500], "where": "v1 backend"})
            elif rc != 0 and not fatal_map(v, txt, "v1 backend (race build)") and not library_panic(v, txt, "v1 backend (race build)"):
                raise vlib.Inconclusive("v1 backend driver under -race failed:\n" + txt[-3000:])
        else:
            if fatal_map(v, txt, "v1 backend") or library_panic(v, txt, "v1 backend"):
                continue
            if rc != 0:
                raise vlib.Inconclusive("v1 backend driver failed:\n" + txt[-3000:])
            rb = read_ndjson(outb)
            for x in rb:
                if x.get("ev") == "backenderr":
                    v.fail("backend-error", x)
            trace_v1(v, acc, rb, "v1 CLI backend vs sequential MultipleMatch")
    rc = v.finish()
    vlib.write_evidence(PID, acc.coverage("rounds of 4 (8) concurrent callers on a Classifier filled by AddValue (lazy sets), each doing MultipleMatch, AddValue of a new key, NearestMatch; every lock operation, access to `values` / `set:<key>` and goroutine fork is an event; TLC recomputes happens-before; results compared with sequential results; the same under -race; a License with precomputed sets; non-trivial = lazy search-set assignments observed"),
        ["events of different goroutines are ordered only by the sink's mutex; lock events are emitted while the lock is held", "the race detector is a second sensor, not the oracle of leg T"], time.time() - t0, len(v.violations))
    return rc
