"""C05 -- presentation changes do not change what is detected.  M: relational invariants on V2Tokenizer (Recase, Respace, Decorate, Typographic, BlankLine, TailLine).  G: tokenizer replay.  T: transformations of real documents, TraceV2 Pair."""
import time
from lib import vlib
from checks.v2common import tables_leg, pad_leg, Acc, trace_leg, tok_model, tok_replay
PID = "C05"
def run():
    t0 = time.time(); v = vlib.Verdict(PID); acc = Acc(); th = vlib.TIER == "thorough"
    tok_model(acc, ["A"], 6 if th else 5, invariants=["Recase", "Respace", "Decorate", "BlankLine", "TailLine"])
    tok_model(acc, ["B"], 5 if th else 4)
    tok_model(acc, ["H"], 6 if th else 5)       # line numbers after hyphenated words (TailLine, BlankLine)
    tok_model(acc, ["J"], 5 if th else 4)       # character references whose names are written in other cases (Recase)
    tok_replay(v, acc, ["A", "B", "H"], 6 if th else 5)
    tok_replay(v, acc, ["J"], 5 if th else 4)
    pad_leg(v, acc)                                       # the read buffer under the tokenizer: multi-byte text at every alignment
    tables_leg(v, acc)                                    # list markers, interchangeable spellings, rewritten runes: the tables entry by entry
    recs, lines = trace_leg(v, acc, "c05", [PID])
    ps = [r for r in lines if r.get("ev") == "pair"]
    acc.nontrivial += len({(r["label"], r["kind"]) for r in ps})
    acc.extra["pairs"] = len(ps)
    rc = v.finish()
    vlib.write_evidence(PID, acc.coverage("M/G: every input <= MaxLen over alphabets A (words, case, digits, blanks, newline, hyphen, header punctuation) B (tabs, CR, decoration, dashes, quotes) and H (hyphen-ended lines as chunks); T: corpus documents in context, edited texts, scenario files x 17 transformation kinds + compositions; exempt zone = hyphen-ended line through the next non-blank line", exhaustive=True),
        ["letters inside HTML character references are not re-cased (&nbsp; is case sensitive)", "TotalInputLines is not compared (the statement does not mention it)"], time.time() - t0, len(v.violations))
    return rc
