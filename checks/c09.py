"""C09 -- one classifier can be matched against from many goroutines.
M: V2Concurrent (ownership model: NoRace, SeqEquivalent; handing the corpus array to the diff library must violate NoRace).
T: N goroutines on one classifier, inputs that make several goroutines score the same documents; results validated by TraceV2
   against the sequential results (memo); the diffcall hook tells whether docDiff hands corpus storage to go-diff; the same harness
   under the Go race detector, whose reports are the observations of the accesses inside the dependency."""
import os, re, time
from lib import vlib
from lib.vlib import tlc, tlc_require_ok, go_overlay_test, read_ndjson, sub
from checks.v2common import Acc, V2_SOURCES, DEV_CONSTANTS, tracecfg_legs
from checks.v1common import validate
PID = "C09"
def classify(ev):
    return "seq-equivalence" if ev.get("ev") == "match" else ev.get("ev", "?"), {k: ev[k] for k in ev if k not in ("lines",)}
def backend_legs(v, acc, th):
    """The result list of the identify_license backend (V2Backend): one lock for all tasks of the backend -- a lock per run must violate
    NoRace and lose entries; then overlapping runs on one real backend, plain (entries counted) and under the race detector."""
    r = tlc_require_ok(tlc("V2Backend", "V2Backend.cfg", timeout=900), "V2Backend"); acc.add_tlc(r, "V2Backend.cfg")
    for cfg, inv in (("V2BackendPerRun.cfg", "NoRace"), ("V2BackendPerRunLost.cfg", "AllAppended")):
        nv = tlc("V2Backend", cfg, timeout=600)
        if nv.violated != inv:
            raise vlib.Inconclusive("%s did not violate %s: %s" % (cfg, inv, nv.tail[-1500:]))
        acc.tlc.append({"cfg": cfg, "expected_violation": inv})
    # unbounded companion (TLAPS): for ANY sets of runs and files, one lock for the backend keeps all critical sections apart
    proved, nobl, tail = vlib.tlaps("V2BackendProof", timeout=600)
    if not proved:
        raise vlib.Inconclusive("tlapm did not prove V2BackendProof: " + tail[-1500:])
    acc.tlc.append({"cfg": "V2BackendProof.tla (tlapm)", "obligations_proved": nobl})
    for race in (False, True):
        out = os.path.join(sub("out"), "backend_overlap.%s.ndjson" % race)
        if os.path.exists(out):
            os.remove(out)
        rc, txt, _ = go_overlay_test("v2/tools/identify_license/backend", ["common/util_test.go", "backend/cli_driver_test.go", "backend/overlap_driver_test.go"], "^TestVerifBackendOverlap$",
                                     env={"VERIF_OUT": out, "VERIF_ROUNDS": "8" if th else "3"}, race=race, timeout=1800)
        if vlib.build_failed(txt):
            raise vlib.Inconclusive("backend overlap driver did not build:\n" + txt[-3000:])
        n = txt.count("WARNING: DATA RACE") if race else 0
        if n:
            m = re.search(r"WARNING: DATA RACE\n(.*?)\n\n", txt, re.S)
            v.fail("race-detector:backend-results", {"reports": n, "first": (m.group(1) if m else txt)[:3000]})
            continue
        recs = read_ndjson(out)
        summ = [x for x in recs if x.get("kind") == "summary"]
        if rc != 0 or not summ:
            raise vlib.Inconclusive("backend overlap driver failed:\n" + txt[-3000:])
        acc.evaluations += summ[0]["rounds"]; acc.extra["backend_overlap_race" if race else "backend_overlap"] = summ[0]
        for x in recs:
            if x.get("kind") == "mismatch":
                v.fail("backend-results", x)


def run():
    t0 = time.time(); v = vlib.Verdict(PID); acc = Acc(); th = vlib.TIER == "thorough"
    r = tlc_require_ok(tlc("V2Concurrent", "V2ConcurrentFixed.cfg", timeout=600), "V2ConcurrentFixed"); acc.add_tlc(r, "V2ConcurrentFixed.cfg")
    nv = tlc("V2Concurrent", "V2ConcurrentAsBuilt.cfg", timeout=300)
    if nv.violated != "NoRace":
        raise vlib.Inconclusive("sharing the corpus array with the diff library did not violate NoRace: " + nv.tail[-1500:])
    acc.tlc.append({"cfg": "V2ConcurrentAsBuilt.cfg", "expected_violation": "NoRace"})
    tracecfg_legs(v, acc)    # the tracing switches every concurrent call reads: asking must not write (V2Trace)
    env = {"VERIF_GOROUTINES": "64" if th else "8", "VERIF_ROUNDS": "6" if th else "2", "VERIF_SEED": str(vlib.SEED), "VERIF_TIER": vlib.TIER}
    shared = None
    for race in (False, True):
        out = os.path.join(sub("out"), "v2conc.%s.ndjson" % race)
        if os.path.exists(out):
            os.remove(out)
        rc, txt, _ = go_overlay_test("v2", V2_SOURCES, "^TestVerifV2Conc$", env=dict(env, VERIF_OUT=out), race=race, timeout=3000)
        if vlib.build_failed(txt):
            raise vlib.Inconclusive("concurrent driver did not build:\n" + txt[-3000:])
        recs = read_ndjson(out)
        dc = [x for x in recs if x.get("ev") == "diffcalls"]
        if dc:
            shared = dc[0]
        if race:
            n = txt.count("WARNING: DATA RACE")
            acc.extra["race_detector_reports"] = n
            if n:
                m = re.search(r"WARNING: DATA RACE\n(.*?)\n\n", txt, re.S)
                first = (m.group(1) if m else txt)[:3000]
                sig = "race-detector:go-diff-on-shared-corpus-runes" if "diffmatchpatch" in first and shared and shared["shared"] > 0 else "race-detector"
                v.fail(sig, {"reports": n, "first": first, "diffcalls": shared})
            elif rc != 0:
                raise vlib.Inconclusive("driver under -race failed:\n" + txt[-3000:])
            for x in recs:      # what the driver itself saw under the race build (helper processes run under the detector as well)
                if x.get("ev") == "fault":
                    v.fail("cold-start" if "cold start" in str(x.get("why")) else "failing-reader", x)
                if x.get("ev") == "argfault":
                    v.fail("caller-bytes", x)
            continue
        m = re.search(r"fatal error: concurrent map[^\n]*", txt)
        if m:   # the Go runtime stopped the process: an unsynchronised map access is the violation itself
            i = txt.find(m.group(0))
            v.fail("runtime-fatal:concurrent-map", {"what": m.group(0), "stack": txt[i:i + 2500]})
            continue
        if rc != 0 or not recs:
            raise vlib.Inconclusive("concurrent driver failed:\n" + txt[-3000:])
        for x in recs:
            if x.get("ev") == "fault":
                v.fail("cold-start" if "cold start" in str(x.get("why")) else "failing-reader", x)
            if x.get("ev") == "argfault":       # a call wrote to its caller's memory (the input, the capacity behind it, a neighbouring input)
                v.fail("caller-bytes", x)
        lines = [x for x in recs if x.get("ev") in ("new", "add", "match", "reset")]
        ctext = "SPECIFICATION TSpec\nCONSTANTS\n" + "".join("  %s = FALSE\n" % d for d in DEV_CONSTANTS) + "POSTCONDITION TraceAccepted\nCHECK_DEADLOCK FALSE\n"
        validate(v, acc, "TraceV2", "TraceV2.cfg", ctext, "trace_v2.ndjson", lines, classify, "concurrent results vs sequential results")
        acc.traces += 1
        acc.evaluations += sum(1 for x in lines if x.get("ev") == "match")
        acc.nontrivial = len({x["memo"] for x in lines if x.get("ev") == "match" and x["ms"]})
        acc.samples += [{k: x[k] for k in ("memo", "api", "ms")} for x in lines if x.get("ev") == "match"][:2]
    acc.extra["diffcalls"] = shared
    backend_legs(v, acc, th)
    rc = v.finish()
    vlib.write_evidence(PID, acc.coverage("8 (64) goroutines x 2 (6) rounds over 15 inputs (BSD-3/BSD-2/Apache/MIT/GPL texts, exact, edited, in context) on one default-corpus classifier, Match and MatchFrom mixed, every fourth call preceded by a MatchFrom whose reader fails; every concurrent result must equal the sequential one bit for bit; distinct = inputs with a non-empty result"),
        ["writes inside go-diff are visible only through the race detector; the model contributes the ownership rule and the inputs/schedule that make the observation reliable",
         "the diffcall hook reports whether docDiff hands corpus storage (shared) or a private copy to the library"], time.time() - t0, len(v.violations))
    return rc
