"""C03 -- nothing below threshold; results well formed and ordered.  M: InBounds on V2Match.  G: tokenizer replay (alphabets A, B: the words token indices count).  T: TraceV2 WellFormed on arbitrary inputs x 7 thresholds x corpora (odd names)."""
import time
from lib import vlib
from checks.v2common import retain_legs, pad_leg, Acc, trace_leg, match_model, tok_replay
PID = "C03"
def run():
    t0 = time.time(); v = vlib.Verdict(PID); acc = Acc()
    match_model(acc, ["T70"])                                                    # InBounds of every candidate on the mechanism spec
    tok_replay(v, acc, ["B", "A"], 5 if vlib.TIER == "thorough" else 4)   # what a word is (token indices count them): the tokenizer against its spec
    retain_legs(v, acc, vlib.TIER == "thorough")                  # the overlap filter: every small candidate set injected into the real match()
    pad_leg(v, acc)                                       # the read buffer under the tokenizer: multi-byte text at every alignment
    recs, lines = trace_leg(v, acc, "c03", [PID])
    ms = [r for r in lines if r.get("ev") == "match"]
    acc.nontrivial = len({r["hash"] + r["c"] for r in ms if len({m["r"] for m in r["ms"]}) >= 1 and r["ms"]})
    acc.extra["matches_with_results"] = sum(1 for r in ms if r["ms"]); acc.extra["multi_confidence_results"] = sum(1 for r in ms if len({m["r"] for m in r["ms"]}) > 1)
    rc = v.finish()
    vlib.write_evidence(PID, acc.coverage("byte inputs (empty, word-less, binary, CRLF, long lines, only notices), corpus texts edited at rates bracketing 1-threshold, concatenations, scenario files; thresholds 0.01..1.0; corpora with non-ASCII / empty name parts; non-trivial = calls that returned at least one match"),
        ["nLines = newline count + 1, nWords = white-box token count", "thresholds below 0.5 run on a small corpus with short inputs (matching is quadratic there)"], time.time() - t0, len(v.violations))
    return rc
