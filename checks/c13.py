"""C13 -- v1 string classifier finds verbatim occurrences exactly; any value is accepted.
M: V1Classify (generator invariants: plants are copies, context hides nothing).  G: every enumerated case replayed into the real
AddValue/MultipleMatch/NearestMatch (3 concretisations: plain, FlattenWhitespace, multi-byte).  T: seeded larger cases.  Both validated by TraceV1.  V1Uniquify: sort + uniquify as built, model-checked and replayed."""
import time
from lib import vlib
import os
from lib.vlib import tlc, tlc_require_ok, go_overlay_test, read_ndjson, sub
from checks.v2common import Acc, cfg_text
from checks.v1common import run_resumable, trace_v1
PID = "C13"
SRC = ["common/util_test.go", "stringclassifier/sc_driver_test.go"]
def run():
    t0 = time.time(); v = vlib.Verdict(PID); acc = Acc(); th = vlib.TIER == "thorough"
    gen = tlc("V1Classify", "V1Classify.cfg", workers=4, timeout=1800, files={"V1Classify.cfg": cfg_text("V1Classify.cfg", MaxCtx=2 if th else 1)})
    tlc_require_ok(gen, "V1Classify")
    acc.add_tlc(gen, "V1Classify.cfg")
    recs, crashes, txt = run_resumable("stringclassifier", SRC, "TestVerifSCReplay", {"VERIF_IN": gen.outpath, "VERIF_STRIDE": "1" if th else "3"}, "sc.replay")
    for c in crashes:
        v.fail("crash:" + c["what"].split(":")[1].strip()[:40] if ":" in c["what"] else "crash", c)
    lines = trace_v1(v, acc, recs, "replay of V1Classify cases")
    acc.nontrivial += sum(1 for r in lines if r.get("ev") == "mm" and r["plants"])
    acc.samples += [{k: r[k] for k in ("unknown", "plants", "ms")} for r in lines if r.get("ev") == "mm"][:3]
    # the character alphabet {a, b, blank} with contexts over {x, blank}, concatenated: values with blanks at their edges, copies that
    # begin and end inside words of the unknown, copies that abut
    genc = tlc("V1Classify", "V1ClassifyChars.cfg", workers=4, timeout=1800)
    tlc_require_ok(genc, "V1ClassifyChars")
    acc.add_tlc(genc, "V1ClassifyChars.cfg")
    recsc, crashesc, _ = run_resumable("stringclassifier", SRC, "TestVerifSCReplay", {"VERIF_IN": genc.outpath, "VERIF_STRIDE": "1" if th else "4", "VERIF_CONCAT": "1"}, "sc.replaychars")
    for c in crashesc:
        v.fail("crash:" + c["what"].split(":")[1].strip()[:40] if ":" in c["what"] else "crash", c)
    linesc = trace_v1(v, acc, recsc, "replay of V1Classify cases, character alphabet")
    acc.nontrivial += sum(1 for r in linesc if r.get("ev") == "mm" and r["plants"])
    crashes = crashes + crashesc
    # result assembly (sort + uniquify) as built: M on the spec (a copy that shares no byte with another reported range is reported;
    # the loop before fix 2a4e822 must violate it), G every small match set through the real sort and uniquify
    r = tlc_require_ok(tlc("V1Uniquify", "V1UniquifyMC.cfg", timeout=900), "V1Uniquify"); acc.add_tlc(r, "V1UniquifyMC.cfg")
    nv = tlc("V1Uniquify", "V1UniquifyAsBuilt.cfg", timeout=300)
    if nv.violated != "DisjointKept":
        raise vlib.Inconclusive("the inclusive-end variant of uniquify did not violate DisjointKept: " + nv.tail[-1200:])
    acc.tlc.append({"cfg": "V1UniquifyAsBuilt.cfg", "expected_violation": "DisjointKept"})
    gu = tlc_require_ok(tlc("V1Uniquify", "V1UniquifyGen.cfg", timeout=900, workers=4), "V1Uniquify vectors"); acc.add_tlc(gu, "V1UniquifyGen.cfg")
    outu = os.path.join(sub("out"), "uniq.ndjson")
    if os.path.exists(outu):
        os.remove(outu)
    rc, txt, _ = go_overlay_test("stringclassifier", ["common/util_test.go", "stringclassifier/uniq_driver_test.go"], "^TestVerifUniqReplay$", env={"VERIF_IN": gu.outpath, "VERIF_OUT": outu}, timeout=900)
    ru = read_ndjson(outu)
    su = [x for x in ru if x.get("kind") == "summary"]
    if vlib.build_failed(txt) or not su or su[0]["vectors"] == 0:
        raise vlib.Inconclusive("uniquify replay driver failed:\n" + txt[-2500:])
    acc.evaluations += su[0]["vectors"]; acc.extra["uniquify_replay"] = su[0]
    for x in ru:
        if x.get("kind") == "mismatch":
            v.fail("uniquify-replay", x)
    recs2, crashes2, _ = run_resumable("stringclassifier", SRC, "TestVerifSCTrace", {"VERIF_CASES": "1500" if th else "150"}, "sc.trace")
    for c in crashes2:
        v.fail("crash:" + c["what"].split(":")[1].strip()[:40] if ":" in c["what"] else "crash", c)
    lines2 = trace_v1(v, acc, recs2, "seeded cases")
    acc.nontrivial += sum(1 for r in lines2 if r.get("ev") == "mm" and r["plants"])
    acc.extra["crashes"] = len(crashes) + len(crashes2)
    rc = v.finish()
    vlib.write_evidence(PID, acc.coverage("G: 1-2 known values of 1-2 tokens over {aa, bb, ., (, *} (no value inside another), unknown = ctx . copy . ctx [. ctx . copy] with context tokens {xx, -}; plain / FlattenWhitespace / multi-byte concretisations; the same generator over the characters {a, b, blank} (values <= 3, contexts over {x, blank}), concatenated; T: 1-4 values of 1-80 tokens over five vocabularies (words, prose, metacharacters, Unicode, invalid UTF-8), 1-3 copies; non-trivial = MultipleMatch calls with at least one plant", exhaustive=True),
        ["in the token concretisations copies are token aligned; the character alphabet and the seeded cases also glue copies to their context", "overlapping copies of two different values are outside the enumerated domain (uniquify keeps one by design)"], time.time() - t0, len(v.violations))
    return rc
