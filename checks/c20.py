"""C20 -- containers behave as their mathematical models.
M: TLC on Containers (laws, Unaliased) and PQueue (as-built heap: HeapOrder, IdxAccurate, PopsMin, Conserve)
G: every TLC-enumerated behaviour replayed into the real StringSet / IntSet / pq.Queue
T: seeded long runs of the real containers recorded and validated by TLC (TraceContainers, TracePQueue)"""
import json, os, time
from lib import vlib
from lib.vlib import tlc, tlc_require_ok, go_overlay_test, read_ndjson, Verdict, write_evidence, sub, log

PID = "C20"
# the elements of the spec's universe 0..n, concretised in their order: element 1 (the smallest in use) is the EMPTY string / the ints start below zero
# (values like any other to a set)
SETS = [("internal/sets", "StringSet", "string", 'map[bool]string{true: fmt.Sprintf("e%02d", i)}[i != 1]'),
        ("stringclassifier/internal/sets", "IntSet", "int", "i - 2")]


def instantiate(settype, elemtype, conv):
    src = open(os.path.join(vlib.OVERLAY, "sets/sets_driver_test.go")).read()
    src = src.replace("SETTYPE", settype).replace("ELEMTYPE", elemtype).replace("ELEMCONV", conv)
    d = sub("gen")
    p = os.path.join(d, "sets_driver_%s_test.go" % settype)
    open(p, "w").write(src)
    return p


def run_sets_driver(pkg, settype, elemtype, conv, test, env):
    drv = instantiate(settype, elemtype, conv)
    out = os.path.join(sub("out"), "%s.%s.ndjson" % (settype, test))
    if os.path.exists(out):
        os.remove(out)
    e = dict(env, VERIF_OUT=out)
    rc, txt, wall = go_overlay_test(pkg, ["common/util_test.go"], "^%s$" % test, env=e,
                                    extra_files={"zz_verif_sets_driver_test.go": drv})
    if vlib.build_failed(txt) or (rc != 0 and not os.path.exists(out)):
        raise vlib.Inconclusive("driver for %s did not build/run:\n%s" % (settype, txt[-3000:]))
    return rc, txt, read_ndjson(out)


def run():
    t0 = time.time()
    thorough = vlib.TIER == "thorough"
    v = Verdict(PID)
    cov = {"tlc": [], "samples": []}
    states = trans = 0

    # ---- leg M
    for mod, cfg, to in [("Containers", "ContainersMC.cfg", 300),
                         ("PQueue", "PQueueMCBig.cfg" if thorough else "PQueueMC.cfg", 1500)]:
        r = tlc_require_ok(tlc(mod, cfg, timeout=to), "model check " + cfg)
        states += r.distinct; trans += r.generated
        cov["tlc"].append({"cfg": cfg, "distinct": r.distinct, "generated": r.generated, "depth": r.depth, "cmd": r.cmd})
    # non-vacuity of the queue invariants: a queue whose Swap reports no indices must violate IdxAccurate
    # (done once in DESIGN/selftest; not repeated on every run)

    # ---- leg G: sets (all ops, depth 2, every initial state; and deep single-object behaviours)
    replayed = nontrivial = 0
    for cfg, repl in [("ContainersGen.cfg", {}), ("ContainersGenDeep.cfg", {"MaxDepth = 4": "MaxDepth = 5"} if thorough else {})]:
        text = open(os.path.join(vlib.SPECS, cfg)).read()
        for a, b in repl.items():
            text = text.replace(a, b)
        gen = tlc("Containers", cfg, workers=4, timeout=1800, files={cfg: text})
        tlc_require_ok(gen, "vector generation " + cfg)
        states += gen.distinct; trans += gen.generated
        cov["tlc"].append({"cfg": cfg, "distinct": gen.distinct, "generated": gen.generated, "cmd": gen.cmd})
        for pkg, st, et, conv in SETS:
            rc, txt, recs = run_sets_driver(pkg, st, et, conv, "TestVerifSetsReplay", {"VERIF_IN": gen.outpath})
            summ = [r for r in recs if r.get("kind") == "summary"]
            if not summ:
                raise vlib.Inconclusive("no summary from sets replay (%s):\n%s" % (st, txt[-2000:]))
            s = summ[0]
            if s["vectors"] == 0:
                raise vlib.Inconclusive("no vectors reached the %s driver" % st)
            replayed += s["vectors"]; nontrivial += s["nontrivial"]
            d = {k: s[k] for k in ("type", "vectors", "nontrivial", "mismatches", "ops")}
            d["cfg"] = cfg
            cov.setdefault("replay", []).append(d)
            cov["samples"] += [{"type": st, "vector": x} for x in (s.get("samples") or [])[:1]]
            for r in recs:
                if r.get("kind") == "mismatch":
                    v.fail("sets-replay:" + st, r)

    # ---- leg G: queue
    pqfiles = {}
    if thorough:
        pqfiles["PQueueGen.cfg"] = open(os.path.join(vlib.SPECS, "PQueueGen.cfg")).read().replace("MaxDepth = 5", "MaxDepth = 6")
    gq = tlc("PQueue", "PQueueGen.cfg", workers=4, timeout=1800, files=pqfiles)
    tlc_require_ok(gq, "vector generation PQueueGen")
    states += gq.distinct; trans += gq.generated
    cov["tlc"].append({"cfg": "PQueueGen.cfg", "distinct": gq.distinct, "generated": gq.generated, "cmd": gq.cmd})
    out = os.path.join(sub("out"), "pq.replay.ndjson")
    rc, txt, _ = go_overlay_test("stringclassifier/internal/pq", ["common/util_test.go", "pq/pq_driver_test.go"],
                                 "^TestVerifPQReplay$", env={"VERIF_IN": gq.outpath, "VERIF_OUT": out})
    recs = read_ndjson(out)
    summ = [r for r in recs if r.get("kind") == "summary"]
    if vlib.build_failed(txt) or not summ or summ[0]["vectors"] == 0:
        raise vlib.Inconclusive("pq replay driver failed:\n" + txt[-3000:])
    s = summ[0]
    replayed += s["vectors"]; nontrivial += s["nontrivial"]
    cov["replay"].append({k: s[k] for k in ("type", "vectors", "nontrivial", "mismatches", "drift", "ops")})
    cov["samples"] += [{"type": "pq.Queue", "vector": x} for x in (s.get("samples") or [])[:2]]
    for r in recs:
        if r.get("kind") == "mismatch":
            v.fail("pq-replay", r)
    if s.get("drift"):
        log("note: %d vectors differ from the as-built heap transcription while the property holds (spec drift, not a violation)" % s["drift"])

    # ---- leg T
    ntr = 12 if thorough else 4
    steps = 3000 if thorough else 1200
    env = {"VERIF_TRACES": str(ntr), "VERIF_STEPS": str(steps), "VERIF_SEED": str(vlib.SEED)}
    trace_lines, traces = [], 0
    for pkg, st, et, conv in SETS:
        rc, txt, recs = run_sets_driver(pkg, st, et, conv, "TestVerifSetsTrace", env)
        if not recs:
            raise vlib.Inconclusive("no trace from %s:\n%s" % (st, txt[-2000:]))
        for r in recs:
            if r.get("ev") == "fault":
                v.fail("sets-trace-fault:" + st, r)
        trace_lines += [r for r in recs if r.get("ev") != "fault"]
        traces += sum(1 for r in recs if r.get("ev") == "reset")
    tr_sets = "\n".join(json.dumps(r) for r in trace_lines) + "\n"
    res = tlc("TraceContainers", "TraceContainers.cfg", workers=1, timeout=900, files={"trace_sets.ndjson": tr_sets})
    check_trace(v, res, trace_lines, "sets-trace")
    states += res.distinct or 0; trans += res.generated or 0
    cov["tlc"].append({"cfg": "TraceContainers.cfg", "distinct": res.distinct, "events": len(trace_lines), "cmd": res.cmd})

    out = os.path.join(sub("out"), "pq.trace.ndjson")
    rc, txt, _ = go_overlay_test("stringclassifier/internal/pq", ["common/util_test.go", "pq/pq_driver_test.go"],
                                 "^TestVerifPQTrace$", env=dict(env, VERIF_OUT=out))
    recs = read_ndjson(out)
    if vlib.build_failed(txt) or not recs:
        raise vlib.Inconclusive("pq trace driver failed:\n" + txt[-3000:])
    for r in recs:
        if r.get("ev") == "fault":
            v.fail("pq-trace-fault", r)
    outb = os.path.join(sub("out"), "pq.big.ndjson")
    rc, txt, _ = go_overlay_test("stringclassifier/internal/pq", ["common/util_test.go", "pq/pq_driver_test.go"], "^TestVerifPQBig$", env=dict(env, VERIF_OUT=outb))
    rb = read_ndjson(outb)
    if vlib.build_failed(txt) or not [r for r in rb if r.get("ev") == "big"]:
        raise vlib.Inconclusive("pq big-queue driver failed:\n" + txt[-3000:])
    for r in rb:
        if r.get("ev") == "fault":
            v.fail("pq-big-fault", r)
    cov["pq_big_queue_ops"] = [r for r in rb if r.get("ev") == "big"][0]["ops"]
    pql = [r for r in recs if r.get("ev") != "fault"]
    traces += sum(1 for r in pql if r.get("ev") == "reset")
    res = tlc("TracePQueue", "TracePQueue.cfg", workers=1, timeout=900,
              files={"trace_pq.ndjson": "\n".join(json.dumps(r) for r in pql) + "\n"})
    check_trace(v, res, pql, "pq-trace")
    states += res.distinct or 0; trans += res.generated or 0
    cov["tlc"].append({"cfg": "TracePQueue.cfg", "distinct": res.distinct, "events": len(pql), "cmd": res.cmd})
    cov["samples"].append({"trace_event": pql[min(len(pql) - 1, 17)]})

    rc = v.finish()
    cov.update({"states": states, "transitions": trans, "traces_validated_against_impl": traces,
                "vectors_replayed": replayed, "evaluations": replayed + len(trace_lines) + len(pql),
                "distinct_nontrivial": nontrivial,
                "rule": "G: every behaviour of ContainersGen (all initial assignments over U={1,2}, every op sequence of length 2) and of "
                        "PQueueGen (every op sequence of the given length over 4 ids x 3 priorities) replayed on the real types, state compared after each step; "
                        "non-trivial = a set vector whose state changes / a queue vector that reaches >= 3 elements. "
                        "T: seeded runs (Insert/Delete/observer-biased) validated event by event by TLC.",
                "exhaustive": True})
    write_evidence(PID, cov, [
        "container/heap (Go standard library) is transcribed as built in PQueue.tla; a difference from the transcription that keeps the property is reported as drift, not as a violation",
        "set elements are mapped injectively to strings/ints by the harness; Elements() is compared as a set, Sorted() as a sequence"],
        time.time() - t0, violations=len(v.violations))
    return rc


def check_trace(v, res, lines, sig):
    """Trace validation verdict: accepted <=> postcondition holds."""
    if res.timed_out or (res.error and not res.violated):
        raise vlib.Inconclusive("trace validation did not run: %s\n%s" % (res.cmd, res.tail[-2000:]))
    if res.ok:
        return
    # rejected: longest accepted prefix = diameter-1 ; TLC reports depth
    depth = res.depth or 0
    idx = max(0, depth - 1)
    nxt = lines[idx] if idx < len(lines) else None
    v.fail(sig, {"rejected_at_event": idx + 1, "event": nxt, "prev": lines[idx - 1] if idx > 0 else None,
                 "tlc": res.violated, "of": len(lines)})
