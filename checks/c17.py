"""C17 -- v1 token offsets and candidate ranges delimit real text.
M: V1Tokens (TextAtOffset, Ordered, InString, CoversNonSpace on every class string; the pre-fix text construction must fail).
G: every enumerated string concretised twice and tokenised by the real Tokenize.  T: FindPotentialMatches on all pairs over {a,b} up to length 6(7) + seeded long noisy pairs, TraceV1.RangesOK."""
import os, time
from lib import vlib
from lib.vlib import tlc, tlc_require_ok, go_overlay_test, read_ndjson, sub
from checks.v2common import Acc, cfg_text
from checks.v1common import trace_v1, run_resumable
PID = "C17"
def run():
    t0 = time.time(); v = vlib.Verdict(PID); acc = Acc(); th = vlib.TIER == "thorough"
    ml = 6 if th else 5
    r = tlc_require_ok(tlc("V1Tokens", "V1TokensMC.cfg", timeout=1800, files={"V1TokensMC.cfg": cfg_text("V1TokensMC.cfg", MaxLen=ml)}), "V1TokensMC")
    acc.add_tlc(r, "V1TokensMC.cfg", MaxLen=ml)
    nv = tlc("V1Tokens", "V1TokensAsBuilt.cfg", timeout=600)
    if nv.violated != "TextAtOffset":
        raise vlib.Inconclusive("text-from-decoded-rune did not violate TextAtOffset: " + nv.tail[-1500:])
    acc.tlc.append({"cfg": "V1TokensAsBuilt.cfg", "expected_violation": nv.violated})
    gen = tlc("V1Tokens", "V1TokensGen.cfg", workers=4, timeout=1800, files={"V1TokensGen.cfg": cfg_text("V1TokensGen.cfg", MaxLen=ml)})
    tlc_require_ok(gen, "V1TokensGen"); acc.add_tlc(gen, "V1TokensGen.cfg", MaxLen=ml)
    out = os.path.join(sub("out"), "v1tok.ndjson")
    rc, txt, _ = go_overlay_test("stringclassifier/searchset/tokenizer", ["common/util_test.go", "v1tokenizer/v1tok_driver_test.go"], "^TestVerifV1TokReplay$",
                                 env={"VERIF_IN": gen.outpath, "VERIF_OUT": out}, timeout=1800)
    recs = read_ndjson(out)
    summ = [x for x in recs if x.get("kind") == "summary"]
    if vlib.build_failed(txt) or not summ or summ[0]["vectors"] == 0:
        raise vlib.Inconclusive("tokenizer replay failed:\n" + txt[-3000:])
    s = summ[0]
    acc.evaluations += s["vectors"] * 2; acc.nontrivial += s["nontrivial"]
    acc.extra["replay"] = {k: s[k] for k in ("vectors", "nontrivial", "mismatches")}
    acc.samples += [{"vector": x} for x in (s.get("samples") or [])[:2]]
    for x in recs:
        if x.get("kind") == "mismatch":
            v.fail("tokenize", x)
    out2 = os.path.join(sub("out"), "fpm.ndjson")
    rc, txt, _ = go_overlay_test("stringclassifier/searchset", ["common/util_test.go", "searchset/fpm_driver_test.go"], "^TestVerifFPMTrace$",
                                 env={"VERIF_OUT": out2, "VERIF_SEED": str(vlib.SEED), "VERIF_MAXLEN": "7" if th else "6", "VERIF_LONG": "3000" if th else "300", "VERIF_MAXSRC": "12" if th else "10", "VERIF_MAXTGT": "6" if th else "5"}, timeout=2400)
    recs = read_ndjson(out2)
    if vlib.build_failed(txt) or not recs:
        raise vlib.Inconclusive("fpm driver failed:\n" + txt[-3000:])
    lines = trace_v1(v, acc, recs, "FindPotentialMatches")
    acc.nontrivial += sum(1 for x in lines if x.get("cands"))
    acc.samples += [{k: x[k] for k in ("src", "tgt", "cands", "bytes")} for x in lines if len(x.get("cands", [])) > 1][:2]
    # "... so a Match's Offset/Extent can always be used to slice the normalised input": the enumerated cases of V1Classify through the
    # real MultipleMatch / NearestMatch, three concretisations (one with a normaliser that shortens the text); TraceV1.InBounds on every result
    gen = tlc("V1Classify", "V1Classify.cfg", workers=4, timeout=1800, files={"V1Classify.cfg": cfg_text("V1Classify.cfg", MaxCtx=1)})
    tlc_require_ok(gen, "V1Classify"); acc.add_tlc(gen, "V1Classify.cfg")
    recs3, crashes, _ = run_resumable("stringclassifier", ["common/util_test.go", "stringclassifier/sc_driver_test.go"], "TestVerifSCReplay",
                                      {"VERIF_IN": gen.outpath, "VERIF_STRIDE": "2" if th else "5"}, "sc.replay17")
    for c in crashes:
        v.fail("crash", c)
    lines3 = trace_v1(v, acc, recs3, "MultipleMatch / NearestMatch results inside the normalised unknown")
    acc.extra["classifier_results_checked"] = sum(1 for x in lines3 if x.get("ev") in ("mm", "nm"))
    # ... and the character alphabet {a, b, blank}: values that are nothing but white space, values with blanks at their edges
    genc = tlc("V1Classify", "V1ClassifyChars.cfg", workers=4, timeout=1800)
    tlc_require_ok(genc, "V1ClassifyChars"); acc.add_tlc(genc, "V1ClassifyChars.cfg")
    recs4, crashes4, _ = run_resumable("stringclassifier", ["common/util_test.go", "stringclassifier/sc_driver_test.go"], "TestVerifSCReplay",
                                       {"VERIF_IN": genc.outpath, "VERIF_STRIDE": "2" if th else "6", "VERIF_CONCAT": "1"}, "sc.replay17c")
    for c in crashes4:
        v.fail("crash", c)
    lines4 = trace_v1(v, acc, recs4, "MultipleMatch / NearestMatch results inside the normalised unknown, character alphabet")
    acc.extra["classifier_results_checked"] += sum(1 for x in lines4 if x.get("ev") in ("mm", "nm"))
    rc = v.finish()
    vlib.write_evidence(PID, acc.coverage("M/G: every string <= MaxLen over 8 byte-width classes (ASCII / multi-byte space, punctuation, letters of 1, 2, 4 bytes, invalid byte), two concretisations; T: every source (>= 3 tokens) x target pair over the vocabulary {a, b} up to the stated length, every longer source (<= 10, thorough 12 tokens) x every target of 3..5 (6) tokens over the same two words (highly repetitive), and seeded long noisy copies; non-trivial = strings with >= 2 tokens / pairs with at least one candidate", exhaustive=True),
        ["the range heuristics of searchset (untangle / split / merge / coalesce) are checked against their contract, not transcribed"], time.time() - t0, len(v.violations))
    return rc
