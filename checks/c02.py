"""C02 -- confidence never overstates similarity.  M: EditLemma (Cost of a valid script >= Levenshtein); V2Score (diffRange / scoreDiffs as built: RangeSpells, ScoreRange).  G: every small edit script through the real scoring functions; V2Runes: every boundary id through idToRune / string([]rune) / go-diff / runeToID.  T: every score() call recorded through the hook; TLC checks the script is valid, dist = Cost, spans/lines follow."""
import time
from lib import vlib
from lib.vlib import tlc, tlc_require_ok
from checks.v2common import Acc, trace_leg, cfg_text, score_legs, runes_legs, tok_replay, diffrename_leg, pad_leg
PID = "C02"
def run():
    t0 = time.time(); v = vlib.Verdict(PID); acc = Acc()
    text = cfg_text("EditLemma.cfg", MaxOps=5) if vlib.TIER == "thorough" else cfg_text("EditLemma.cfg")
    r = tlc_require_ok(tlc("EditLemma", "EditLemma.cfg", timeout=1500, files={"EditLemma.cfg": text}), "EditLemma")
    acc.add_tlc(r, "EditLemma.cfg")
    score_legs(v, acc, 4 if vlib.TIER == "thorough" else 3)
    tok_replay(v, acc, ["H"], 5 if vlib.TIER == "thorough" else 4)     # StartLine / EndLine are the tokenizer's lines: hyphen-ended lines, blank lines after them
    pad_leg(v, acc)                                      # ... at every alignment with the tokenizer's read buffer (words broken over lines included)
    diffrename_leg(v, acc, 30)                           # the edit script is a function of which tokens are equal, not of their numbers
    runes_legs(v, acc)                                   # the id <-> rune channel to go-diff at every boundary of the encoding
    recs, lines = trace_leg(v, acc, "c02", [PID])
    sc = [r for r in lines if r.get("ev") == "score"]
    acc.nontrivial = len({(r["in"], r["doc"]) for r in sc if r["dist"] > 0})
    acc.extra["score_calls"] = len(sc)
    rc = v.finish()
    vlib.write_evidence(PID, acc.coverage("exact, edited (2-15% word deletions/substitutions/insertions), truncated and concatenated corpus texts, scenario files, prose; every call of score() is an event carrying the library's edit script and both token-id sequences; non-trivial = scored candidates with distance > 0"),
        ["go-diff is an environment: its script is checked for validity on every call, not trusted", "Confidence == 1 - dist/|K| is compared bit-exactly by the recorder", "a dictionary of 56 080 words is exercised (ids beyond the surrogate range); beyond 1.1 M words ids leave the rune range"], time.time() - t0, len(v.violations))
    return rc
