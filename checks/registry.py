"""Single source for MANIFEST.json (bin/mkmanifest)."""
SETUP = "cd /verif && python3 -c \"import lib.vlib\" && tlc -h >/dev/null 2>&1; true"
HOOKS = {
    "guard": "verif",
    "enable": "go test -tags verif; white-box drivers are injected with `go test -overlay` (nothing is written under /repo); hook call sites are `if verifOn {...}` with verifOn a constant false unless the tag is set",
    "baseline_off_cmd": "cd /repo && export GOFLAGS=-mod=mod GOPROXY=off GOSUMDB=off GOTOOLCHAIN=local && for m in . v2; do (cd $m && go test -vet=off -count=1 -timeout 25m ./...) ; done",
    "source_commits": ["ff568a1", "e8b7a00", "18a6704", "5cfaf6a"],
    "add_only": True,
}
ENGINES = [
    {"name": "tlc", "path": "/verif/specs", "serves_properties": [], "kind_free_text": "explicit TLA+ specifications checked with TLC 1.8 (model checking, vector generation, trace validation)"},
    {"name": "go-drivers", "path": "/verif/overlay", "serves_properties": [], "kind_free_text": "in-package Go drivers injected with go test -overlay: replay TLC vectors into the real code, record traces of the real code"},
]
NOTES = "bin/check <Cnn>: legs M (TLC model check), G (TLC-generated behaviours replayed into the code), T (recorded traces validated by TLC). Exit 2 = inconclusive, never a violation. See DESIGN.md."
NOT_APPLICABLE = {}
CHECKS = {
    "C18": {
        "technique": "TLA+ spec CommentLexer (mode machine per rune, pinned language tables): TLC enumerates every token string up to a bound per language class, each replayed into the real Parse/ChunkIterator; seeded long programs validated by TLC",
        "text": "The reference lexer of the property is an explicit TLA+ mode machine; TLC checks its own laws (order, line bounds, chunk law) and enumerates all inputs <= 5 tokens (6 thorough) over delimiter-rich alphabets for all 21 behaviour classes covering the 49 Language values; the real parser must agree on every one, for every language of the class, in ASCII and multi-byte concretisations. Long seeded programs are validated by TLC against the same spec. Letters are concretised as ASCII, two-byte, U+FFFD and an invalid byte; a consumer that writes into every chunk it receives.",
        "note": "language tables are a pinned snapshot; unterminated trailing lexemes may be dropped or reported; invalid UTF-8 as one letter class; 'consecutive lines' read as start lines differing by <= 1 (pinned by the repository's own test).",
    },
    "C20": {
        "technique": "TLA+ specs Containers/PQueue: TLC model check + every TLC-enumerated behaviour replayed into the real types + recorded traces validated by TLC",
        "text": "TLC explores the set algebra spec and the as-built heap transcription exhaustively for small universes; every generated behaviour (all ops from every abstract state, depth 2; deep single-object runs; queue runs of length 5) is replayed on StringSet, IntSet and pq.Queue with the state compared white-box after each step; seeded long runs are validated event by event against the specs. Queues that grow to 5000 elements and drain are checked by the driver after every operation; the empty string and negative ints are elements like any other.",
        "note": "container/heap is transcribed as built; exhaustive only within the stated bounds (|U|=2 for generation, 4 ids x 3 priorities), long runs are sampled.",
    },
}

_V2 = "TLA+ specs V2Tokenizer/V2TokGen (tokenizer as built), V2Contract/TraceV2 (API contract): TLC model check + TLC-enumerated inputs replayed into the real tokenizer + recorded API histories validated by TLC"
CHECKS.update({
    "C01": {"technique": "TLA+ mechanism specs V2Match (candidate stage as built) and V2Retain (overlap filter as built; every small candidate set injected into the real match()) model-checked and replayed into the real functions + recorded Match histories validated by TLC against V2Contract (PlantedFound); plants positioned by white-box tokenisation",
            "text": "Every corpus document (all at 0.8, samples at 0.7/0.75/0.9/1.0, plus user documents of q, q+1, 2q words) is planted 1-3 at a time between out-of-vocabulary blocks; TLC accepts the recorded history only if every plant has a match with its type and name, confidence bit-equal to 1.0 and exactly the planted token span and lines.",
            "note": "real documents sampled per threshold; OOV words verified white-box; the candidate stage is an explicit TLC model (V2Match) replayed into the real stage functions on every small pair, the scoring stage is an environment."},
    "C02": {"technique": "TLC lemma (EditLemma: cost of any valid script >= Levenshtein) + TLA+ spec V2Score (diffRange / scoreDiffs as built) model-checked and replayed script by script into the real functions + per-call validation of the library's edit script recorded through the score hook (TraceV2 ScoreOK/Scored)",
            "text": "TLC proves the lemma exhaustively on small sequences; on real inputs every score() call is an event with the script and both token sequences, TLC checks validity, dist = Cost(script), the trimmed prefix/suffix, and that each reported match is backed by such a call with bit-equal confidence, span and lines.",
            "note": "go-diff is an environment whose output is checked per call; sampled inputs."},
    "C03": {"technique": "TLA+ specs V2Match (InBounds model check), V2Retain (overlap filter: Ordered, NonEmpty; every small candidate set injected into the real match()) and V2Tokenizer (TLC-enumerated inputs replayed into the real tokenizer: what a word is) + buffer-alignment sweep + recorded Match histories validated by TLC against V2Contract.WellFormed / RetainRet",
            "text": "Arbitrary byte inputs, texts edited at rates bracketing 1-threshold, concatenations and scenario files at 7 thresholds and corpora with odd names; TLC evaluates threshold <= confidence <= 1.0 (as ranks), corpus membership, line/token bounds and ordering on every return.",
            "note": "sampled inputs; thresholds below 0.5 on small corpora."},
    "C04": {"technique": "TLA+ spec V2Corpus (the classifier's long-lived state as a state machine; IdsStable, Replace, MatchIsPure) model-checked and every short history replayed on a real Classifier; specs V2Match / V2Score / V2Runes replayed into the real stage, scoring and id-channel functions (a deterministic spec function is the reference: tie orders, map-ranging rules, id boundaries) + recorded call histories of 5 classifiers x 3 processes validated by TLC (memo of results per input, PureMatch/PureGrow guards incl. the caller's spare capacity)",
            "text": "The same inputs are matched on classifiers that differ in insertion order, unrelated extra documents, tracing and instance, with interleaved Match/MatchFrom/Normalize calls and in separate processes; TLC requires identical projected Results per input and unchanged documents, dictionary and caller bytes.",
            "note": "sampled inputs and histories; map seeds vary by process."},
    "C05": {"technique": _V2 + "; relational invariants Recase/Respace/Decorate/Typographic/BlankLine",
            "text": "TLC checks the single-site invariance relations on every input <= 5 (6 thorough) over two alphabets; every enumerated input is replayed into the real tokenizer (spec = code on all of them); 17 transformation kinds and compositions on real documents are validated as Pair events.",
            "note": "exhaustive within the alphabets/bounds; real documents sampled in quick, all in thorough."},
    "C06": {"technique": _V2 + "; invariants NoticeIns/Marker, expected counter-examples MarkerParen/HyphenSplit replayed as probes",
            "text": "As C05 with chunk alphabets (copyright/date/marker chunks, spelling pairs, URL scheme); notice insertion, markers, hyphen split, spellings, http/https on real documents; three recorded findings are re-observed on every run.",
            "note": "open findings: notices inside a matched span, marker a), header-like word after a split word."},
    "C07": {"technique": "TLA+ spec V2Match at thresholds 0.5 and 0.8 model-checked and replayed stage by stage into the real functions + buffer-alignment sweep + recorded Match pairs (X alone, P.X.S) validated by TLC (V2Contract.Pair, kind shift); known clamp finding recognised by hook signature",
            "text": "Edited corpus texts, scenario files and concatenations alone and between out-of-vocabulary blocks; TLC requires the bag of matches to be equal after shifting token indices and lines.",
            "note": "sampled inputs."},
    "C08": {"technique": "TLA+ specs V2Buffer (byte buffer, carry-over, stale bytes) and V2Fill (the refill loop, one action per Read; liveness) model-checked with non-vacuity configs, every reader script replayed into the real fill() + recorded MatchFrom/Match histories validated by TLC",
            "text": "TLC explores every stream of <= 3 (4) runes of widths 1-4 incl. truncated sequences x every pad 0..20 x reader faults for BufSize 8; on the real code 8 fragmentations, every pad 0..2056 and failing readers at every offset, readers with empty reads, and calls that overlap in time after failed ones are recorded and validated (Pair / MatchFail / memo).",
            "note": "buffer model is scaled (8 bytes); sticky reader errors."},
    "C10": {"technique": "TLC-enumerated tokenizer inputs replayed under recover + recorded histories of mutated inputs x thresholds x corpora with per-call watchdog, validated by TLC (every return WellFormed)",
            "text": "Structure-aware mutations (invalid UTF-8, NULs, entities, megabyte lines, storms, boundary truncation) x thresholds 0..1 x corpora (small, empty, with empty documents, full) through Match, MatchFrom, Normalize, AddContent; a panic or timeout is an event without a spec action.",
            "note": "complexity beyond the 120 s watchdog is out of scope; sampled."},
    "C11": {"technique": _V2 + "; invariant Fixpoint (TokT(Normalize(in)) = TokT(in)) and byte-exact replay of Normalize",
            "text": "TLC checks the fixpoint on every small input, the real Normalize output is compared byte for byte with the spec's renderer on every enumerated input, and on real documents tokens of Normalize(in) vs in and Match results are validated as Pair events.",
            "note": "open findings: token ending in a hyphen at a line end; cleaned line that reads as a notice."},
    "C12": {"technique": "TLA+ spec V2Load (intended semantics) enumerates trees x spellings x histories (fresh / keys registered before / reloaded after edits); each materialised on disk and loaded by the real LoadLicenses; assets directory and DefaultClassifier compared by Match results",
            "text": "All sets of <= 2 (3) files from 104 candidates (depth 1..5, four suffix kinds) x 9 spellings with a fresh classifier, plus two histories; names with a leading dot; CRLF / BOM / invalid bytes in the files; corpus keys and Match equivalence with AddContent; LoadLicenses(assets) under 4 spellings and DefaultClassifier on all 431 documents + scenarios. Histories with emptied files and with symbolic links as corpus files; directories that do not exist, a file given as the directory, more files than descriptors.",
            "note": "exhaustive within the candidate set."},
})

CHECKS.update({
    "C13": {"technique": "TLA+ generator/contract V1Classify + V1Contract: TLC-enumerated cases and seeded cases replayed into the real stringclassifier (crash-isolated, resumable), call/return events validated by TLC (TraceV1: ExactFound, ConfRange, InBounds, NearestSelf, NoPanic)",
            "text": "Every case of 1-2 known values over words / punctuation / metacharacters with copies in context (23 k quick, 71 k+ thorough) in three concretisations, plus seeded values up to 80 tokens over five vocabularies incl. invalid UTF-8; a process death is attributed to the journalled case.",
            "note": "token and character alphabets (the latter with blank-edged values, glued and abutting copies); the fuzzy path (searchset heuristics) is checked against its contract only."},
    "C14": {"technique": "TLA+ protocol spec V1Classifier (lazy search-set) model-checked incl. liveness + hook-event histories of concurrent calls validated by TLC with vector-clock happens-before (TraceConc) + results vs sequential results (TraceV1); Go race detector as second sensor; unbounded companion V1ClassifierProof checked by tlapm (NoRace, SetWhenUsed, LazyOnce for any number of callers and values)",
            "text": "TLC explores all interleavings of 3 callers x 2 values of the repaired protocol (and refutes the check-outside-lock variant); on the real code every lock operation, access and fork is an event and TLC recomputes happens-before, rejecting the history at the first unordered conflicting access. AddValue is started at every lock release of a running call (hooks as scheduler gates); 256 calls released together run under a watchdog (a hang is a violation).",
            "note": "25 (150) rounds of 4 (8) callers; License with precomputed sets covered through results and the race detector."},
    "C15": {"technique": "TLA+ specs V1Archive (entry pairing, RoundTrip) with every small ordered file set archived and loaded for real and V1ArchiveWriter (buffering compressor over a destination that fails; success means written) bound by failing destinations under the real ArchiveLicenses + recorded NearestMatch/MultipleMatch answers of an archive-loaded and a directly built License validated by TLC (TraceV1 memo equality, key sets, normalised values)",
            "text": "Seeded subsets/orderings of the shipped licenses plus synthetic files go through the real ArchiveLicenses and New(ArchiveBytes); both classifiers must hold the same keys and values and answer 16 (60) queries per round identically.",
            "note": "NearestMatch compared at or above the threshold only (undefined among ties; go-diff's 1 s deadline)."},
    "C16": {"technique": "TLA+ spec V1Normalize (normaliser pipeline as built; NormRecase, NormDecorate) model-checked and replayed into the real normalizeText + recorded NearestMatch/MultipleMatch calls on corpus texts and presentation variants validated by TLC (TraceV1 guards want/floor)",
            "text": "40 (178) shipped licenses x {original, upper, lower, re-flowed, decorated}: canonical name at or above the threshold (1.0 when the normalised text is equal); every MultipleMatch confidence at or above the threshold.",
            "note": "the archive is built in the check with ArchiveLicenses; sampled in quick."},
    "C17": {"technique": "TLA+ spec V1Tokens (per-rune tokenizer over byte-width classes) model-checked, every enumerated string replayed into the real Tokenize; FindPotentialMatches on all low-vocabulary pairs validated by TLC (TraceV1.RangesOK)",
            "text": "TextAtOffset / Ordered / CoversNonSpace hold on every class string <= 5 (6); the real tokenizer agrees on all of them in two concretisations; candidate ranges of 15 k+ repetitive pairs and seeded long noisy pairs satisfy the target-side bounds and convert to byte ranges inside the target.",
            "note": "the searchset range heuristics are checked against their contract, not transcribed."},
})

CHECKS.update({
    "C09": {"technique": "TLA+ ownership spec V2Concurrent (NoRace, SeqEquivalent; sharing the corpus array with the diff library refuted) and V2Backend (result list of the CLI backend under overlapping runs; a lock per run refuted) model-checked + concurrent Match histories validated by TLC against the sequential results (TraceV2 memo) + race detector as sensor for accesses inside the dependency; unbounded companion V2BackendProof checked by tlapm",
            "text": "8 (64) goroutines match 15 inputs that make them score the same documents concurrently; every concurrent result must equal the sequential one bit for bit; the diffcall hook shows whether corpus storage is handed to go-diff; data races are observed by the race detector; adjacent sub-slices of one buffer as inputs; overlapping ClassifyLicenses runs on one backend must append R times the entries of one run. A helper process makes its very first calls concurrently on an empty classifier (cold start), also under the race detector.",
            "note": "the write happens inside a dependency where no hook can sit; the race detector's report is the observation, the model supplies the ownership rule and the schedule."},
    "C19": {"technique": "TLA+ specs V2Pool (token pool, WaitGroup, mutex-protected append; liveness; three refuted variants), V2CLIScope (expandFiles) and V2CLILines (readFileLines) model-checked, every enumerated scope / quoting case replayed into the real functions + real CLI runs validated by TLC (TraceCLI.CLIReturn) against in-process Match",
            "text": "TLC explores all interleavings of 3 files / 2 tasks: no lost append, bounded concurrency, no send on the closed channel, termination; the binary built from the current tree (and a -race build) runs over seeded trees x flags x -tasks and its stdout, JSON and exit status must be exactly what Match returns for the files' bytes.",
            "note": "-tasks 0 is outside the domain; lock modes are not observable through hooks, lost appends are looked for with files that produce 1500+ matches and the -race build."},
})
for e in ENGINES:
    e["serves_properties"] = sorted(CHECKS)
