"""Single source for MANIFEST.json (bin/mkmanifest)."""
SETUP = "cd /verif && python3 -c \"import lib.vlib\" && tlc -h >/dev/null 2>&1; true"
HOOKS = {
    "guard": "verif",
    "enable": "go test -tags verif; white-box drivers are injected with `go test -overlay` (nothing is written under /repo); hook call sites are `if verifOn {...}` with verifOn a constant false unless the tag is set",
    "baseline_off_cmd": "cd /repo && export GOFLAGS=-mod=mod GOPROXY=off GOSUMDB=off GOTOOLCHAIN=local && for m in . v2; do (cd $m && go test -vet=off -count=1 -timeout 25m ./...) ; done",
    "source_commits": [],
    "add_only": True,
}
ENGINES = [
    {"name": "tlc", "path": "/verif/specs", "serves_properties": [], "kind_free_text": "explicit TLA+ specifications checked with TLC 1.8 (model checking, vector generation, trace validation)"},
    {"name": "go-drivers", "path": "/verif/overlay", "serves_properties": [], "kind_free_text": "in-package Go drivers injected with go test -overlay: replay TLC vectors into the real code, record traces of the real code"},
]
NOTES = "bin/check <Cnn>: legs M (TLC model check), G (TLC-generated behaviours replayed into the code), T (recorded traces validated by TLC). Exit 2 = inconclusive, never a violation. See DESIGN.md."
NOT_APPLICABLE = {}
CHECKS = {
    "C18": {
        "technique": "TLA+ spec CommentLexer (mode machine per rune, pinned language tables): TLC enumerates every token string up to a bound per language class, each replayed into the real Parse/ChunkIterator; seeded long programs validated by TLC",
        "text": "The reference lexer of the property is an explicit TLA+ mode machine; TLC checks its own laws (order, line bounds, chunk law) and enumerates all inputs <= 5 tokens (6 thorough) over delimiter-rich alphabets for all 21 behaviour classes covering the 49 Language values; the real parser must agree on every one, for every language of the class, in ASCII and multi-byte concretisations. Long seeded programs are validated by TLC against the same spec.",
        "note": "language tables are a pinned snapshot; unterminated trailing lexemes may be dropped or reported; invalid UTF-8 not enumerated; 'consecutive lines' read as start lines differing by <= 1 (pinned by the repository's own test).",
    },
    "C20": {
        "technique": "TLA+ specs Containers/PQueue: TLC model check + every TLC-enumerated behaviour replayed into the real types + recorded traces validated by TLC",
        "text": "TLC explores the set algebra spec and the as-built heap transcription exhaustively for small universes; every generated behaviour (all ops from every abstract state, depth 2; deep single-object runs; queue runs of length 5) is replayed on StringSet, IntSet and pq.Queue with the state compared white-box after each step; seeded long runs are validated event by event against the specs.",
        "note": "container/heap is transcribed as built; exhaustive only within the stated bounds (|U|=2 for generation, 4 ids x 3 priorities), long runs are sampled.",
    },
}
for e in ENGINES:
    e["serves_properties"] = sorted(CHECKS)
