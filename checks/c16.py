"""C16 -- the v1 License classifier identifies every license of its own corpus.  M: V1Normalize (the normaliser pipeline as built is invariant under re-casing and comment decoration).  G: every small input through the real normalizeText.  T: NearestMatch on shipped texts and their upper/lower-cased, re-flowed and decorated variants must return the canonical name at or above the threshold; MultipleMatch never returns a confidence below the threshold (TraceV1 guards want / floor)."""
import time
from lib import vlib
from checks.v2common import Acc
from checks.v1common import trace_v1, library_panic
from checks.c15 import run_lic
import os
from lib.vlib import tlc, tlc_require_ok, go_overlay_test, read_ndjson, sub
from checks.v2common import cfg_text
PID = "C16"
def run():
    t0 = time.time(); v = vlib.Verdict(PID); acc = Acc(); th = vlib.TIER == "thorough"
    # M: normaliser pipeline as built -- invariant under re-casing and decoration.  G: every small input through normalizeText
    r = tlc_require_ok(tlc("V1NormalizeMC", "V1NormalizeMC.cfg", timeout=1800, files={"V1NormalizeMC.cfg": cfg_text("V1NormalizeMC.cfg", MaxLen=4 if th else 3)}), "V1NormalizeMC")
    acc.add_tlc(r, "V1NormalizeMC.cfg")
    gen = tlc("V1NormalizeMC", "V1NormalizeGen.cfg", timeout=1800, files={"V1NormalizeGen.cfg": cfg_text("V1NormalizeGen.cfg", MaxLen=5 if th else 4)})
    tlc_require_ok(gen, "V1NormalizeGen"); acc.add_tlc(gen, "V1NormalizeGen.cfg")
    out = os.path.join(sub("out"), "norm.ndjson")
    rc, txt, _ = go_overlay_test(".", ["common/util_test.go", "root/norm_driver_test.go"], "^TestVerifNormReplay$", env={"VERIF_IN": gen.outpath, "VERIF_OUT": out}, timeout=1800,
                                 abs_extra={os.path.join(vlib.REPO, "classifier_test.go"): os.path.join(vlib.OVERLAY, "root/stub_test.go")})
    rr = read_ndjson(out)
    summ = [x for x in rr if x.get("kind") == "summary"]
    if vlib.build_failed(txt) or not summ or summ[0]["vectors"] == 0:
        raise vlib.Inconclusive("normaliser replay driver failed:\n" + txt[-3000:])
    acc.evaluations += summ[0]["vectors"]; acc.extra["normalizer_replay"] = {k: summ[0][k] for k in ("vectors", "nontrivial", "mismatches")}
    acc.samples += [{"vector": x} for x in (summ[0].get("samples") or [])[:1]]
    for x in rr:
        if x.get("kind") == "mismatch":
            v.fail("normalizer-replay", x)
    env = {"VERIF_FILES": "178" if th else "40", "VERIF_VARIANTS": "upper,lower,reflow,decorated,oneline" if th else "upper,reflow,decorated,oneline"}
    recs, rc, txt = run_lic("TestVerifC16", env, timeout=7000)
    for r in recs:
        if r.get("ev") == "loadfail":
            v.fail("loadfail", r)
    if rc != 0:
        library_panic(v, txt, "serializer driver")      # a panic inside the library (not the driver) is the violation itself
    if rc != 0 and not v.violations:
        raise vlib.Inconclusive("C16 driver ended abnormally:\n" + txt[-3000:])
    lines = trace_v1(v, acc, recs, "corpus self identification")
    acc.nontrivial = len({r["q"] for r in lines if r.get("ev") == "nm"})
    acc.samples += [{k: r[k] for k in ("q", "want", "m")} for r in lines if r.get("ev") == "nm"][:3]
    rc = v.finish()
    vlib.write_evidence(PID, acc.coverage("a seeded sample of the 178 files under licenses/ (all in the thorough tier) x {original, upper, lower, re-flowed, decorated}; MultipleMatch on the text and on a noisy copy; distinct = (file, variant) queries"),
        ["the archive is built in the check with ArchiveLicenses (licenses.db is not shipped in this tree)", "non-identical variants run full diffs and are slow: sampled in the quick tier"], time.time() - t0, len(v.violations))
    return rc
