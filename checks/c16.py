"""C16 -- the v1 License classifier identifies every license of its own corpus.  T: NearestMatch on shipped texts and their upper/lower-cased, re-flowed and decorated variants must return the canonical name at or above the threshold; MultipleMatch never returns a confidence below the threshold (TraceV1 guards want / floor)."""
import time
from lib import vlib
from checks.v2common import Acc
from checks.v1common import trace_v1
from checks.c15 import run_lic
PID = "C16"
def run():
    t0 = time.time(); v = vlib.Verdict(PID); acc = Acc(); th = vlib.TIER == "thorough"
    env = {"VERIF_FILES": "178" if th else "40", "VERIF_VARIANTS": "upper,lower,reflow,decorated,oneline" if th else "upper,reflow,decorated,oneline"}
    recs, rc, txt = run_lic("TestVerifC16", env, timeout=7000)
    for r in recs:
        if r.get("ev") == "loadfail":
            v.fail("loadfail", r)
    if rc != 0 and not v.violations:
        raise vlib.Inconclusive("C16 driver ended abnormally:\n" + txt[-3000:])
    lines = trace_v1(v, acc, recs, "corpus self identification")
    acc.nontrivial = len({r["q"] for r in lines if r.get("ev") == "nm"})
    acc.samples += [{k: r[k] for k in ("q", "want", "m")} for r in lines if r.get("ev") == "nm"][:3]
    rc = v.finish()
    vlib.write_evidence(PID, acc.coverage("a seeded sample of the 178 files under licenses/ (all in the thorough tier) x {original, upper, lower, re-flowed, decorated}; MultipleMatch on the text and on a noisy copy; distinct = (file, variant) queries"),
        ["the archive is built in the check with ArchiveLicenses (licenses.db is not shipped in this tree)", "non-identical variants run full diffs and are slow: sampled in the quick tier"], time.time() - t0, len(v.violations))
    return rc
