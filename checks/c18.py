"""C18 -- comment extraction returns exactly the comments of a source file.
M: TLC on CommentLexer (reference lexer: order, line bounds, chunk law) over every token string <= MaxTok for 21 language groups
G: every enumerated input concretised (ASCII and multi-byte letters) and parsed by the real Parse/ChunkIterator for every
   language of the group; compared with the reference
T: seeded long programs per group; real results validated by TLC (TraceCommentLexer)"""
import json, os, time
from lib import vlib
from lib.vlib import tlc, tlc_require_ok, go_overlay_test, read_ndjson, Verdict, write_evidence, sub, log
PID = "C18"
TABLES = os.path.join(vlib.SPECS, "langtables.json")
DRV = ["common/util_test.go", "commentparser/cp_driver_test.go"]


def cfg_with(name, maxtok):
    return open(os.path.join(vlib.SPECS, name)).read().replace("MaxTok = 4", "MaxTok = %d" % maxtok).replace("MaxTok = 5", "MaxTok = %d" % maxtok)


def run():
    t0 = time.time()
    thorough = vlib.TIER == "thorough"
    v = Verdict(PID)
    cov = {"tlc": [], "samples": []}
    states = trans = 0
    maxtok = 6 if thorough else 5

    # leg M
    r = tlc_require_ok(tlc("CommentLexer", "CommentLexerMC.cfg", timeout=3000, files={"CommentLexerMC.cfg": cfg_with("CommentLexerMC.cfg", maxtok - 1)}), "CommentLexerMC")
    states += r.distinct; trans += r.generated
    cov["tlc"].append({"cfg": "CommentLexerMC.cfg", "MaxTok": maxtok - 1, "distinct": r.distinct, "generated": r.generated, "cmd": r.cmd})
    # non-vacuity: with the two historical deviations switched on the lexer differs from the reference
    nv = tlc("CommentLexer", "CommentLexerNonVac.cfg", timeout=600, files={"CommentLexerNonVac.cfg": cfg_with("CommentLexerNonVac.cfg", 3)})
    if nv.violated != "SameAsBuilt":
        raise vlib.Inconclusive("non-vacuity run did not separate the deviations from the reference: %s" % nv.tail[-1500:])
    cov["tlc"].append({"cfg": "CommentLexerNonVac.cfg", "expected_violation": nv.violated})

    # leg G
    gen = tlc("CommentLexer", "CommentLexerGen.cfg", timeout=3000, files={"CommentLexerGen.cfg": cfg_with("CommentLexerGen.cfg", maxtok)})
    tlc_require_ok(gen, "CommentLexerGen")
    states += gen.distinct; trans += gen.generated
    cov["tlc"].append({"cfg": "CommentLexerGen.cfg", "MaxTok": maxtok, "distinct": gen.distinct, "generated": gen.generated, "cmd": gen.cmd})
    out = os.path.join(sub("out"), "cp.replay.ndjson")
    rc, txt, _ = go_overlay_test("commentparser", DRV, "^TestVerifCPReplay$", timeout=3000,
                                 env={"VERIF_IN": gen.outpath, "VERIF_OUT": out, "VERIF_TABLES": TABLES})
    recs = read_ndjson(out)
    summ = [r for r in recs if r.get("kind") == "summary"]
    for r in recs:
        if r.get("kind") == "mismatch":
            v.fail(r["class"], {k: r[k] for k in ("class", "lang", "src", "real", "chunks", "fault", "spec")})
    if vlib.build_failed(txt):
        raise vlib.Inconclusive("driver did not build:\n" + txt[-3000:])
    if not summ:
        if not v.violations:   # a hang/crash kills the driver before the summary; a recorded fault is the verdict
            raise vlib.Inconclusive("no summary from the replay driver:\n" + txt[-3000:])
        s = {"vectors": 0, "parses": 0, "nontrivial": 0, "classes": {}}
    else:
        s = summ[0]
        if s["vectors"] == 0:
            raise vlib.Inconclusive("no vectors reached the driver")
    cov["replay"] = {k: s.get(k) for k in ("vectors", "parses", "nontrivial", "classes")}
    cov["samples"] += [{"vector": x} for x in (s.get("samples") or [])[:3]]

    # leg T
    out = os.path.join(sub("out"), "cp.trace.ndjson")
    per = 12 if thorough else 3
    rc, txt, _ = go_overlay_test("commentparser", DRV, "^TestVerifCPTrace$",
                                 env={"VERIF_OUT": out, "VERIF_TABLES": TABLES, "VERIF_SEED": str(vlib.SEED),
                                      "VERIF_PROGRAMS": str(per), "VERIF_TOKENS": "160"})
    recs = read_ndjson(out)
    if vlib.build_failed(txt) or not recs:
        raise vlib.Inconclusive("trace driver failed:\n" + txt[-3000:])
    for r in recs:
        if r.get("ev") == "fault":
            v.fail("fault", r)
    lines = [r for r in recs if r.get("ev") == "parse"]
    res = tlc("TraceCommentLexer", "TraceCommentLexer.cfg", workers=1, timeout=1800,
              files={"trace_cp.ndjson": "\n".join(json.dumps(r) for r in lines) + "\n"})
    from checks.c20 import check_trace
    check_trace(v, res, lines, "trace")
    states += res.distinct or 0; trans += res.generated or 0
    cov["tlc"].append({"cfg": "TraceCommentLexer.cfg", "events": len(lines), "distinct": res.distinct, "cmd": res.cmd})
    cov["samples"].append({"trace_event": {k: lines[0][k] for k in ("g", "lang", "c", "ch")}, "input_len": len(lines[0]["in"])})

    rc = v.finish()
    cov.update({"states": states, "transitions": trans, "traces_validated_against_impl": len(lines),
                "vectors_replayed": s["vectors"], "evaluations": s["parses"] + len(lines),
                "distinct_nontrivial": s["nontrivial"],
                "rule": "every token string of length <= MaxTok over each group's alphabet (delimiters, delimiter characters, quotes, backslash, newline, letter) "
                        "for the 21 behaviour classes of the 49 Language values; each parsed for every language of the class in an ASCII and a multi-byte "
                        "concretisation; non-trivial = the reference finds at least one comment",
                "exhaustive": True})
    write_evidence(PID, cov, [
        "the language tables are a pinned snapshot (specs/gen_langtables.py); a change of the code's tables shows up as a mismatch",
        "reading of 'comments on consecutive lines': start lines differ by at most one (the repository's own ChunkIterator test pins this)",
        "an unterminated string/comment at end of input may be dropped or reported; invalid UTF-8 is outside the enumerated alphabet"],
        time.time() - t0, violations=len(v.violations))
    return rc
