"""C15 -- the v1 license archive round-trips.  T (main leg): seeded subsets/orderings of the 178 shipped files plus synthetic ones (text after the END marker, notice-only text, a .header file, non-.txt names) archived with the real ArchiveLicenses, loaded with New(ArchiveBytes) and compared with a directly built classifier: key sets, normalised values, and NearestMatch/MultipleMatch on every query (TraceV1 memo).
M/G: V1Archive (entry pairing of ArchiveLicenses / registerLicenses, RoundTrip) -- every ordered set of <= 4 (5) files out of 9 candidates (license, .header, notice-only text, non-.txt names, a file with another file's text in other case, names with .txt / .hash inside) archived and loaded for real."""
import os, time
from lib import vlib
from lib.vlib import go_overlay_test, read_ndjson, sub, tlc, tlc_require_ok
from checks.v2common import Acc
from checks.v1common import trace_v1, library_panic
PID = "C15"
SRC = ["common/util_test.go", "serializer/lic_driver_test.go"]
ACCESS = {"zz_verif_access.go": os.path.join(vlib.OVERLAY, "access/root_access.go")}
def overlay_extra():
    return {os.path.join(vlib.REPO, "zz_verif_access.go"): os.path.join(vlib.OVERLAY, "access/root_access.go"),
            os.path.join(vlib.REPO, "stringclassifier/zz_verif_access.go"): os.path.join(vlib.OVERLAY, "access/sc_access.go")}
def run_lic(test, env, timeout=3400):
    out = os.path.join(sub("out"), test + ".ndjson")
    if os.path.exists(out):
        os.remove(out)
    e = dict(env, VERIF_OUT=out, VERIF_SEED=str(vlib.SEED))
    rc, txt, _ = go_overlay_test("serializer", SRC, "^%s$" % test, env=e, timeout=timeout, abs_extra=overlay_extra())
    recs = read_ndjson(out)
    if vlib.build_failed(txt) or (not recs and "panic:" not in txt):
        raise vlib.Inconclusive("driver %s failed:\n%s" % (test, txt[-3000:]))
    return recs, rc, txt        # (a crash before the first flush leaves no records: the caller looks at the panic)
def run():
    t0 = time.time(); v = vlib.Verdict(PID); acc = Acc(); th = vlib.TIER == "thorough"
    # M + G on the archive layout spec
    cfgt = open(os.path.join(vlib.SPECS, "V1Archive.cfg")).read().replace("MaxFiles = 4", "MaxFiles = %d" % (5 if th else 4))
    gen = tlc("V1ArchiveMC", "V1Archive.cfg", workers=4, timeout=900, files={"V1Archive.cfg": cfgt})
    tlc_require_ok(gen, "V1Archive"); acc.add_tlc(gen, "V1Archive.cfg")
    out = os.path.join(sub("out"), "archive.replay.ndjson")
    rc, txt, _ = go_overlay_test("serializer", SRC + ["serializer/archive_replay_test.go"], "^TestVerifArchiveReplay$", env={"VERIF_IN": gen.outpath, "VERIF_OUT": out}, timeout=1800, abs_extra=overlay_extra())
    rr = read_ndjson(out)
    summ = [r for r in rr if r.get("kind") == "summary"]
    if vlib.build_failed(txt) or not summ or summ[0]["vectors"] == 0:
        raise vlib.Inconclusive("archive replay driver failed:\n" + txt[-3000:])
    acc.evaluations += summ[0]["vectors"]; acc.extra["archive_replay"] = {k: summ[0][k] for k in ("vectors", "nontrivial", "mismatches")}
    acc.samples += [{"vector": x} for x in (summ[0].get("samples") or [])[:1]]
    for r in rr:
        if r.get("kind") == "mismatch":
            v.fail("archive-replay", r)
    # the writers under ArchiveLicenses: success is reported exactly when the destination took the whole archive (V1ArchiveWriter; dropping
    # the error of the compressor's final flush must fail), then a destination that fails after `room` bytes under the real ArchiveLicenses
    r = tlc_require_ok(tlc("V1ArchiveWriter", "V1ArchiveWriter.cfg", timeout=300), "V1ArchiveWriter"); acc.add_tlc(r, "V1ArchiveWriter.cfg")
    nv = tlc("V1ArchiveWriter", "V1ArchiveWriterAsBuilt.cfg", timeout=300)
    if nv.violated != "SuccessMeansWritten":
        raise vlib.Inconclusive("V1ArchiveWriterAsBuilt.cfg did not violate SuccessMeansWritten: " + nv.tail[-1500:])
    acc.tlc.append({"cfg": "V1ArchiveWriterAsBuilt.cfg", "expected_violation": nv.violated})
    outw = os.path.join(sub("out"), "archive.writer.ndjson")
    if os.path.exists(outw):
        os.remove(outw)
    rc, txt, _ = go_overlay_test("serializer", SRC + ["serializer/archive_replay_test.go"], "^TestVerifArchiveWriter$", env={"VERIF_OUT": outw}, timeout=1800, abs_extra=overlay_extra())
    rw = read_ndjson(outw)
    sw = [x for x in rw if x.get("kind") == "summary"]
    if vlib.build_failed(txt) or not sw or sw[0]["vectors"] == 0:
        raise vlib.Inconclusive("archive writer driver failed:\n" + txt[-3000:])
    acc.evaluations += sw[0]["vectors"]; acc.extra["failing_destinations"] = sw[0]
    for x in rw:
        if x.get("kind") == "mismatch":
            v.fail("archive-writer", x)
    env = {"VERIF_ROUNDS": "4" if th else "3", "VERIF_SUBSET": "178" if th else "25", "VERIF_QUERIES": "60" if th else "16"}
    recs, rc, txt = run_lic("TestVerifC15", env)
    for r in recs:
        if r.get("ev") == "loadfail":
            v.fail("loadfail", r)
        if r.get("ev") == "keys" and not r["ok"]:
            v.fail("keys", r)
    if rc != 0:
        library_panic(v, txt, "serializer driver")      # a panic inside the library (not the driver) is the violation itself
    if rc != 0 and not v.violations:
        raise vlib.Inconclusive("C15 driver ended abnormally:\n" + txt[-3000:])
    lines = trace_v1(v, acc, recs, "archive round trip") if recs else []
    acc.nontrivial = len({r["memo"] for r in lines if r.get("memo") and (r.get("ms") or r.get("found"))})
    acc.extra["rounds"] = sum(1 for r in recs if r.get("ev") == "keys")
    acc.samples += [{k: r[k] for k in ("round", "want")} for r in recs if r.get("ev") == "keys"][:1]
    rc = v.finish()
    vlib.write_evidence(PID, acc.coverage("seeded subsets (25 files quick, all 178 thorough) in shuffled order plus 3 synthetic files and 2 non-.txt names; queries: corpus texts in and outside the subset, word-edited texts, leading 85-95 %, texts in context, noise; both classifiers must answer every query identically (names, bit patterns, offsets); distinct = queries with a non-empty answer"),
        ["gob / gzip / tar are an environment: their fidelity is observed through the compared values, not modelled", "the direct classifier is built with AddValue from TrimExtraneousTrailingText(file)"], time.time() - t0, len(v.violations))
    return rc
