"""Shared legs of the v2 checks (C01-C08, C10, C11):
   tok_model()  leg M on the tokenizer spec (relational invariants per alphabet)
   tok_replay() leg G: every enumerated input replayed into the real tokenizer / Normalize
   trace_leg()  leg T: a scenario of the Go trace driver validated by TLC against V2Contract"""
import json, os, re, time
from lib import vlib
from lib.vlib import tlc, tlc_require_ok, go_overlay_test, read_ndjson, sub, log

V2_SOURCES = ["common/util_test.go"] + sorted("v2/" + f for f in os.listdir(os.path.join(vlib.OVERLAY, "v2")) if f.endswith("_test.go"))
DEV_CONSTANTS = ["DevNoticeInSpan", "DevClampShift", "DevC11HyphenToken", "DevC11CleanedNotice", "DevLineTouchSplit"]


def open_devs(pid_list):
    """Deviation constants that are TRUE: those named by an OPEN finding of one of the properties."""
    on = set()
    for pid in pid_list:
        for e in vlib.known_findings(pid):
            if e.get("status") == "open" and e["key"].get("deviation"):
                on.add(e["key"]["deviation"])
    return on


def cfg_text(name, **repl):
    t = open(os.path.join(vlib.SPECS, name)).read()
    for k, v in repl.items():
        t = re.sub(r"%s = \S+" % k, "%s = %s" % (k, v), t)
    return t


class Acc:
    def __init__(self):
        self.states = 0; self.trans = 0; self.tlc = []; self.samples = []; self.traces = 0
        self.evaluations = 0; self.nontrivial = 0; self.extra = {}

    def add_tlc(self, r, cfg, **kw):
        self.states += r.distinct or 0; self.trans += r.generated or 0
        d = {"cfg": cfg, "distinct": r.distinct, "generated": r.generated, "wall_s": round(r.wall, 1), "cmd": r.cmd}
        d.update(kw)
        self.tlc.append(d)

    def coverage(self, rule, exhaustive=False):
        c = {"states": self.states, "transitions": self.trans, "traces_validated_against_impl": self.traces,
             "samples": self.samples[:8] or [{"note": "no sample recorded"}], "evaluations": self.evaluations,
             "distinct_nontrivial": self.nontrivial, "rule": rule, "tlc": self.tlc, "exhaustive": exhaustive}
        c.update(self.extra)
        return c


def tok_model(acc, alphas, maxlen, invariants=None, expect_violation=None, timeout=1500):
    """Leg M. alphas: list of alphabet letters; invariants: override list; expect_violation: name of an
    invariant that MUST be violated (records a model-level counter-example of an open finding / non-vacuity)."""
    for k in alphas:
        cfg = "V2Tok%sMC.cfg" % k
        text = cfg_text(cfg, MaxLen=maxlen)
        if invariants is not None:
            text = re.sub(r"INVARIANTS.*", "INVARIANTS " + " ".join(invariants), text)
        r = tlc("V2Tok" + k, cfg, timeout=timeout, files={cfg: text})
        if expect_violation:
            if r.violated != expect_violation:
                raise vlib.Inconclusive("expected TLC to violate %s on alphabet %s, got %s\n%s" % (expect_violation, k, r.violated, r.tail[-1500:]))
            acc.tlc.append({"cfg": cfg, "alphabet": k, "MaxLen": maxlen, "expected_violation": expect_violation, "cmd": r.cmd})
        else:
            tlc_require_ok(r, "tokenizer model check " + cfg)
            acc.add_tlc(r, cfg, alphabet=k, MaxLen=maxlen, invariants=invariants or "as in cfg")


def tok_replay(v, acc, alphas, maxlen, sig="tokenizer-replay", timeout=1500):
    """Leg G: all inputs <= maxlen over each alphabet, spec result vs real tokenizeStream (both modes) + Normalize."""
    for k in alphas:
        cfg = "V2Tok%sGen.cfg" % k
        gen = tlc("V2Tok" + k, cfg, timeout=timeout, files={cfg: cfg_text(cfg, MaxLen=maxlen)})
        tlc_require_ok(gen, "vector generation " + cfg)
        acc.add_tlc(gen, cfg, alphabet=k, MaxLen=maxlen)
        out = os.path.join(sub("out"), "tok.%s.ndjson" % k)
        if os.path.exists(out):
            os.remove(out)
        rc, txt, _ = go_overlay_test("v2", ["common/util_test.go", "v2/tok_driver_test.go"], "^TestVerifTokReplay$",
                                     env={"VERIF_IN": gen.outpath, "VERIF_OUT": out}, timeout=timeout)
        recs = read_ndjson(out)
        summ = [r for r in recs if r.get("kind") == "summary"]
        if vlib.build_failed(txt) or not summ or summ[0]["vectors"] == 0:
            raise vlib.Inconclusive("tokenizer replay driver failed (alphabet %s):\n%s" % (k, txt[-2500:]))
        s = summ[0]
        acc.evaluations += s["vectors"]; acc.nontrivial += s["nontrivial"]
        acc.extra.setdefault("replay", []).append({"alphabet": k, "vectors": s["vectors"], "nontrivial": s["nontrivial"], "mismatches": s["mismatches"]})
        acc.samples += [{"alphabet": k, "vector": x} for x in (s.get("samples") or [])[:1]]
        for r in recs:
            if r.get("kind") == "mismatch":
                v.fail(sig, {"alphabet": k, "src": r["src"], "why": r["why"], "spec": r["spec"]})


def run_driver(scen, env=None, timeout=2400, procs=1):
    """Runs the Go trace driver for a scenario (procs separate processes, different map seeds)."""
    recs = []
    for p in range(procs):
        out = os.path.join(sub("out"), "v2.%s.%d.ndjson" % (scen, p))
        if os.path.exists(out):
            os.remove(out)
        e = {"VERIF_SCEN": scen, "VERIF_OUT": out, "VERIF_TIER": vlib.TIER, "VERIF_SEED": str(vlib.SEED), "VERIF_PROC": str(p),
             "VERIF_CASES": os.path.join(vlib.VERIF, "cases")}
        e.update(env or {})
        rc, txt, _ = go_overlay_test("v2", V2_SOURCES, "^TestVerifV2Trace$", env=e, timeout=timeout)
        part = read_ndjson(out)
        if vlib.build_failed(txt):
            raise vlib.Inconclusive("v2 trace driver did not build:\n" + txt[-3000:])
        if rc != 0 and not any(r.get("ev") in ("timeout", "panic") for r in part[-3:]):
            raise vlib.Inconclusive("v2 trace driver failed (scenario %s):\n%s" % (scen, txt[-3000:]))
        if not part:
            raise vlib.Inconclusive("v2 trace driver produced no events (scenario %s)" % scen)
        recs += part
    return recs


def classify(ev, lines, idx):
    """Signature + replayable case for an event TLC rejected."""
    sig = ev.get("ev", "?")
    case = {"event": {k: (v if k not in ("lmap", "lines", "T", "K", "ops") else "...") for k, v in ev.items()}}
    if ev["ev"] == "pair":
        sig = "pair:" + ev.get("kind", "").split(":")[0]
        for r in lines[:idx]:
            if r.get("ev") == "match" and r.get("in") in (ev["a"], ev["b"]):
                case.setdefault("results", []).append({"in": r["in"], "hash": r.get("hash"), "ms": r["ms"], "total": r["total"]})
    elif ev["ev"] == "match":
        sig = "match"
        case["plants"] = [r for r in lines[:idx] if r.get("ev") == "plant" and r.get("in") == ev.get("in")]
    return sig, case


def trace_leg(v, acc, scen, pids, env=None, procs=1, timeout=2400, max_rejects=8, constants=None):
    """Leg T. Returns the records. Events without a spec action (panic, timeout) are failures as such;
    probe events re-observe recorded call-site findings; DEV lines printed by TLC are uses of an open deviation."""
    recs = run_driver(scen, env=env, timeout=timeout, procs=procs)
    lines = []
    for r in recs:
        ev = r.get("ev")
        if ev == "timeout" and "C10" not in pids:
            # only C10 speaks about calls that do not return; elsewhere a call that outlasts the watchdog (it stops the
            # driver) means the check could not be completed on this machine at this load -- never a verdict
            raise vlib.Inconclusive("a %s call did not return within %s s (threshold %s, %s bytes, classifier %s): the run is incomplete"
                                    % (r.get("api"), r.get("limit_s"), r.get("thr"), r.get("len"), r.get("c")))
        if ev in ("panic", "timeout"):
            v.fail("%s:%s" % (ev, r.get("api", "")), {k: r[k] for k in r if k != "input_b64" or len(r[k]) < 6000})
        elif ev == "probe":
            acc.extra.setdefault("probes", []).append(r)
            if r.get("deviates"):
                v.fail("probe:" + r["id"], r)
        elif ev == "skip":
            acc.extra["skipped"] = acc.extra.get("skipped", 0) + 1
        else:
            lines.append(r)
    devs = open_devs(pids)
    ctext = "SPECIFICATION TSpec\nCONSTANTS\n" + "".join("  %s = %s\n" % (d, "TRUE" if d in devs else "FALSE") for d in DEV_CONSTANTS)
    ctext += "POSTCONDITION TraceAccepted\nCHECK_DEADLOCK FALSE\n"
    rejects = 0
    while True:
        text = "\n".join(json.dumps(r) for r in lines) + "\n"
        res = tlc("TraceV2", "TraceV2.cfg", workers=1, timeout=timeout, files={"trace_v2.ndjson": text, "TraceV2.cfg": ctext}, heap="12g")
        if res.timed_out or (res.error and not res.violated):
            raise vlib.Inconclusive("trace validation did not run (%s): %s" % (scen, res.tail[-2500:]))
        for ln in open(res.outpath, errors="replace"):
            m = re.match(r'<<"DEV", "(\w+)", "(\w+)", "(\w+)">>', ln)
            if m:
                v.fail(m.group(1), {"a": m.group(2), "b": m.group(3), "scenario": scen})
        acc.add_tlc(res, "TraceV2.cfg", scenario=scen, events=len(lines))
        if res.ok:
            break
        idx = max(0, (res.depth or 1) - 1)
        if idx >= len(lines):
            raise vlib.Inconclusive("trace rejected beyond its end? depth=%s len=%s" % (res.depth, len(lines)))
        sig, case = classify(lines[idx], lines, idx)
        case["scenario"] = scen
        v.fail(sig, case)
        rejects += 1
        if rejects >= max_rejects:
            break
        del lines[idx]          # keep checking the rest of the history
    acc.traces += sum(1 for r in lines if r.get("ev") == "reset") or 1
    acc.evaluations += sum(1 for r in lines if r.get("ev") in ("match", "fail", "pair", "score", "norm"))
    for r in lines:
        if r.get("ev") in ("pair", "plant") and len(acc.samples) < 6:
            acc.samples.append({k: (x if k != "lmap" else "...") for k, x in r.items()})
    return recs, lines


MATCH_THR = {"T50": "0.5", "T70": "0.7", "T80": "0.8", "T100": "1.0"}


def match_model(acc, names, timeout=1500):
    """Leg M on the candidate-stage mechanism spec V2Match (InBounds, PlantIsCandidate)."""
    for n in names:
        cfg = "V2Match%sMC.cfg" % n
        r = tlc_require_ok(tlc("V2Match" + n, cfg, timeout=timeout), "V2Match model check " + cfg)
        acc.add_tlc(r, cfg, threshold=MATCH_THR[n])


def match_replay(v, acc, names, maxk, maxt, sig="stage-replay", timeout=2400):
    """Leg G on V2Match: every (document, input) pair replayed through the real stage functions."""
    for n in names:
        cfg = "V2Match%sGen.cfg" % n
        gen = tlc("V2Match" + n, cfg, timeout=timeout, files={cfg: cfg_text(cfg, MaxK=maxk, MaxT=maxt)})
        tlc_require_ok(gen, "V2Match vector generation " + cfg)
        acc.add_tlc(gen, cfg, threshold=MATCH_THR[n], MaxK=maxk, MaxT=maxt)
        out = os.path.join(sub("out"), "match.%s.ndjson" % n)
        if os.path.exists(out):
            os.remove(out)
        rc, txt, _ = go_overlay_test("v2", ["common/util_test.go", "v2/match_driver_test.go"], "^TestVerifMatchReplay$", timeout=timeout,
                                     env={"VERIF_IN": gen.outpath, "VERIF_OUT": out, "VERIF_THR": MATCH_THR[n],
                                          "VERIF_TABLES": os.path.join(vlib.SPECS, "matchtables.json"), "VERIF_TABNAME": n})
        recs = read_ndjson(out)
        if any(r.get("kind") == "tables" for r in recs):
            raise vlib.Inconclusive("threshold tables of V2Match%s differ from the float expressions evaluated by the driver" % n)
        summ = [r for r in recs if r.get("kind") == "summary"]
        if vlib.build_failed(txt) or not summ or summ[0]["vectors"] == 0:
            raise vlib.Inconclusive("stage replay driver failed (%s):\n%s" % (n, txt[-2500:]))
        s = summ[0]
        acc.evaluations += s["vectors"]; acc.nontrivial += s["nontrivial"]
        acc.extra.setdefault("stage_replay", []).append({"threshold": MATCH_THR[n], "vectors": s["vectors"], "fused_nonempty": s["nontrivial"], "mismatches": s["mismatches"]})
        acc.samples += [{"threshold": MATCH_THR[n], "vector": x} for x in (s.get("samples") or [])[:1]]
        for r in recs:
            if r.get("kind") == "mismatch":
                v.fail(sig, {"thr": r["thr"], "why": r["why"], "spec": r["spec"]})


def score_legs(v, acc, maxops, timeout=1800):
    """Legs M and G on the scoring half of S2 (V2Score): diffRange / scoreDiffs / diffLevenshteinWord / textLength."""
    cfg = "V2ScoreMC.cfg"
    r = tlc_require_ok(tlc("V2ScoreMC", cfg, timeout=timeout, files={cfg: cfg_text(cfg, MaxOps=maxops)}), "V2Score model check")
    acc.add_tlc(r, cfg, MaxOps=maxops)
    cfg = "V2ScoreGen.cfg"
    gen = tlc("V2ScoreMC", cfg, timeout=timeout, workers=4, files={cfg: cfg_text(cfg, MaxOps=maxops)})
    tlc_require_ok(gen, "V2Score vector generation"); acc.add_tlc(gen, cfg, MaxOps=maxops)
    out = os.path.join(sub("out"), "score.ndjson")
    if os.path.exists(out):
        os.remove(out)
    rc, txt, _ = go_overlay_test("v2", ["common/util_test.go", "v2/score_driver_test.go"], "^TestVerifScoreReplay$", timeout=timeout,
                                 env={"VERIF_IN": gen.outpath, "VERIF_OUT": out})
    recs = read_ndjson(out)
    summ = [r for r in recs if r.get("kind") == "summary"]
    if vlib.build_failed(txt) or not summ or summ[0]["vectors"] == 0:
        raise vlib.Inconclusive("score replay driver failed:\n" + txt[-2500:])
    s = summ[0]
    acc.evaluations += s["vectors"]; acc.nontrivial += s["nontrivial"]
    acc.extra["score_replay"] = {"scripts": s["vectors"], "with_a_veto": s["nontrivial"], "mismatches": s["mismatches"]}
    acc.samples += [{"script": x} for x in (s.get("samples") or [])[:1]]
    for r in recs:
        if r.get("kind") == "mismatch":
            v.fail("score-replay", {"why": r["why"], "spec": r["spec"]})


def runes_legs(v, acc, timeout=600):
    """Legs M and G on the id <-> rune channel to go-diff (V2Runes): Lossless / Injective / NoSurrogate on the spec, then every
    boundary id through the real idToRune / runeToID, Go's string([]rune) and go-diff."""
    r = tlc_require_ok(tlc("V2RunesMC", "V2RunesMC.cfg", timeout=timeout), "V2Runes model check")
    acc.add_tlc(r, "V2RunesMC.cfg")
    gen = tlc_require_ok(tlc("V2RunesMC", "V2RunesGen.cfg", timeout=timeout), "V2Runes vector generation")
    acc.add_tlc(gen, "V2RunesGen.cfg")
    out = os.path.join(sub("out"), "runes.ndjson")
    if os.path.exists(out):
        os.remove(out)
    rc, txt, _ = go_overlay_test("v2", ["common/util_test.go", "v2/runes_driver_test.go"], "^TestVerifRunesReplay$", timeout=timeout,
                                 env={"VERIF_IN": gen.outpath, "VERIF_OUT": out})
    recs = read_ndjson(out)
    summ = [r for r in recs if r.get("kind") == "summary"]
    if vlib.build_failed(txt) or not summ or summ[0]["vectors"] == 0:
        raise vlib.Inconclusive("runes replay driver failed:\n" + txt[-2500:])
    s = summ[0]
    acc.evaluations += s["vectors"] + s["pairs"]; acc.nontrivial += s["vectors"]
    acc.extra["runes_replay"] = {"ids": s["vectors"], "substitution_pairs_through_go_diff": s["pairs"], "mismatches": s["mismatches"]}
    for r in recs:
        if r.get("kind") == "mismatch":
            v.fail("runes-replay", {"id": r["id"], "why": r["why"]})


def pad_leg(v, acc, timeout=600):
    """The read buffer under the tokenizer (V2Buffer's ChunkedEqualsWhole, evaluated on the real code): a multi-byte text slid over
    every alignment to the buffer must tokenise as its lines do one by one."""
    out = os.path.join(sub("out"), "pad.ndjson")
    if os.path.exists(out):
        os.remove(out)
    rc, txt, _ = go_overlay_test("v2", ["common/util_test.go", "v2/tok_driver_test.go"], "^TestVerifPadTokens$", env={"VERIF_OUT": out}, timeout=timeout)
    recs = read_ndjson(out)
    summ = [r for r in recs if r.get("kind") == "summary"]
    if vlib.build_failed(txt) or not summ:
        raise vlib.Inconclusive("pad driver failed:\n" + txt[-2500:])
    acc.evaluations += summ[0]["vectors"]
    acc.extra["pad_sweep"] = summ[0]
    for r in recs:
        if r.get("kind") == "mismatch":
            v.fail("buffer-alignment", r)


def retain_legs(v, acc, thorough=False, timeout=1800):
    """Legs M and G on the overlap filter of match() (V2Retain): invariants of the transcribed loop on every small candidate set, then
    every set injected into the real match() through the VerifCandidates hook."""
    mc = "V2RetainMC.cfg"
    r = tlc_require_ok(tlc("V2RetainMC", mc, timeout=timeout), "V2Retain model check")
    acc.add_tlc(r, mc)
    # copies that share physical lines: all kept when no copy's lines lie inside another's; that EVERY copy is kept must fail
    # (open finding C01-copy-inside-lines-of-heavier-copy: the loop works on lines, not tokens)
    r = tlc_require_ok(tlc("V2RetainMC", "V2RetainCopies.cfg", timeout=timeout), "V2Retain copies sharing lines"); acc.add_tlc(r, "V2RetainCopies.cfg")
    nv = tlc("V2RetainMC", "V2RetainShared.cfg", timeout=600)
    if nv.violated != "CopiesKept":
        raise vlib.Inconclusive("V2RetainShared.cfg did not violate CopiesKept: " + nv.tail[-1500:])
    acc.tlc.append({"cfg": "V2RetainShared.cfg", "expected_violation": nv.violated})
    cfg = "V2RetainGen.cfg"
    text = cfg_text(cfg)
    if thorough:
        text = text.replace("C4s = {2, 4}", "C4s = {2, 3, 4}")
    gen = tlc_require_ok(tlc("V2RetainMC", cfg, timeout=timeout, workers=4, files={cfg: text}), "V2Retain vector generation")
    acc.add_tlc(gen, cfg)
    out = os.path.join(sub("out"), "retain.ndjson")
    if os.path.exists(out):
        os.remove(out)
    rc, txt, _ = go_overlay_test("v2", ["common/util_test.go", "v2/retain_driver_test.go"], "^TestVerifRetainReplay$", timeout=timeout,
                                 env={"VERIF_IN": gen.outpath, "VERIF_OUT": out})
    recs = read_ndjson(out)
    summ = [r for r in recs if r.get("kind") == "summary"]
    if vlib.build_failed(txt) or not summ or summ[0]["vectors"] == 0:
        raise vlib.Inconclusive("retain replay driver failed:\n" + txt[-2500:])
    s = summ[0]
    acc.evaluations += s["vectors"]; acc.nontrivial += s["nontrivial"]
    acc.extra["retain_replay"] = {"candidate_sets": s["vectors"], "with_a_dropped_candidate": s["nontrivial"], "mismatches": s["mismatches"]}
    acc.samples += [{"candidates": x} for x in (s.get("samples") or [])[:1]]
    for r in recs:
        if r.get("kind") == "mismatch":
            v.fail("retain-replay", {"why": r["why"], "spec": r["spec"]})


def fill_legs(v, acc, thorough=False, timeout=900):
    """Legs M and G on the refill loop of the tokenizer's read buffer (V2Fill): the rules on every small reader script, ReadFull's
    reading of ErrUnexpectedEOF must fail, then every script through the real fill()."""
    sub_ = {"MaxReads = 3": "MaxReads = 4"} if thorough else {}
    def text(cfg):
        t = cfg_text(cfg)
        for a, b in sub_.items():
            t = t.replace(a, b)
        return t
    r = tlc_require_ok(tlc("V2Fill", "V2Fill.cfg", timeout=timeout, files={"V2Fill.cfg": text("V2Fill.cfg")}), "V2Fill model check"); acc.add_tlc(r, "V2Fill.cfg")
    nv = tlc("V2Fill", "V2FillNV.cfg", timeout=600)
    if nv.violated != "ReadFullTreatsUEOFAsEnd":
        raise vlib.Inconclusive("V2FillNV.cfg did not violate ReadFullTreatsUEOFAsEnd: " + nv.tail[-1500:])
    acc.tlc.append({"cfg": "V2FillNV.cfg", "expected_violation": nv.violated})
    gen = tlc_require_ok(tlc("V2Fill", "V2FillGen.cfg", timeout=timeout, files={"V2FillGen.cfg": text("V2FillGen.cfg")}), "V2Fill vector generation"); acc.add_tlc(gen, "V2FillGen.cfg")
    out = os.path.join(sub("out"), "fill.ndjson")
    if os.path.exists(out):
        os.remove(out)
    rc, txt, _ = go_overlay_test("v2", ["common/util_test.go", "v2/fill_driver_test.go"], "^TestVerifFillReplay$", timeout=timeout,
                                 env={"VERIF_IN": gen.outpath, "VERIF_OUT": out})
    recs = read_ndjson(out)
    summ = [r for r in recs if r.get("kind") == "summary"]
    if vlib.build_failed(txt) or not summ or summ[0]["vectors"] == 0:
        raise vlib.Inconclusive("refill replay driver failed:\n" + txt[-2500:])
    acc.evaluations += summ[0]["vectors"]; acc.extra["fill_replay"] = summ[0]
    for r in recs:
        if r.get("kind") == "mismatch":
            v.fail("fill-replay", {"why": r["why"]})


def corpus_legs(v, acc, timeout=1200):
    """Legs M and G on the classifier's long-lived state (V2Corpus): every history of <= 3 calls (AddContent on two names, Normalize,
    Match; texts of <= 2 words over 3) -- ids are stable, a name registered again is replaced, Match changes nothing -- then every
    history replayed on a real Classifier, dictionary and documents compared after every call."""
    r = tlc_require_ok(tlc("V2Corpus", "V2Corpus.cfg", timeout=timeout, workers=4), "V2Corpus model check"); acc.add_tlc(r, "V2Corpus.cfg")
    gen = tlc_require_ok(tlc("V2Corpus", "V2CorpusGen.cfg", timeout=timeout, workers=2), "V2Corpus history generation"); acc.add_tlc(gen, "V2CorpusGen.cfg")
    out = os.path.join(sub("out"), "corpus.ndjson")
    if os.path.exists(out):
        os.remove(out)
    rc, txt, _ = go_overlay_test("v2", ["common/util_test.go", "v2/corpus_driver_test.go"], "^TestVerifCorpusReplay$", timeout=timeout,
                                 env={"VERIF_IN": gen.outpath, "VERIF_OUT": out})
    recs = read_ndjson(out)
    summ = [r for r in recs if r.get("kind") == "summary"]
    if vlib.build_failed(txt) or not summ or summ[0]["vectors"] == 0:
        raise vlib.Inconclusive("corpus history replay driver failed:\n" + txt[-2500:])
    acc.evaluations += summ[0]["steps"]; acc.traces += summ[0]["vectors"]; acc.extra["corpus_history_replay"] = summ[0]
    for r in recs:
        if r.get("kind") == "mismatch":
            v.fail("corpus-replay", {"why": r["why"], "history": r.get("history")})


def tracecfg_legs(v, acc, timeout=600):
    """Legs M and G on the tracing switches (V2Trace): the rule on the spec, then every small configuration through the real
    TraceConfiguration -- answers equal, and asking leaves the (shared) lookup maps as they were."""
    r = tlc_require_ok(tlc("V2TraceMC", "V2TraceMC.cfg", timeout=timeout), "V2Trace model check"); acc.add_tlc(r, "V2TraceMC.cfg")
    gen = tlc_require_ok(tlc("V2TraceMC", "V2TraceGen.cfg", timeout=timeout), "V2Trace vector generation"); acc.add_tlc(gen, "V2TraceGen.cfg")
    out = os.path.join(sub("out"), "tracecfg.ndjson")
    if os.path.exists(out):
        os.remove(out)
    rc, txt, _ = go_overlay_test("v2", ["common/util_test.go", "v2/tracecfg_driver_test.go"], "^TestVerifTraceCfgReplay$", timeout=timeout,
                                 env={"VERIF_IN": gen.outpath, "VERIF_OUT": out})
    recs = read_ndjson(out)
    summ = [r for r in recs if r.get("kind") == "summary"]
    if vlib.build_failed(txt) or not summ or summ[0]["vectors"] == 0:
        raise vlib.Inconclusive("trace configuration replay driver failed:\n" + txt[-2500:])
    acc.evaluations += summ[0]["vectors"]; acc.extra["tracecfg_replay"] = summ[0]
    for r in recs:
        if r.get("kind") == "mismatch":
            v.fail("tracecfg-replay", {"why": r["why"], "spec": r["spec"]})


def tables_leg(v, acc, timeout=600):
    """The tokenizer's tables as data (V2TokTables): every list marker / every one- and two-letter word, every interchangeable
    spelling, every rewritten rune -- the spec's pinned tables against the real header(), cleanupToken() and rune mapping."""
    gen = tlc_require_ok(tlc("V2TokTables", "V2TokTables.cfg", timeout=timeout), "V2TokTables"); acc.add_tlc(gen, "V2TokTables.cfg")
    out = os.path.join(sub("out"), "tables.ndjson")
    if os.path.exists(out):
        os.remove(out)
    rc, txt, _ = go_overlay_test("v2", ["common/util_test.go", "v2/tok_driver_test.go", "v2/tables_driver_test.go"], "^TestVerifTablesReplay$", timeout=timeout,
                                 env={"VERIF_IN": gen.outpath, "VERIF_OUT": out})
    recs = read_ndjson(out)
    summ = [r for r in recs if r.get("kind") == "summary"]
    if vlib.build_failed(txt) or not summ or summ[0]["vectors"] == 0:
        raise vlib.Inconclusive("tables replay driver failed:\n" + txt[-2500:])
    acc.evaluations += summ[0]["vectors"]; acc.extra["tables_replay"] = summ[0]
    for r in recs:
        if r.get("kind") == "mismatch":
            v.fail("tables-replay", {"why": r["why"]})


def diffrename_leg(v, acc, pairs=60, timeout=900):
    """The diff stage on the real code: the edit script of (edited copy, corpus document) keeps its shape when token ids are renamed
    (the most frequent word gets id 10, '\\n' as a rune): nothing may depend on which word has which number."""
    out = os.path.join(sub("out"), "diffrename.ndjson")
    if os.path.exists(out):
        os.remove(out)
    rc, txt, _ = go_overlay_test("v2", V2_SOURCES + ["v2/diffrename_driver_test.go"], "^TestVerifDiffRenaming$", timeout=timeout,
                                 env={"VERIF_OUT": out, "VERIF_SEED": str(vlib.SEED), "VERIF_PAIRS": str(pairs)})
    recs = read_ndjson(out)
    summ = [r for r in recs if r.get("kind") == "summary"]
    if vlib.build_failed(txt) or not summ or summ[0]["vectors"] == 0:
        raise vlib.Inconclusive("diff renaming driver failed:\n" + txt[-2500:])
    acc.evaluations += summ[0]["vectors"]; acc.extra["diff_renaming"] = summ[0]
    for r in recs:
        if r.get("kind") == "mismatch":
            v.fail("diff-renaming", r)
