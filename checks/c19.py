"""C19 -- the identify_license CLI reports what the library finds.
M: V2Pool (token pool, WaitGroup, mutex-protected append): NoLostAppend, BoundedTasks, termination for tasks >= 1; an append that
   is not exclusive must lose matches; tasks = 0 never terminates (outside the statement's 1..N).
T: the real binary, built from the current tree (plus a -race build), over seeded file sets x flags x -tasks {1,2,3,7,16,1000};
   stdout / JSON / exit status validated by TLC (TraceCLI.CLIReturn) against in-process Match on the same bytes.
G: V2CLIScope (expandFiles: arguments, walk order, -ignore_paths_re) and V2CLILines (readFileLines) -- every enumerated case through the real functions."""
import os, subprocess, time
from lib import vlib
from lib.vlib import tlc, tlc_require_ok, go_overlay_test, read_ndjson, sub
from checks.v2common import Acc
from checks.v1common import validate
PID = "C19"
CFG = "SPECIFICATION Spec\nPOSTCONDITION TraceAccepted\nCHECK_DEADLOCK FALSE\n"

def build(race):
    out = os.path.join(sub("bin"), "identify_license" + ("_race" if race else ""))
    cmd = ["go", "build", "-o", out] + (["-race"] if race else []) + ["./tools/identify_license"]
    p = subprocess.run(cmd, cwd=os.path.join(vlib.REPO, "v2"), env=vlib.GOENV, stdout=subprocess.PIPE, stderr=subprocess.STDOUT, timeout=900)
    if p.returncode != 0:
        raise vlib.Inconclusive("cannot build identify_license: " + p.stdout.decode()[-2000:])
    return out

def classify(ev):
    e = dict(ev)
    e["lines"] = e.get("lines", [])[:5]; e["jsoncls"] = (e.get("jsoncls") or [])[:5]; e["scope"] = e.get("scope", [])[:12]
    n_exp = "?"
    if ev.get("ev") != "cli":
        return ev.get("ev", "?"), e
    if ev.get("races"):
        return "cli:race-detector", e
    if ev.get("json") and not ev.get("jsonok"):
        return "cli:json-missing", e
    if ev.get("jsoncls") and not all(c["textok"] for c in ev["jsoncls"]):
        return "cli:json-text", e
    return "cli:output", e

def run():
    t0 = time.time(); v = vlib.Verdict(PID); acc = Acc(); th = vlib.TIER == "thorough"
    r = tlc_require_ok(tlc("V2PoolMC", "V2Pool.cfg", timeout=600), "V2Pool"); acc.add_tlc(r, "V2Pool.cfg")
    for cfg, want in (("V2PoolShared.cfg", "NoLostAppend"), ("V2PoolZero.cfg", "Terminates"), ("V2PoolDoneFirst.cfg", "NoSendOnClosed")):
        nv = tlc("V2PoolMC", cfg, timeout=300)
        if not nv.violated or want not in nv.tail:
            raise vlib.Inconclusive("%s: expected a violation of %s: %s" % (cfg, want, nv.tail[-1200:]))
        acc.tlc.append({"cfg": cfg, "expected_violation": want})
    # which files a run covers (V2CLIScope: arguments, Walk order, -ignore_paths_re on directory names / whole file paths) and which text
    # the JSON report quotes (V2CLILines: readFileLines): M on the rule, G every case through the real expandFiles / readFileLines
    for mod, pkg, src, test, th_sub in (("V2CLIScope", "v2/tools/identify_license", "cli/scope_driver_test.go", "TestVerifScopeReplay", ("MaxArgs = 2", "MaxArgs = 3")),
                                        ("V2CLILines", "v2/tools/identify_license/results", "cli/lines_driver_test.go", "TestVerifLinesReplay", ("MaxLen = 5", "MaxLen = 6"))):
        def text(cfg):
            t = open(os.path.join(vlib.SPECS, cfg)).read()
            return t.replace(*th_sub) if (th and th_sub) else t
        r = tlc_require_ok(tlc(mod, mod + ".cfg", timeout=1800, workers=4, files={mod + ".cfg": text(mod + ".cfg")}), mod); acc.add_tlc(r, mod + ".cfg")
        gen = tlc_require_ok(tlc(mod, mod + "Gen.cfg", timeout=1800, workers=2, files={mod + "Gen.cfg": text(mod + "Gen.cfg")}), mod + " vectors"); acc.add_tlc(gen, mod + "Gen.cfg")
        o = os.path.join(sub("out"), mod + ".ndjson")
        if os.path.exists(o):
            os.remove(o)
        rc, txt, _ = go_overlay_test(pkg, ["common/util_test.go", src], "^%s$" % test, env={"VERIF_IN": gen.outpath, "VERIF_OUT": o}, timeout=1800)
        rr = read_ndjson(o)
        sm = [x for x in rr if x.get("kind") == "summary"]
        if vlib.build_failed(txt) or not sm or sm[0]["vectors"] == 0:
            raise vlib.Inconclusive("%s replay driver failed:\n%s" % (mod, txt[-2500:]))
        acc.evaluations += sm[0]["vectors"]; acc.extra[mod + "_replay"] = sm[0]
        for x in rr:
            if x.get("kind") == "mismatch":
                v.fail(mod + "-replay", x)
    cli, cli_race = build(False), build(True)
    out = os.path.join(sub("out"), "cli.ndjson")
    rc, txt, _ = go_overlay_test("v2/tools/identify_license/backend", ["common/util_test.go", "backend/cli_driver_test.go"], "^TestVerifCLI$",
                                 env={"VERIF_OUT": out, "VERIF_CLI": cli, "VERIF_CLI_RACE": cli_race, "VERIF_SEED": str(vlib.SEED), "VERIF_SETS": "8" if th else "2"}, timeout=3400)
    recs = read_ndjson(out)
    if vlib.build_failed(txt) or rc != 0 or not recs:
        raise vlib.Inconclusive("CLI driver failed:\n" + txt[-3000:])
    for x in recs:
        if x.get("ev") == "probe":
            acc.extra.setdefault("probes", []).append(x)
            if x.get("deviates"):
                v.fail("probe:" + x["id"], x)
    recs = [x for x in recs if x.get("ev") != "probe"]
    lines = validate(v, acc, "TraceCLI", "TraceCLI.cfg", CFG, "trace_cli.ndjson", recs, classify, "CLI output vs library")
    inv = [x for x in lines if x.get("ev") == "cli"]
    acc.traces += len(inv); acc.evaluations += len(inv) + sum(1 for x in lines if x.get("ev") == "lib")
    acc.nontrivial = len({(x["headers"], x["json"], x["text"], x["tasks"], len(x["lines"])) for x in inv})
    acc.samples += [{k: x[k] for k in ("run", "headers", "tasks", "json", "text", "exit")} | {"lines": len(x["lines"])} for x in inv][:4]
    rc = v.finish()
    vlib.write_evidence(PID, acc.coverage("2 (8) seeded trees (licensed files, nested directories, CRLF, no trailing newline, source file with a header, prose, empty file, two licenses in one file, NOTICE files with 1500 notices, lines longer than 64 KiB) x 7 invocations (flag combinations, -tasks 1/2/3/7/16/1000, directory and file arguments, a -race build); distinct = (flags, tasks, number of lines printed)"),
        ["'reported' = a result line on stdout; lines compared as a bag per invocation", "Text compared line content by line content (terminators stripped)", "-tasks 0 blocks forever (model config V2PoolZero) and is outside the statement's 1..N"], time.time() - t0, len(v.violations))
    return rc
