"""C11 -- Normalize lines up with Match positions and matches the same.  M: Fixpoint on the tokenizer spec.  G: Normalize rendering compared byte for byte on every vector.  T: every corpus document / scenario / edited text, TraceV2 Pair(normalize) + Align."""
import time
from lib import vlib
from checks.v2common import pad_leg, Acc, trace_leg, tok_model, tok_replay
PID = "C11"
def run():
    t0 = time.time(); v = vlib.Verdict(PID); acc = Acc(); th = vlib.TIER == "thorough"
    tok_model(acc, ["E"], 5 if th else 4, invariants=["FixpointDom"])
    tok_model(acc, ["A"], 5 if th else 4, invariants=["FixpointDom"])
    tok_model(acc, ["F"], 5 if th else 4)       # capitalised URL scheme (fix in normalizeToken)
    tok_model(acc, ["G"], 6 if th else 5)       # hyphen-ended notice lines (fix in Normalize's renderer)
    tok_model(acc, ["I"], 5 if th else 4, invariants=["FixpointDom"])   # character references (a decoded upper-case letter)
    tok_model(acc, ["E"], 5, invariants=["Fixpoint"], expect_violation="Fixpoint")   # the open finding C11-token-ends-in-hyphen at model level ("1-.\na")
    tok_replay(v, acc, ["E", "A", "F", "I"], 5 if th else 4)
    tok_replay(v, acc, ["G"], 6 if th else 5)
    tok_model(acc, ["K"], 5 if th else 4)       # words that begin with a multi-byte letter, upper and lower case
    tok_replay(v, acc, ["K", "D"], 5 if th else 4)
    pad_leg(v, acc)                                       # the read buffer under the tokenizer: multi-byte text at every alignment
    recs, lines = trace_leg(v, acc, "c11", [PID])
    ps = [r for r in lines if r.get("ev") == "pair"]
    acc.nontrivial += len({r["label"] for r in ps}); acc.extra["pairs"] = len(ps)
    rc = v.finish()
    vlib.write_evidence(PID, acc.coverage("M/G: every input <= MaxLen over alphabets E (upper-case markers, colon, leading blank lines), A, F (capitalised URL scheme) and G (notice lines with and without a trailing hyphen); T: corpus documents (in context / edited, with capitalised URL schemes, with hyphen-ended notice lines inserted), scenario files: tokens of Normalize(in) vs tokens of in (words and lines), and Match(Normalize(in)) vs Match(in) without Copyright entries", exhaustive=True),
        ["Align is evaluated on Match's own tokenisation of the normalized text (Normalize keeps first-letter case and original spellings)"], time.time() - t0, len(v.violations))
    return rc
