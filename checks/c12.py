"""C12 -- loading a corpus directory equals adding each of its files.
M: V2Load (intended semantics; enumerates trees x spellings).  G (main leg): every enumerated (tree, spelling) materialised and loaded with
the real LoadLicenses.  T: the real assets directory under four spellings and DefaultClassifier vs LoadLicenses."""
import os, time
from lib import vlib
from lib.vlib import tlc, tlc_require_ok, go_overlay_test, read_ndjson, sub
from checks.v2common import Acc, cfg_text, V2_SOURCES
PID = "C12"
def run():
    t0 = time.time(); v = vlib.Verdict(PID); acc = Acc(); th = vlib.TIER == "thorough"
    gen = tlc("V2Load", "V2Load.cfg", workers=4, timeout=1800, files={"V2Load.cfg": cfg_text("V2Load.cfg", MaxFiles=3 if th else 2)})
    tlc_require_ok(gen, "V2Load")
    acc.add_tlc(gen, "V2Load.cfg")
    out = os.path.join(sub("out"), "load.ndjson")
    rc, txt, _ = go_overlay_test("v2", V2_SOURCES, "^TestVerifLoadReplay$", env={"VERIF_IN": gen.outpath, "VERIF_OUT": out}, timeout=3000)
    recs = read_ndjson(out)
    summ = [r for r in recs if r.get("kind") == "summary"]
    if vlib.build_failed(txt) or not summ or summ[0]["vectors"] == 0:
        raise vlib.Inconclusive("load replay driver failed:\n" + txt[-3000:])
    s = summ[0]
    acc.evaluations += s["vectors"]; acc.nontrivial += s["nontrivial"]
    acc.extra["replay"] = {"vectors": s["vectors"], "nontrivial": s["nontrivial"], "classes": s["classes"]}
    acc.samples += [{"vector": x} for x in (s.get("samples") or [])]
    for r in recs:
        if r.get("kind") == "mismatch":
            v.fail("load:%s:%s" % (r["class"], r["spelling"]), r)
    # real assets directory
    out2 = os.path.join(sub("out"), "assets.ndjson")
    rc, txt, _ = go_overlay_test("v2", V2_SOURCES, "^TestVerifLoadAssets$", env={"VERIF_OUT": out2}, timeout=1800)
    recs = read_ndjson(out2)
    if vlib.build_failed(txt) or len(recs) < 4:
        raise vlib.Inconclusive("assets driver failed:\n" + txt[-3000:])
    for r in recs:
        acc.evaluations += r.get("inputs", 0); acc.traces += 1
        if r["why"]:
            v.fail("assets:" + r["spelling"], r)
    out3 = os.path.join(sub("out"), "default.ndjson")
    rc, txt, _ = go_overlay_test("v2/assets", ["assets/assets_driver_test.go"], "^TestVerifDefaultClassifier$", env={"VERIF_OUT": out3}, timeout=1800)
    recs = read_ndjson(out3)
    if vlib.build_failed(txt) or not recs:
        raise vlib.Inconclusive("DefaultClassifier driver failed:\n" + txt[-3000:])
    acc.extra["default_vs_load"] = recs[0]; acc.traces += 1
    if recs[0]["why"]:
        v.fail("default", recs[0])
    rc = v.finish()
    vlib.write_evidence(PID, acc.coverage("every set of <= MaxFiles files out of 104 candidates (depth 1..5, two names per level, suffixes .txt / bare txt / .md / .TXT) x 5 spellings of the directory, materialised on disk; non-trivial = trees with at least one file at category/name/variant depth; plus the real assets directory under 4 spellings and DefaultClassifier vs LoadLicenses on all embedded documents", exhaustive=True),
        ["relative spellings are exercised with chdir", "trees with *.txt files deeper than category/name/variant are only required not to panic"], time.time() - t0, len(v.violations))
    return rc
