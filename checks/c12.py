"""C12 -- loading a corpus directory equals adding each of its files.
M: V2Load (intended semantics; enumerates trees x spellings x histories).  G (main leg): every enumerated (tree, spelling) materialised and loaded with
the real LoadLicenses.  T: the real assets directory under four spellings and DefaultClassifier vs LoadLicenses."""
import os, time
from lib import vlib
from lib.vlib import tlc, tlc_require_ok, go_overlay_test, read_ndjson, sub
from checks.v2common import Acc, cfg_text, V2_SOURCES
PID = "C12"
def run():
    t0 = time.time(); v = vlib.Verdict(PID); acc = Acc(); th = vlib.TIER == "thorough"
    gen = tlc("V2Load", "V2Load.cfg", workers=4, timeout=1800, files={"V2Load.cfg": cfg_text("V2Load.cfg", MaxFiles=3 if th else 2)})
    tlc_require_ok(gen, "V2Load")
    acc.add_tlc(gen, "V2Load.cfg")
    # the replay is bound by file-system calls: the vectors are dealt to 8 driver processes (each with its own scratch root and cwd)
    from concurrent.futures import ThreadPoolExecutor
    NSH = 8
    def shard(i):
        out = os.path.join(sub("out"), "load.%d.ndjson" % i)
        if os.path.exists(out):
            os.remove(out)
        rc, txt, _ = go_overlay_test("v2", V2_SOURCES, "^TestVerifLoadReplay$", timeout=7000,
                                     env={"VERIF_IN": gen.outpath, "VERIF_OUT": out, "VERIF_SHARD": str(i), "VERIF_SHARDS": str(NSH)})
        return txt, read_ndjson(out)
    with ThreadPoolExecutor(NSH) as ex:
        results = list(ex.map(shard, range(NSH)))
    tot = {"vectors": 0, "nontrivial": 0, "classes": {}}
    for txt, recs in results:
        summ = [r for r in recs if r.get("kind") == "summary"]
        if vlib.build_failed(txt) or not summ:
            raise vlib.Inconclusive("load replay driver failed:\n" + txt[-3000:])
        s = summ[0]
        tot["vectors"] += s["vectors"]; tot["nontrivial"] += s["nontrivial"]
        for k, n in (s["classes"] or {}).items():
            tot["classes"][k] = tot["classes"].get(k, 0) + n
        acc.samples += [{"vector": x} for x in (s.get("samples") or [])[:1]]
        for r in recs:
            if r.get("kind") == "mismatch":
                v.fail("load:%s:%s" % (r["class"], r["spelling"]), r)
    if tot["vectors"] == 0:
        raise vlib.Inconclusive("no vector reached the load replay driver")
    acc.evaluations += tot["vectors"]; acc.nontrivial += tot["nontrivial"]
    acc.extra["replay"] = tot
    # real assets directory
    out2 = os.path.join(sub("out"), "assets.ndjson")
    rc, txt, _ = go_overlay_test("v2", V2_SOURCES, "^TestVerifLoadAssets$", env={"VERIF_OUT": out2}, timeout=1800)
    recs = read_ndjson(out2)
    if vlib.build_failed(txt) or len(recs) < 4:
        raise vlib.Inconclusive("assets driver failed:\n" + txt[-3000:])
    for r in recs:
        acc.evaluations += r.get("inputs", 0); acc.traces += 1
        if r["why"]:
            v.fail("assets:" + r["spelling"], r)
    outb = os.path.join(sub("out"), "loadbig.ndjson")
    rc, txt, _ = go_overlay_test("v2", V2_SOURCES, "^TestVerifLoadBig$", env={"VERIF_OUT": outb}, timeout=900)
    recs = read_ndjson(outb)
    if vlib.build_failed(txt) or not recs:
        raise vlib.Inconclusive("big-file driver failed:\n" + txt[-3000:])
    for r in recs:
        acc.traces += 1
        if r["why"]:
            v.fail("bigfile:" + r["spelling"], r)
    oute = os.path.join(sub("out"), "loadedges.ndjson")
    rc, txt, _ = go_overlay_test("v2", V2_SOURCES, "^TestVerifLoadEdges$", env={"VERIF_OUT": oute}, timeout=900)
    recs = read_ndjson(oute)
    if vlib.build_failed(txt) or not recs:
        raise vlib.Inconclusive("load edge-case driver failed:\n" + txt[-3000:])
    for r in recs:
        acc.traces += 1
        if r["why"] and not r["why"].startswith("skipped"):
            v.fail("edge:" + r["spelling"], r)
    acc.extra["edge_cases"] = [r["spelling"] for r in recs]
    out3 = os.path.join(sub("out"), "default.ndjson")
    rc, txt, _ = go_overlay_test("v2/assets", ["assets/assets_driver_test.go"], "^TestVerifDefaultClassifier$", env={"VERIF_OUT": out3}, timeout=1800)
    recs = read_ndjson(out3)
    if vlib.build_failed(txt) or not recs:
        raise vlib.Inconclusive("DefaultClassifier driver failed:\n" + txt[-3000:])
    acc.extra["default_vs_load"] = recs[0]; acc.traces += 1
    if recs[0]["why"]:
        v.fail("default", recs[0])
    rc = v.finish()
    vlib.write_evidence(PID, acc.coverage("every set of <= MaxFiles files out of 104 candidates (depth 1..5, two names per level, suffixes .txt / bare txt / .md / .TXT) x 11 spellings of the directory (plain, trailing /, ./, absolute, `.` and `./` from inside, dir/., dir/../dir, a symbolic link to it with and without trailing /) with a fresh classifier, and x {keys registered before with other content, directory loaded before its files were edited, an empty directory named zz.txt in the tree}; directory names with a leading dot; materialised on disk; non-trivial = trees with at least one file at category/name/variant depth; plus a 1.3 MiB corpus file and a corpus reached through a symbolic link in the middle of the path, the real assets directory under 4 spellings and DefaultClassifier vs LoadLicenses on all embedded documents", exhaustive=True),
        ["relative spellings are exercised with chdir", "trees with *.txt files deeper than category/name/variant are only required not to panic"], time.time() - t0, len(v.violations))
    return rc
