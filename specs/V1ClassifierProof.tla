-------------------------- MODULE V1ClassifierProof --------------------------
(* Unbounded companion of V1ClassifierFixed.cfg: for ANY sets of callers and known values the repaired lazy search-set protocol
   (check and assignment under the write lock) has no race on a set, never hands a nil set to findMatches and builds every set
   at most once.  Checked by tlapm (TLAPS), not by TLC. *)
EXTENDS V1Classifier, TLAPS

ASSUME Repaired == CheckOutsideLock = FALSE
ASSUME NobodyIsNoWorker == NOBODY \notin Workers

PCs == {"lck", "chk", "asg", "unl", "fnd", "done"}
TypeOK == /\ set \in [Values -> BOOLEAN]
          /\ wlock \in Workers \cup {NOBODY}
          /\ pc \in [Workers -> PCs]
          /\ writes \in [Values -> Nat]
IndInv == /\ TypeOK
          /\ \A w \in Workers : pc[w] \in {"chk", "asg", "unl"} => wlock = w
          /\ \A w \in Workers : pc[w] = "asg" => ~set[K(w)]
          /\ \A w \in Workers : pc[w] \in {"unl", "fnd", "done"} => set[K(w)]
          /\ \A k \in Values : writes[k] \in {0, 1} /\ (writes[k] = 1 => set[k])

LEMMA KInValues == \A w \in Workers : K(w) \in Values
  BY DEF Workers, K

THEOREM InitInv == Init => IndInv
  BY Repaired, KInValues DEF Init, IndInv, TypeOK, PCs

THEOREM StepInv == IndInv /\ [Next]_vars => IndInv'
<1> SUFFICES ASSUME IndInv, [Next]_vars PROVE IndInv'
  OBVIOUS
<1>0. CASE UNCHANGED vars
  BY <1>0 DEF IndInv, TypeOK, vars
<1>1. ASSUME NEW w \in Workers, ChkU(w) PROVE IndInv'
  BY <1>1, Repaired DEF ChkU
<1>2. ASSUME NEW w \in Workers, Lck(w) PROVE IndInv'
  BY <1>2, Repaired, NobodyIsNoWorker, KInValues DEF Lck, Goto, IndInv, TypeOK, PCs
<1>3. ASSUME NEW w \in Workers, ChkL(w) PROVE IndInv'
  BY <1>3, Repaired, KInValues DEF ChkL, Goto, IndInv, TypeOK, PCs
<1>4. ASSUME NEW w \in Workers, Asg(w) PROVE IndInv'
  BY <1>4, KInValues DEF Asg, Goto, IndInv, TypeOK, PCs
<1>5. ASSUME NEW w \in Workers, Unl(w) PROVE IndInv'
  BY <1>5, NobodyIsNoWorker, KInValues DEF Unl, Goto, IndInv, TypeOK, PCs
<1>6. ASSUME NEW w \in Workers, Fnd(w) PROVE IndInv'
  BY <1>6, KInValues DEF Fnd, Goto, IndInv, TypeOK, PCs
<1> QED BY <1>0, <1>1, <1>2, <1>3, <1>4, <1>5, <1>6 DEF Next

THEOREM InvProps == IndInv => NoRace /\ SetWhenUsed /\ LazyOnce
  BY Repaired, KInValues DEF IndInv, TypeOK, NoRace, SetWhenUsed, LazyOnce, UnlockedRead, PendingWrite

THEOREM Safety == Spec => [](NoRace /\ SetWhenUsed /\ LazyOnce)
<1>1. Spec => []IndInv
  BY InitInv, StepInv, PTL DEF Spec
<1> QED BY <1>1, InvProps, PTL
=============================================================================
