SPECIFICATION Spec
CONSTANTS Sigma <- SigmaF
          MaxLen = 5
          Emit = TRUE
CHECK_DEADLOCK FALSE
