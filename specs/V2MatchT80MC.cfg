SPECIFICATION Spec
CONSTANTS Q <- QDef
          NeedTab <- NeedDef
          MarginTab <- MarginDef
          TNum = 8
          TDen = 10
          Vocab = {1, 2}
          MaxK = 4
          MaxT = 6
          Emit = FALSE
INVARIANTS InBounds PlantIsCandidate
CHECK_DEADLOCK FALSE
