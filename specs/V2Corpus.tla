------------------------------- MODULE V2Corpus -------------------------------
(* S3 -- the classifier's long-lived state as a state machine (v2/document.go: dictionary, addDocument; classifier.go: Normalize,
   Match), as built:

     dict   the dictionary: word number i is the i-th distinct word ever registered (ids start at 1, 0 = unknown); a word keeps
            its id for the life of the classifier, ids are never reused
     docs   index name (category/name/variant) -> the document's token ids; registering a name again REPLACES the document
   AddContent(k, text)  registers the words of text (in order of first appearance) and sets docs[k]
   Normalize(text)      registers the words of text -- and, as built, the line-end token "\n" of its word-preserving tokenisation,
                        which thereby becomes a dictionary word (found by the first replay of this specification; harmless: no
                        document can contain it); docs unchanged
   Match(text)          changes nothing

   The texts are short sequences of plain lower-case words on one line, for which tokenisation is the identity (the tokenizer
   has its own specification); what is explored here is every HISTORY of up to MaxOps calls.  C04 ("a function of corpus and
   input", "no effect on the classifier") and C12 (a key loaded again is replaced) rest on IdsStable / Replace / MatchIsPure;
   every history is replayed on a real Classifier and dictionary and documents are compared after every call. *)
EXTENDS Integers, Sequences, FiniteSets, TLC, Json

CONSTANTS MaxOps, Emit
Words == {"wa", "wb", "wc"}
Texts == {<<>>} \cup {<<a>> : a \in Words} \cup {<<a, b>> : a \in Words, b \in Words}
Keys  == {"k1", "k2"}

IdOf(d, w) == IF \E i \in 1..Len(d) : d[i] = w THEN CHOOSE i \in 1..Len(d) : d[i] = w ELSE 0
RECURSIVE Register(_, _)
Register(d, t) == IF t = <<>> THEN d
                  ELSE Register(IF IdOf(d, Head(t)) = 0 THEN Append(d, Head(t)) ELSE d, Tail(t))
Ids(d, t) == [i \in 1..Len(t) |-> IdOf(d, t[i])]

VARIABLES dict, docs, hist
vars == <<dict, docs, hist>>
Init == dict = <<>> /\ docs = [k \in {} |-> <<>>] /\ hist = <<>>

Snap(d, ds) == [dict |-> d, docs |-> [k \in DOMAIN ds |-> ds[k]]]
Add(k, t)  == /\ Len(hist) < MaxOps
              /\ LET d2 == Register(dict, t) IN
                 /\ dict' = d2
                 /\ docs' = [x \in DOMAIN docs \cup {k} |-> IF x = k THEN Ids(d2, t) ELSE docs[x]]
                 /\ hist' = Append(hist, [op |-> "add", k |-> k, t |-> t, after |-> Snap(d2, docs')])
EOL == "\n"   \* as built: in its word-preserving mode the tokenizer keeps line ends as tokens, and Normalize registers that token like a word
Norm(t)    == /\ Len(hist) < MaxOps
              /\ dict' = Register(dict, Append(t, EOL)) /\ UNCHANGED docs
              /\ hist' = Append(hist, [op |-> "norm", k |-> "", t |-> t, after |-> Snap(dict', docs)])
Match(t)   == /\ Len(hist) < MaxOps /\ UNCHANGED <<dict, docs>>
              /\ hist' = Append(hist, [op |-> "match", k |-> "", t |-> t, after |-> Snap(dict, docs)])
Out        == /\ Emit /\ Len(hist) = MaxOps /\ PrintT(ToJson(hist)) /\ hist' = Append(hist, [op |-> "out"]) /\ UNCHANGED <<dict, docs>>
Next == (\E k \in Keys, t \in Texts : Add(k, t)) \/ (\E t \in Texts : Norm(t)) \/ (\E t \in {<<"wa">>, <<"wc", "wb">>} : Match(t)) \/ Out
Spec == Init /\ [][Next]_vars

NoDuplicates == \A i, j \in 1..Len(dict) : i # j => dict[i] # dict[j]
DocsKnowTheirWords == \A k \in DOMAIN docs : \A i \in 1..Len(docs[k]) : docs[k][i] \in 1..Len(dict)
\* a word keeps its id: the dictionary only grows at its end
IdsStable == [][Len(dict) <= Len(dict') /\ SubSeq(dict', 1, Len(dict)) = dict]_vars
\* registering a name again replaces exactly that document
Replace == [][\A k \in DOMAIN docs : k \in DOMAIN docs' /\ (docs'[k] # docs[k] => hist'[Len(hist')].op = "add" /\ hist'[Len(hist')].k = k)]_vars
MatchIsPure == [][(Len(hist') > Len(hist) /\ hist'[Len(hist')].op = "match") => (dict' = dict /\ docs' = docs)]_vars
=============================================================================
