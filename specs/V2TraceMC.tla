------------------------------ MODULE V2TraceMC ------------------------------
EXTENDS V2Trace
S(x) == x   \* entries are written as tuples of one-character strings
MCEntries == {<<"*">>, <<"A">>, <<"A", "B">>, <<"A", "*">>, <<"B", "*">>, <<"A", "*", "C">>, <<"A", "B", "*">>}
MCLics == {<<"A">>, <<"A", "B">>, <<"A", "B", "C">>, <<"B">>, <<"B", "A">>, <<"C">>, <<"A", "*">>}
MCPhaseEntries == {<<"*">>, <<"score">>, <<"tokenize">>, <<"nonesuch">>}
MCPhases == {<<"score">>, <<"tokenize">>, <<"searchset">>, <<"frequency">>}
=============================================================================
