--------------------------- MODULE CommentLexer ---------------------------
(* S8 -- commentparser.Parse / Comments.ChunkIterator.

   The lexer is a mode machine over runes: Code | Str | ML | SL.  Step(P, F, inp, st)
   is one iteration of the loop the implementation is in (lex's outer loop, the
   string loop, the multi-line loop); the single-line loop is taken in one step.
   P are the language parameters (LangTables.tla, a pinned snapshot of
   commentparser/language), F the deviation flags:
     F.eat : the implementation reads one more rune after every string / comment
             lexeme ("i.readRune() // Ignore non-comments." at the bottom of lex)
     F.rbe : the multi-line loop reads a rune before it tests for the end delimiter
   F = [eat |-> FALSE, rbe |-> FALSE] is the reference lexer of property C18.
   Runes are one-character strings; the input always ends in "\n" (Parse forces it). *)
EXTENDS Integers, Sequences, FiniteSets, TLC, Json, SequencesExt, LangTables

NL == "\n"
BS == "\\"
QuoteSyms == {"\"", "'", "`"}

MatchAt(inp, p, s) == /\ Len(s) > 0
                      /\ p + Len(s) - 1 <= Len(inp)
                      /\ SubSeq(inp, p, p + Len(s) - 1) = s

(* consume k runes, maintaining line and the rune offset in the line *)
Adv(inp, st, k) ==
  LET seg == SubSeq(inp, st.pos, st.pos + k - 1)
      nls == {i \in 1..k : seg[i] = NL}
      last == IF nls = {} THEN 0 ELSE CHOOSE i \in nls : \A j \in nls : j <= i
  IN [st EXCEPT !.pos = @ + k, !.line = @ + Cardinality(nls),
                !.col = IF nls = {} THEN @ + k ELSE k - last]

Eof(inp, st) == st.pos > Len(inp)

St0 == [pos |-> 1, line |-> 1, col |-> 0, mode |-> "code", q |-> <<>>, esc |-> FALSE, doc |-> FALSE,
        sline |-> 0, text |-> <<>>, nest |-> 0, ms |-> <<>>, me |-> <<>>, out |-> <<>>,
        unt |-> FALSE, halt |-> FALSE]

Halt(st, unterminated) == [st EXCEPT !.halt = TRUE, !.unt = unterminated]

(* after a complete lexeme: back to code; as built, one more rune is eaten *)
AfterLexeme(F, inp, st) ==
  LET s1 == [st EXCEPT !.mode = "code"]
  IN IF F.eat /\ ~Eof(inp, s1) THEN Adv(inp, s1, 1) ELSE s1

FirstML(P, inp, p) ==    \* index of the first (priority order) multi-line pair whose start matches, 0 if none
  LET I == {i \in 1..Len(P.ml) : MatchAt(inp, p, P.ml[i].s)}
  IN IF I = {} THEN 0 ELSE CHOOSE i \in I : \A j \in I : i <= j
FirstSL(P, inp, p) ==
  LET I == {i \in 1..Len(P.sl) : MatchAt(inp, p, P.sl[i])}
  IN IF I = {} THEN 0 ELSE CHOOSE i \in I : \A j \in I : i <= j

CodeStep(P, F, inp, st) ==
  LET c == inp[st.pos] IN
  IF c \in QuoteSyms THEN
     IF P.inert \/ c \notin P.quotes THEN Adv(inp, st, 1)
     ELSE LET triple == <<c, c, c>>
              isT    == P.pydoc /\ c \in {"'", "\""} /\ MatchAt(inp, st.pos, triple)
              s1     == Adv(inp, st, IF isT THEN 3 ELSE 1)
          IN [s1 EXCEPT !.mode = "str", !.q = IF isT THEN triple ELSE <<c>>,
                        !.esc = c \in P.escq, !.doc = isT /\ s1.col = 3,
                        !.sline = s1.line, !.text = <<>>]
  ELSE LET m == FirstML(P, inp, st.pos) IN
       IF m > 0 THEN
          LET s1 == Adv(inp, st, Len(P.ml[m].s))
          IN [s1 EXCEPT !.mode = "ml", !.ms = P.ml[m].s, !.me = P.ml[m].e, !.nest = 0,
                        !.sline = s1.line, !.text = <<>>]
       ELSE LET k == FirstSL(P, inp, st.pos) IN
            IF k > 0 THEN
               \* whole single-line comment in one step: up to, not including, the newline
               LET s1 == Adv(inp, st, Len(P.sl[k]))
                   j  == CHOOSE j \in s1.pos..Len(inp) : inp[j] = NL /\ \A i \in s1.pos..(j - 1) : inp[i] # NL
                   s2 == Adv(inp, s1, j - s1.pos)
                   cm == [sl |-> st.line, el |-> s2.line, t |-> SubSeq(inp, s1.pos, j - 1)]
               IN AfterLexeme(F, inp, [s2 EXCEPT !.out = Append(@, cm)])
            ELSE Adv(inp, st, 1)

StrStep(P, F, inp, st) ==
  IF Eof(inp, st) THEN Halt(st, TRUE)
  ELSE LET c == inp[st.pos] IN
    IF st.esc /\ c = BS THEN            \* eat the escape, then the escaped rune
       LET s1 == Adv(inp, st, 1) IN
       IF Eof(inp, s1) THEN Halt(s1, TRUE)
       ELSE LET s2 == Adv(inp, s1, 1)
                s3 == IF st.doc THEN [s2 EXCEPT !.text = @ \o <<BS, inp[s1.pos]>>] ELSE s2      \* the text of a docstring is what stands between its quotes, backslashes included (fix)
            IN IF Eof(inp, s3) THEN Halt(s3, TRUE) ELSE s3
    ELSE IF MatchAt(inp, st.pos, st.q) THEN
       LET s1 == Adv(inp, st, Len(st.q))
           s2 == IF st.doc THEN [s1 EXCEPT !.out = Append(@, [sl |-> st.sline, el |-> s1.line, t |-> st.text])]
                 ELSE s1
       IN AfterLexeme(F, inp, s2)
    ELSE IF P.nlstr /\ c = NL THEN      \* JavaScript / Perl: a newline ends the string; the newline is plain code
       Adv(inp, [st EXCEPT !.mode = "code"], 1)
    ELSE LET s1 == Adv(inp, st, 1)
             s2 == IF st.doc THEN [s1 EXCEPT !.text = Append(@, c)] ELSE s1
         IN IF Eof(inp, s2) THEN Halt(s2, TRUE) ELSE s2

MLFinish(F, inp, st) ==
  AfterLexeme(F, inp, [st EXCEPT !.out = Append(@, [sl |-> st.sline, el |-> st.line, t |-> st.text])])

MLStep(P, F, inp, st) ==
  IF Eof(inp, st) THEN Halt(st, TRUE)
  ELSE IF F.rbe THEN
     \* as built: read a rune first, then look for a nested start, then for the end
     LET s1 == [Adv(inp, st, 1) EXCEPT !.text = Append(st.text, inp[st.pos])]
         s2 == IF P.nested /\ MatchAt(inp, s1.pos, st.ms)
               THEN [Adv(inp, s1, Len(st.ms)) EXCEPT !.text = s1.text \o st.ms, !.nest = s1.nest + 1]
               ELSE s1
     IN IF MatchAt(inp, s2.pos, st.me)
        THEN LET s3 == Adv(inp, s2, Len(st.me)) IN
             IF s2.nest > 0 THEN [s3 EXCEPT !.text = s2.text \o st.me, !.nest = s2.nest - 1]
             ELSE MLFinish(F, inp, s3)
        ELSE s2
  ELSE
     \* reference: delimiters are recognised wherever they start
     IF P.nested /\ MatchAt(inp, st.pos, st.ms)
     THEN [Adv(inp, st, Len(st.ms)) EXCEPT !.text = st.text \o st.ms, !.nest = st.nest + 1]
     ELSE IF MatchAt(inp, st.pos, st.me)
     THEN LET s1 == Adv(inp, st, Len(st.me)) IN
          IF st.nest > 0 THEN [s1 EXCEPT !.text = st.text \o st.me, !.nest = st.nest - 1]
          ELSE MLFinish(F, inp, s1)
     ELSE [Adv(inp, st, 1) EXCEPT !.text = Append(st.text, inp[st.pos])]

Step(P, F, inp, st) ==
  CASE st.mode = "code" -> IF Eof(inp, st) THEN Halt(st, FALSE) ELSE CodeStep(P, F, inp, st)
    [] st.mode = "str"  -> StrStep(P, F, inp, st)
    [] st.mode = "ml"   -> MLStep(P, F, inp, st)

RECURSIVE RunFrom(_, _, _, _)
RunFrom(P, F, inp, st) == IF st.halt THEN st ELSE RunFrom(P, F, inp, Step(P, F, inp, st))

Terminate(flat) == IF flat = <<>> \/ Last(flat) # NL THEN Append(flat, NL) ELSE flat
Lex(P, F, flat) == IF flat = <<>> THEN [St0 EXCEPT !.halt = TRUE]      \* Parse returns nil on empty input
                   ELSE RunFrom(P, F, Terminate(flat), St0)

(* ChunkIterator: greedy grouping into maximal runs of comments on consecutive lines.
   Reading (DESIGN.md, C18): a comment is "on" its start line, so next joins prev iff
   next.StartLine <= prev.StartLine + 1 (byStart = TRUE).  This is the reading the repository's own
   TestCommentParser_ChunkIterator pins ({1-3},{4-6} are two chunks).  byStart = FALSE is the other
   reading (next.StartLine <= prev.EndLine + 1); it is kept only to show where the readings differ. *)
RECURSIVE ChunksFrom(_, _, _, _)
ChunksFrom(cs, i, acc, byStart) ==
  IF i > Len(cs) THEN acc
  ELSE LET prev == cs[i - 1]
           join == IF byStart THEN cs[i].sl <= prev.sl + 1 ELSE cs[i].sl <= prev.el + 1
       IN IF join THEN ChunksFrom(cs, i + 1, [acc EXCEPT ![Len(acc)] = Append(@, i)], byStart)
          ELSE ChunksFrom(cs, i + 1, Append(acc, <<i>>), byStart)
Chunks(cs, byStart) == IF cs = <<>> THEN <<>> ELSE ChunksFrom(cs, 2, <<<<1>>>>, byStart)

--------------------------------------------------------------------------
(* Enumeration of inputs: token sequences over the group's alphabet *)
CONSTANTS MaxTok,      \* maximal number of tokens of an input
          Groups,      \* indices into Tables explored by this run
          AbEat, AbRbe, AbByStart   \* deviation flags of the code as it is today

VARIABLES g, toks, phase
vars == <<g, toks, phase>>

Flat(ts) == FlattenSeq(ts)
Ideal == [eat |-> FALSE, rbe |-> FALSE]

Init == g \in Groups /\ toks = <<>> /\ phase = "grow"
Grow == /\ phase = "grow" /\ Len(toks) < MaxTok
        /\ \E t \in Tables[g].sigma : toks' = Append(toks, t)
        /\ UNCHANGED <<g, phase>>
Emit == /\ phase = "grow"
        /\ phase' = "done" /\ UNCHANGED <<g, toks>>
        /\ LET P  == Tables[g]
               id == Lex(P, Ideal, Flat(toks))
               ab == Lex(P, [eat |-> AbEat, rbe |-> AbRbe], Flat(toks))
           IN PrintT(ToJson([g |-> g, t |-> toks,
                             c |-> id.out, u |-> id.unt, ch |-> Chunks(id.out, TRUE),
                             bc |-> ab.out, bu |-> ab.unt, bch |-> Chunks(ab.out, AbByStart)]))
Next == Grow \/ Emit
Spec == Init /\ [][Next]_vars

--------------------------------------------------------------------------
(* Leg M: properties of the reference lexer, evaluated for every enumerated input *)
R == Lex(Tables[g], Ideal, Flat(toks))
Ordered   == \A i \in 1..Len(R.out) : /\ 1 <= R.out[i].sl /\ R.out[i].sl <= R.out[i].el
                                      /\ i > 1 => R.out[i - 1].el <= R.out[i].sl
SLNoNewline == \A i \in 1..Len(R.out) : R.out[i].sl = R.out[i].el \/ \E j \in 1..Len(R.out[i].t) : R.out[i].t[j] = NL
ChunkLaw == LET ch == Chunks(R.out, TRUE) IN
            /\ FlattenSeq(ch) = [i \in 1..Len(R.out) |-> i]                  \* every comment exactly once, in order
            /\ \A k \in 1..Len(ch) : \A m \in 2..Len(ch[k]) :
                   R.out[ch[k][m]].sl <= R.out[ch[k][m - 1]].sl + 1            \* consecutive lines inside a chunk
            /\ \A k \in 2..Len(ch) :
                   R.out[ch[k][1]].sl > R.out[ch[k - 1][Len(ch[k - 1])]].sl + 1  \* maximal
\* the two deviations matter: with them the lexer differs from the reference on some input (non-vacuity, expected to be violated)
SameAsBuilt == Lex(Tables[g], [eat |-> TRUE, rbe |-> TRUE], Flat(toks)).out = R.out
=============================================================================
