SPECIFICATION Spec
CONSTANTS Files <- MCFiles
          NMatches <- MCMatches
          Tasks = 2
          DoneFirst = TRUE
          Exclusive = TRUE
INVARIANTS NoSendOnClosed
CHECK_DEADLOCK FALSE
