SPECIFICATION Spec
CONSTANTS Sym = {1, 2}
          MaxLen = 3
          MaxOps = 4
INVARIANT Lemma
CHECK_DEADLOCK FALSE
