SPECIFICATION Spec
CONSTANTS MaxArgs = 2
          MaxPats = 2
          Emit = TRUE
CHECK_DEADLOCK FALSE
