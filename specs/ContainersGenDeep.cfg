SPECIFICATION Spec
CONSTANTS U = {1, 2}
          MaxDepth = 4
          AnyInit = TRUE
          Recv = {"A"}
          WithBin = FALSE
CHECK_DEADLOCK FALSE
