SPECIFICATION Spec
CONSTANTS Cands <- MCCands
          MaxFiles = 4
INVARIANT RoundTrip
CHECK_DEADLOCK FALSE
