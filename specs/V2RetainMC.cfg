SPECIFICATION Spec
CONSTANTS C4s = {2, 3, 4}
          MaxLine = 3
          Spans <- MCSpans
          Names = {1, 2}
          MaxC = 3
          Emit = FALSE
INVARIANTS DisjointRetained NonEmpty Ordered NoHeavierInside
CHECK_DEADLOCK FALSE
