SPECIFICATION Spec
CONSTANTS Sigma <- SigmaF
          MaxLen = 5
          Emit = FALSE
INVARIANTS FixpointDom Recase
CHECK_DEADLOCK FALSE
