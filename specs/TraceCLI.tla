------------------------------ MODULE TraceCLI ------------------------------
(* Leg T of C19: what the identify_license binary printed, validated against what the library returns.
     lib {file, ms}      the matches Match returns for the file's bytes
     cli {...}           one invocation: flags, exit status, parsed stdout lines, parsed JSON classifications
   CLIReturn: the printed lines are, as a bag, the library's matches of the files in scope (Header matches only
   with -headers), whatever -tasks is; with -json every classification is one of them and, with -include_text,
   its Text is exactly lines StartLine..EndLine; exit status 0 iff at least one line was printed.           *)
EXTENDS Integers, Sequences, FiniteSets, TLC, Json
Trace == ndJsonDeserialize("trace_cli.ndjson")
VARIABLES lib, l
vars == <<lib, l>>
Rng(f) == {f[x] : x \in DOMAIN f}
BagOf(sq) == [x \in Rng(sq) |-> Cardinality({i \in DOMAIN sq : sq[i] = x})]
Get(f, k, d) == IF k \in DOMAIN f THEN f[k] ELSE d
Put(f, k, v) == [x \in DOMAIN f \cup {k} |-> IF x = k THEN v ELSE f[x]]
Init == lib = <<>> /\ l = 1
Ev(n) == l <= Len(Trace) /\ Trace[l].ev = n /\ l' = l + 1
E == Trace[l]

Reset == Ev("reset") /\ lib' = <<>>
Lib   == Ev("lib") /\ lib' = Put(lib, E.file, E.ms)

RECURSIVE Concat(_, _)
Concat(files, i) == IF i > Len(files) THEN <<>> ELSE
   [j \in 1..Len(Get(lib, files[i], <<>>)) |->
        [file |-> files[i], name |-> lib[files[i]][j].name, variant |-> lib[files[i]][j].variant, conf |-> lib[files[i]][j].conf,
         sl |-> lib[files[i]][j].sl, el |-> lib[files[i]][j].el, header |-> lib[files[i]][j].header]] \o Concat(files, i + 1)
Expected(e) == SelectSeq(Concat(e.scope, 1), LAMBDA m : e.headers \/ ~m.header)
Strip(sq) == [i \in 1..Len(sq) |-> [file |-> sq[i].file, name |-> sq[i].name, variant |-> sq[i].variant, conf |-> sq[i].conf, sl |-> sq[i].sl, el |-> sq[i].el]]
NoVariant(sq) == [i \in 1..Len(sq) |-> [file |-> sq[i].file, name |-> sq[i].rawname, conf |-> sq[i].conf, sl |-> sq[i].sl, el |-> sq[i].el]]

CLIReturn(e) ==
  /\ e.unparsed = <<>>
  /\ BagOf(Strip(Expected(e))) = BagOf(Strip(e.lines))                       \* exactly the library's matches, independent of -tasks
  /\ (e.exit = 0) = (Len(e.lines) > 0)                                        \* exit status
  /\ e.races = 0                                                              \* a -race build reported nothing
  /\ (e.json /\ Len(e.lines) > 0) =>
        /\ e.jsonok
        /\ BagOf([i \in 1..Len(e.jsoncls) |-> [file |-> e.jsoncls[i].file, name |-> e.jsoncls[i].name, conf |-> e.jsoncls[i].conf, sl |-> e.jsoncls[i].sl, el |-> e.jsoncls[i].el]])
              = BagOf(NoVariant(e.lines))
        /\ \A i \in 1..Len(e.jsoncls) : e.jsoncls[i].textok                    \* Text is exactly lines StartLine..EndLine
Cli == Ev("cli") /\ CLIReturn(E) /\ UNCHANGED lib
Next == Reset \/ Lib \/ Cli
Spec == Init /\ [][Next]_vars
TraceAccepted == TLCGet("stats").diameter - 1 = Len(Trace)
=============================================================================
