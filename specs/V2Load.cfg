SPECIFICATION Spec
CONSTANTS MaxFiles = 2
INVARIANT KeysWellFormed
CHECK_DEADLOCK FALSE
