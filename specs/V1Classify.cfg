SPECIFICATION Spec
CONSTANTS VTok = {"aa", "bb", ".", "(", "*"}
          CTok = {"xx", "-"}
          MaxVal = 2
          MaxCtx = 1
INVARIANTS PlantsAreCopies OnlyPlanted
CHECK_DEADLOCK FALSE
