----------------------------- MODULE V1Contract -----------------------------
(* S5-S7, contract side -- the v1 API (stringclassifier.Classifier, licenseclassifier.License,
   searchset.FindPotentialMatches) as guards over call/return events.  Floats are ranks (r) among
   {0, confidences, threshold, 1.0} plus bit patterns (cb).
     C13  AddValue never panics; a planted verbatim copy is reported exactly; confidences in (0,1];
          Offset/Extent inside the normalised unknown; NearestMatch of a known value returns it at 1.0
     C15  a classifier loaded from an archive answers every query like one built directly
     C16  NearestMatch on a corpus text (or a presentation variant) returns its canonical name at or above
          the threshold; MultipleMatch never returns a confidence below the threshold
     C17  FindPotentialMatches: candidates non-empty, ordered by target position, inside the token bounds,
          convertible to a byte range start <= end inside the target string                              *)
EXTENDS Integers, Sequences, FiniteSets, TLC

VARIABLES known,   \* classifier -> set of registered keys
          memo     \* query key -> projected answer (C15 equivalence of two classifiers)
v1vars == <<known, memo>>
ONEBITS == "3ff0000000000000"
Get(f, k, d) == IF k \in DOMAIN f THEN f[k] ELSE d
Put(f, k, v) == [x \in DOMAIN f \cup {k} |-> IF x = k THEN v ELSE f[x]]
Rng(f) == {f[x] : x \in DOMAIN f}

V1Init == known = <<>> /\ memo = <<>>

New(c) == known' = Put(known, c, {}) /\ UNCHANGED memo

(* C13: registering any string never panics; a second registration of a key is refused with an error *)
AddValue(c, e) ==
  /\ e.panic = ""
  /\ e.ok = (e.key \notin Get(known, c, {}))
  /\ known' = Put(known, c, Get(known, c, {}) \cup {e.key})
  /\ UNCHANGED memo

ConfOK(m, e)   == e.zero < m.r /\ m.r <= e.one                      \* 0 < Confidence <= 1
InBounds(m, e) == 0 <= m.off /\ 0 <= m.ext /\ m.off + m.ext <= e.ulen
Reported(p, e) == \E i \in 1..Len(e.ms) : LET m == e.ms[i] IN
                     m.name = p.name /\ m.cb = ONEBITS /\ m.off = p.off /\ m.ext = p.ext

MemoOK(e, proj) == IF e.memo = "" THEN UNCHANGED memo
                   ELSE IF e.memo \in DOMAIN memo THEN proj = memo[e.memo] /\ UNCHANGED memo
                   ELSE memo' = Put(memo, e.memo, proj)

MultipleMatch(c, e) ==
  /\ e.panic = ""
  /\ \A i \in 1..Len(e.ms) : /\ ConfOK(e.ms[i], e) /\ InBounds(e.ms[i], e)
                             /\ e.ms[i].name \in Get(known, c, {}) \cup Rng(e.aliases)
                             /\ e.floor <= e.ms[i].r                 \* C16: nothing below the License threshold (floor = zero for a bare classifier)
  /\ \A i \in 1..Len(e.plants) : Reported(e.plants[i], e)             \* C13 ExactFound
  /\ MemoOK(e, [ms |-> [i \in 1..Len(e.ms) |-> [name |-> e.ms[i].name, cb |-> e.ms[i].cb, off |-> e.ms[i].off, ext |-> e.ms[i].ext]]])
  /\ UNCHANGED known

NearestMatch(c, e) ==
  /\ e.panic = ""
  /\ e.found => (ConfOK(e.m, e) /\ InBounds(e.m, e))
  /\ e.eq # <<>> => (e.found /\ e.m.cb = ONEBITS /\ e.m.name \in Rng(e.eq))     \* C13 NearestSelf
  /\ e.want # "" => (e.found /\ e.m.name = e.want /\ e.m.r >= e.floor)          \* C16: canonical name at or above the threshold
  \* equivalence of two classifiers (C15): below the threshold NearestMatch is not comparable -- it is documented as
  \* undefined among equidistant values, the heap order of equal confidences depends on goroutine scheduling, and
  \* go-diff gives up after one second on texts that differ a lot, which makes low confidences load dependent
  \* (the name is not compared at all: several shipped licenses share a header text, e.g. AFL-2.1 / AFL-3.0, and tie)
  /\ MemoOK(e, IF e.found /\ e.m.r >= e.floor THEN [cb |-> e.m.cb, off |-> e.m.off, ext |-> e.m.ext]
                ELSE [cb |-> "<below threshold>"])
  /\ UNCHANGED known

(* C17: one FindPotentialMatches result *)
RangesOK(e) ==
  /\ e.panic = ""
  /\ e.textok                                                      \* token offsets of both search sets index their strings
  /\ \A i \in 1..Len(e.cands) : LET mr == e.cands[i] IN
        /\ Len(mr) > 0
        \* the statement bounds the TARGET side only (merged ranges may extend SrcEnd behind the source: not demanded)
        /\ \A j \in 1..Len(mr) : 0 <= mr[j][3] /\ mr[j][3] < mr[j][4] /\ mr[j][4] <= e.tgtlen          \* TargetStart < TargetEnd <= |target|
        /\ \A j \in 1..(Len(mr) - 1) : mr[j][3] <= mr[j + 1][3]                                          \* ordered by target position
        /\ 0 <= e.bytes[i][1] /\ e.bytes[i][1] <= e.bytes[i][2] /\ e.bytes[i][2] <= e.tgtbytes            \* TargetRange
FindPotentialMatches(e) == RangesOK(e) /\ UNCHANGED v1vars
=============================================================================
