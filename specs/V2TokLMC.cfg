SPECIFICATION Spec
CONSTANTS Sigma <- SigmaL
          MaxLen = 5
          Emit = FALSE
INVARIANTS NoticeIns BlankLine TailLine
CHECK_DEADLOCK FALSE
