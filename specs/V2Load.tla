------------------------------- MODULE V2Load -------------------------------
(* S3, LoadLicenses -- specified as the statement of C12 intends it:
     walk the tree; ignore names that do not end in "txt"; ignore files shallower than
     category/name/variant; a file at exactly that depth is AddContent(category, name, variant, bytes);
     the spelling of the directory (plain, trailing separator, ./ prefix, absolute, "." from inside, dir/., a detour
     through ..) is irrelevant; directory names are just names (a leading dot means nothing);
     registering a key again replaces the document: loading over documents added earlier, and loading a directory a
     second time after its files were edited, leave exactly what AddContent of the current files leaves.
   TLC enumerates small trees x spellings; every case is materialised on disk by the Go driver and
   the real LoadLicenses must yield exactly the expected corpus keys (and never panic).  A tree that
   also holds deeper *.txt files is outside the equivalence claim: only "no panic" is required. *)
EXTENDS Integers, Sequences, FiniteSets, TLC, Json

CONSTANTS MaxFiles
Level1 == {"License", ".Header"}
Level2 == {"x", ".y"}
Bases  == {"f", "g"}
Suffix == {".txt", "txt", ".md", ".TXT"}         \* "txt": a bare name ending in txt (e.g. "ftxt")
Spell  == {"plain", "trailing", "dot", "dottrailing", "absolute", "cwd", "cwdslash", "inner", "updown", "symlink", "symlinktrailing"}   \* the last two: dir is a symbolic link to the corpus directory
(* history before the load: nothing; every key of the tree (and one foreign key) registered with other content;
   the tree loaded once with other file contents (then edited, then loaded again) *)
Mode   == {"fresh", "pre", "reload", "txtdir",       \* txtdir: the tree also holds an (empty) DIRECTORY named zz.txt at variant depth -- not a file, nothing to load
           "preempty", "reloadempty",                \* as pre / reload, but the files loaded (last) are EMPTY: a document without words replaces what the key held
           "links"}                                  \* every file of the tree is a symbolic link to a text kept elsewhere: a corpus file is whatever its path leads to
Combos == (Spell \X {"fresh"}) \cup ({"plain", "absolute"} \X {"pre", "reload", "txtdir"}) \cup ({"plain"} \X {"preempty", "reloadempty", "links"})

(* candidate files: depth 1..5 below the corpus directory *)
Dirs(d) == CASE d = 1 -> {<<>>}
             [] d = 2 -> {<<a>> : a \in Level1}
             [] d = 3 -> {<<a, b>> : a \in Level1, b \in Level2}
             [] d = 4 -> {<<a, b, "deep">> : a \in Level1, b \in Level2}
             [] d = 5 -> {<<a, b, "deep", "er">> : a \in {"License"}, b \in Level2}
Files == UNION {{[dir |-> p, base |-> b, suf |-> s] : p \in Dirs(d), b \in Bases, s \in Suffix} : d \in 1..5}

EndsInTxt(f) == f.suf \in {".txt", "txt"}
Depth(f)     == Len(f.dir) + 1
Name(f)      == f.base \o f.suf                   \* TLC concatenates strings
Key(f)       == <<f.dir[1], f.dir[2], Name(f)>>

VARIABLES tree, spelling, mode, phase
vars == <<tree, spelling, mode, phase>>
Init == tree = {} /\ (\E cb \in Combos : spelling = cb[1] /\ mode = cb[2]) /\ phase = "grow"
Grow == /\ phase = "grow" /\ Cardinality(tree) < MaxFiles
        /\ \E f \in Files \ tree : tree' = tree \cup {f}
        /\ UNCHANGED <<spelling, mode, phase>>
Emit == /\ phase = "grow" /\ phase' = "done" /\ UNCHANGED <<tree, spelling, mode>>
        /\ LET kept   == {f \in tree : EndsInTxt(f) /\ Depth(f) >= 3}
               exact  == \A f \in kept : Depth(f) = 3
               keys   == {Key(f) : f \in {g \in kept : Depth(g) = 3}}
           IN PrintT(ToJson([files |-> {[dir |-> f.dir, name |-> Name(f)] : f \in tree}, spelling |-> spelling, mode |-> mode,
                             equiv |-> exact, keys |-> keys]))
Next == Grow \/ Emit
Spec == Init /\ [][Next]_vars

(* the intended semantics is spelling independent by construction; what TLC checks here is that the
   expected key set is a function of the tree alone *)
KeysWellFormed == \A f \in tree : (EndsInTxt(f) /\ Depth(f) = 3) => Len(Key(f)) = 3
=============================================================================
