SPECIFICATION Spec
CONSTANTS Sigma <- SigmaD
          MaxLen = 5
          Emit = TRUE
CHECK_DEADLOCK FALSE
