SPECIFICATION Spec
CONSTANTS Files <- MCFiles
          NMatches <- MCMatches
          Tasks = 2
          DoneFirst = FALSE
          Exclusive = TRUE
INVARIANTS NoLostAppend BoundedTasks NoSendOnClosed
PROPERTY Terminates
CHECK_DEADLOCK FALSE
