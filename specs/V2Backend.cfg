SPECIFICATION Spec
CONSTANTS Runs = {"r1", "r2"}
          Files = {"f1", "f2"}
          Entries = 2
          LockPerRun = FALSE
INVARIANTS NoRace AllAppended
PROPERTIES NeverShrinks
CHECK_DEADLOCK FALSE
