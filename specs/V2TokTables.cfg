SPECIFICATION Spec
INVARIANTS MarkersAreHeaders InterMapsOnce
CHECK_DEADLOCK FALSE
