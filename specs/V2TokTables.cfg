SPECIFICATION Spec
INVARIANTS MarkersAreHeaders InterMapsOnce DatesAreNotices WrappedMapsLikeBare
CHECK_DEADLOCK FALSE
