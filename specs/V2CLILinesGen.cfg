SPECIFICATION Spec
CONSTANTS MaxLen = 5
          MaxLine = 4
          Emit = TRUE
CHECK_DEADLOCK FALSE
