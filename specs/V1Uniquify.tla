------------------------------ MODULE V1Uniquify ------------------------------
(* S5, result assembly of stringclassifier.MultipleMatch: the matches popped from the queue are sorted with Matches.Less
   (confidence descending; among equal confidences by name, then offset ascending, extent descending) and passed
   through uniquify, which drops a match whose offset lies inside a match kept before it -- both as built.
   InclusiveEnd = TRUE is the loop before fix 2a4e822 (offset <= offset + extent).
   Explored over every set of up to MaxM matches on a small grid; replayed into the real sort + uniquify. *)
EXTENDS Integers, Sequences, FiniteSets, TLC, Json, SequencesExt

CONSTANTS Confs, Names, MaxOff, MaxExt, MaxM, InclusiveEnd, Emit

Ms == {[c |-> c, n |-> n, off |-> o, ext |-> e] : c \in Confs, n \in Names, o \in 0..MaxOff, e \in 1..MaxExt}
MLess(a, b) == IF a.c = b.c
               THEN IF a.n = b.n THEN (a.off < b.off \/ (a.off = b.off /\ a.ext > b.ext)) ELSE a.n < b.n
               ELSE a.c > b.c
Inside(m, r) == m.off >= r.off /\ (IF InclusiveEnd THEN m.off <= r.off + r.ext ELSE m.off < r.off + r.ext)
RECURSIVE UniqFrom(_, _, _)
UniqFrom(sq, i, kept) == IF i > Len(sq) THEN kept
                         ELSE IF \E k \in 1..Len(kept) : Inside(sq[i], kept[k]) THEN UniqFrom(sq, i + 1, kept)
                         ELSE UniqFrom(sq, i + 1, Append(kept, sq[i]))
Sorted(S) == SetToSortSeq(S, MLess)
Uniq(S) == UniqFrom(Sorted(S), 1, <<>>)

VARIABLES ms, phase
vars == <<ms, phase>>
Init == ms = {} /\ phase = "grow"
Grow == phase = "grow" /\ Cardinality(ms) < MaxM /\ \E m \in Ms : m \notin ms /\ ms' = ms \cup {m} /\ UNCHANGED phase
Tup(m) == <<m.c, m.n, m.off, m.ext>>
Out  == /\ phase = "grow" /\ Emit /\ ms # {} /\ phase' = "done" /\ UNCHANGED ms
        /\ LET sq == Sorted(ms)  u == Uniq(ms) IN
           PrintT(ToJson([sorted |-> [i \in 1..Len(sq) |-> Tup(sq[i])], kept |-> [i \in 1..Len(u) |-> Tup(u[i])]]))
Next == Grow \/ Out
Spec == Init /\ [][Next]_vars

(* C13: a copy that shares no byte with any other reported range is reported (copies that abut included) *)
DisjointB(a, b) == a.off + a.ext <= b.off \/ b.off + b.ext <= a.off
DisjointKept == \A m \in ms : (\A o \in ms \ {m} : DisjointB(m, o)) => \E i \in 1..Len(Uniq(ms)) : Uniq(ms)[i] = m
BestKept == ms # {} => Uniq(ms)[1] = Sorted(ms)[1]
NoStartInside == \A i, j \in 1..Len(Uniq(ms)) : i < j => ~Inside(Uniq(ms)[j], Uniq(ms)[i])
=============================================================================
