SPECIFICATION Spec
CONSTANTS Sigma <- MCSigma
          MaxLen = 3
          Emit = FALSE
INVARIANTS NormRecase NormDecorate
CHECK_DEADLOCK FALSE
