SPECIFICATION Spec
CONSTANTS Callers = {"c1", "c2"}
          Values = {"k1"}
          CheckOutsideLock = TRUE
INVARIANTS NoRace
CHECK_DEADLOCK FALSE
