--------------------------- MODULE V1ArchiveWriter ---------------------------
(* S7, lower layer -- the writers under serializer.ArchiveLicenses:

       gw := gzip.NewWriter(w);  tw := tar.NewWriter(gw)
       for every license: tw.WriteHeader / tw.Write (text), tw.WriteHeader / tw.Write (search set)   -- an error is returned
       return tw.Close()                                            -- and gw.Close() runs deferred

   The compressor BUFFERS: bytes written to gw reach w only when its buffer (Buf bytes here) is full, and the rest -- for a
   small archive: everything -- only when gw is closed.  The destination w accepts Room bytes and fails after that (a full
   disk, a closed pipe).  C15 speaks about "the archive written by ArchiveLicenses": when ArchiveLicenses reports success, w has
   accepted the whole archive (SuccessMeansWritten).  IgnoreClose = TRUE is the code before the repair (`defer gw.Close()`
   drops the error of the final flush): it must violate the property (V1ArchiveWriterAsBuilt.cfg). *)
EXTENDS Integers, Sequences, TLC, Json

CONSTANTS Entries,      \* sizes of the entries written, in order
          Buf, MaxRoom, IgnoreClose, Emit

EntriesMC == <<3, 5, 2, 7>>      \* the model's archive: four entries; Buf = 4 makes some writes flush and some not
Sum(s) == LET RECURSIVE F(_) F(i) == IF i = 0 THEN 0 ELSE s[i] + F(i - 1) IN F(Len(s))
Total == Sum(Entries) + 1          \* + the trailer tw.Close() and gw.Close() add

VARIABLES room, pending, accepted, next, pc, result
vars == <<room, pending, accepted, next, pc, result>>

Init == /\ room \in 0..MaxRoom /\ pending = 0 /\ accepted = 0 /\ next = 1 /\ pc = "write" /\ result = "none"

(* gw.Write(n): buffer, and hand full buffers down; w.Write fails once its room is used up *)
Down(n) == IF accepted + n <= room THEN [ok |-> TRUE, acc |-> accepted + n] ELSE [ok |-> FALSE, acc |-> room]
WriteEntry == /\ pc = "write" /\ next <= Len(Entries)
              /\ LET p == pending + Entries[next] IN
                 IF p >= Buf
                 THEN LET d == Down(p - (p % Buf)) IN
                      /\ accepted' = d.acc
                      /\ IF d.ok THEN pending' = p % Buf /\ next' = next + 1 /\ UNCHANGED <<pc, result>>
                         ELSE pc' = "closegz" /\ result' = "error" /\ UNCHANGED <<pending, next>>       \* `return err`; the deferred Close still runs
                 ELSE pending' = p /\ next' = next + 1 /\ UNCHANGED <<accepted, pc, result>>
              /\ UNCHANGED room
CloseTar   == /\ pc = "write" /\ next > Len(Entries)
              /\ pending' = pending + 1 /\ pc' = "closegz" /\ result' = "ok"          \* tw.Close(): the trailer goes into the buffer, no error
              /\ UNCHANGED <<room, accepted, next>>
CloseGzip  == /\ pc = "closegz"
              /\ LET d == Down(pending) IN
                 /\ accepted' = d.acc /\ pending' = 0
                 /\ result' = IF d.ok \/ IgnoreClose THEN result ELSE "error"
              /\ pc' = "done" /\ UNCHANGED <<room, next>>
Out == /\ pc = "done" /\ Emit /\ pc' = "out" /\ UNCHANGED <<room, pending, accepted, next, result>>
       /\ PrintT(ToJson([room |-> room, total |-> Total, result |-> result]))
Next == WriteEntry \/ CloseTar \/ CloseGzip \/ Out
Spec == Init /\ [][Next]_vars /\ WF_vars(Next)

Done == pc \in {"done", "out"}
SuccessMeansWritten == Done /\ result = "ok" => accepted = Total
\* ... and conversely a destination with room for everything gives success (no spurious failure)
RoomMeansSuccess == Done /\ room >= Total => result = "ok" /\ accepted = Total
NothingBeyondRoom == accepted <= room
Terminates == <>Done
=============================================================================
