SPECIFICATION Spec
CONSTANTS Sigma <- SigmaD
          MaxLen = 5
          Emit = FALSE
INVARIANTS Respace Decorate Typographic
CHECK_DEADLOCK FALSE
