SPECIFICATION Spec
CONSTANTS Entries <- MCEntries
          Lics <- MCLics
          PhaseEntries <- MCPhaseEntries
          Phases <- MCPhases
          MaxEntries = 3
          Emit = TRUE
CHECK_DEADLOCK FALSE
