------------------------------- MODULE V2Score -------------------------------
(* S2, scoring half -- v2/diff.go diffRange, textLength and v2/scoring.go scoreDiffs,
   diffLevenshteinWord, transcribed as built over word sequences.

   A diff is a sequence of ops [ty, w]: ty in {"=", "-", "+"} (Equal, Delete = only in the input,
   Insert = only in the corpus document), w a non-empty sequence of words.  The code works on the
   ops' texts (words joined by one blank); the string predicates it uses are modelled on words:
     HasSuffix(prevText, "version")          the last word ends in "version"  (also "subversion": as built)
     Contains(prevText, "warranty")          some word contains "warranty"
     "the standard version" etc.             the last three words
   which is exact for the explored vocabulary (no word contains a blank).
   scoreDiffs returns -1 / -2 / -3 for the three vetoes, else the word-level cost.            *)
EXTENDS Integers, Sequences, FiniteSets, TLC, Json, SequencesExt

CONSTANTS EqTexts, ChTexts,      \* texts of Equal ops / of Delete and Insert ops (sets of word sequences)
          Names,                 \* license names of the document being scored
          Knowns,                \* candidate known documents (word sequences) for diffRange
          MaxOps, Emit

Max2(a, b) == IF a > b THEN a ELSE b
RECURSIVE FlatWords(_)
FlatWords(ops) == IF ops = <<>> THEN <<>> ELSE ops[1].w \o FlatWords(Tail(ops))

(* ---- diffLevenshteinWord *)
RECURSIVE CostFrom(_, _, _, _)
CostFrom(ops, i, ins, del) ==
  IF i > Len(ops) THEN Max2(ins, del)
  ELSE CASE ops[i].ty = "+" -> CostFrom(ops, i + 1, ins + Len(ops[i].w), del)
         [] ops[i].ty = "-" -> CostFrom(ops, i + 1, ins, del + Len(ops[i].w))
         [] OTHER           -> Max2(ins, del) + CostFrom(ops, i + 1, 0, 0)
Cost(ops) == CostFrom(ops, 1, 0, 0)

(* ---- the string predicates, on words *)
EndsWithVersion(w) == w \in {"version", "subversion"}
IsVersionNumber(w) == w \in {"2.0", "3", "1.1."}                 \* digits and dots only
LastN(ws, n) == IF Len(ws) < n THEN <<>> ELSE SubSeq(ws, Len(ws) - n + 1, Len(ws))
HasSuffixVersion(prev) == prev # <<>> /\ EndsWithVersion(Last(prev))
StandardVersion(prev)  == LastN(prev, 3) \in {<<"the", "standard", "version">>, <<"the", "contributor", "version">>}
SuffixGnu(prev)        == prev # <<>> /\ Last(prev) = "gnu"
HasWord(ws, x)         == \E i \in 1..Len(ws) : ws[i] = x
CoveredByGnu(prev)     == \E i \in 0..(Len(prev) - 5) : SubSeq(prev, i + 1, i + 5) = <<"is", "covered", "by", "the", "gnu">>
Excused(prev)          == HasWord(prev, "warranty") \/ CoveredByGnu(prev)

(* phrases that may not be introduced, per license-name prefix (the part of the table the vocabulary can spell) *)
Induced(name) == CASE name = "LGPL-2.0"   -> {"library"}
                   [] name = "Apache-2.0" -> {"apache"}
                   [] name = "BSD-3-Clause-Attribution" -> {"bsd", "acknowledgment"}
                   [] OTHER -> {}

(* ---- scoreDiffs: first veto in script order, else the cost *)
RECURSIVE Veto(_, _, _, _, _)
Veto(name, ops, i, prev, prevDel) ==            \* prev: words of the last Equal text; prevDel: words of the last Delete since then
  IF i > Len(ops) THEN 0
  ELSE LET o == ops[i] IN
       CASE o.ty = "=" -> Veto(name, ops, i + 1, o.w, <<>>)
         [] o.ty = "-" -> IF Len(o.w) = 1 /\ o.w[1] \in {"lesser", "library"} /\ SuffixGnu(prev) /\ ~Excused(prev) THEN -3
                          ELSE Veto(name, ops, i + 1, prev, o.w)
         [] o.ty = "+" ->
              IF IsVersionNumber(o.w[1]) /\ HasSuffixVersion(prev) /\ ~StandardVersion(prev) THEN -1
              ELSE IF \E p \in Induced(name) : HasWord(o.w, p) /\ ~(i + 1 <= Len(ops) /\ HasWord(ops[i + 1].w, p)) THEN -2
              ELSE IF o.w = <<"lesser">> /\ SuffixGnu(prev) /\ prevDel # <<"library">> /\ ~Excused(prev) THEN -3
              ELSE Veto(name, ops, i + 1, prev, prevDel)
ScoreDiffs(name, ops) == LET v == Veto(name, ops, 1, <<>>, <<>>) IN IF v < 0 THEN v ELSE Cost(ops)

(* ---- diffRange: indices [start, end) of the ops that spell the known document *)
RECURSIVE RangeFrom(_, _, _, _, _, _)
RangeFrom(known, ops, e, seen, start, found) ==      \* e: 0-based index of the op looked at
  IF e >= Len(ops) THEN <<start, e>>
  ELSE IF seen # <<>> /\ seen = known THEN <<start, e>>
  ELSE IF ops[e + 1].ty \in {"=", "+"}
       THEN RangeFrom(known, ops, e + 1, seen \o ops[e + 1].w, IF found THEN start ELSE e, TRUE)
       ELSE RangeFrom(known, ops, e + 1, seen, start, found)
DiffRange(known, ops) == RangeFrom(known, ops, 0, <<>>, 0, FALSE)
TextLength(ops) == Len(FlatWords(ops))

-----------------------------------------------------------------------------
VARIABLES ops, phase
vars == <<ops, phase>>
OpSet == {[ty |-> "=", w |-> x] : x \in EqTexts} \cup {[ty |-> t, w |-> x] : t \in {"-", "+"}, x \in ChTexts}
Init == ops = <<>> /\ phase = "grow"
Grow == phase = "grow" /\ Len(ops) < MaxOps /\ \E o \in OpSet : ops' = Append(ops, o) /\ UNCHANGED phase
Out  == /\ phase = "grow" /\ Emit /\ phase' = "done" /\ UNCHANGED ops
        /\ PrintT(ToJson([ops |-> [i \in 1..Len(ops) |-> <<ops[i].ty, ops[i].w>>],
                          sc  |-> [n \in Names |-> ScoreDiffs(n, ops)],
                          cost |-> Cost(ops), tl |-> TextLength(ops),
                          rg  |-> [k \in 1..Len(Knowns) |-> DiffRange(Knowns[k], ops)]]))
Next == Grow \/ Out
Spec == Init /\ [][Next]_vars

(* Leg M: what the scoring rests on *)
KOf(o) == FlatWords(SelectSeq(o, LAMBDA x : x.ty \in {"=", "+"}))          \* the document side of a script
\* the range ends exactly where the document has been spelled, and the ops in front of `start` are deletions
RangeSpells == \A k \in 1..Len(Knowns) : LET r == DiffRange(Knowns[k], ops) IN
                  /\ r[1] <= r[2] /\ r[2] <= Len(ops)
                  /\ \A i \in 1..r[1] : ops[i].ty = "-"
                  /\ (KOf(ops) = Knowns[k]) => KOf(SubSeq(ops, r[1] + 1, r[2])) = Knowns[k]
\* a veto or a cost: never a negative cost, never a veto value other than the three
ScoreRange == \A n \in Names : ScoreDiffs(n, ops) \in {-1, -2, -3} \/ ScoreDiffs(n, ops) = Cost(ops)
CostZeroIffEqual == (Cost(ops) = 0) = (\A i \in 1..Len(ops) : ops[i].ty = "=")
=============================================================================
