SPECIFICATION Spec
CONSTANTS Sigma <- SigmaC
          MaxLen = 5
          Emit = TRUE
CHECK_DEADLOCK FALSE
