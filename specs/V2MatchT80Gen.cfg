SPECIFICATION Spec
CONSTANTS Q <- QDef
          NeedTab <- NeedDef
          MarginTab <- MarginDef
          TNum = 8
          TDen = 10
          Vocab = {1, 2, 3}
          MaxK = 3
          MaxT = 5
          Emit = TRUE
CHECK_DEADLOCK FALSE
