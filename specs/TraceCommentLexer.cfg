SPECIFICATION TSpec
CONSTANTS MaxTok = 0
          Groups = {1}
          AbEat = FALSE
          AbRbe = FALSE
          AbByStart = TRUE
POSTCONDITION TraceAccepted
CHECK_DEADLOCK FALSE
