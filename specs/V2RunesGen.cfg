SPECIFICATION Spec
CONSTANTS Ids <- BoundaryIds
          Emit = TRUE
CHECK_DEADLOCK FALSE
