SPECIFICATION Spec
CONSTANTS Sigma <- SigmaL
          MaxLen = 5
          Emit = TRUE
CHECK_DEADLOCK FALSE
