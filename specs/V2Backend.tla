------------------------------ MODULE V2Backend ------------------------------
(* S3 -- the result list of the identify_license backend (v2/tools/identify_license/backend/backend.go).

   ClassifyLicenses starts one goroutine per file (at most numTasks at a time); each goroutine matches its file and, for
   every match, appends an entry to the ONE list b.results:   b.mu.Lock(); b.results = append(b.results, e); b.mu.Unlock().
   An append is a read of the list (header and backing array) followed by a write; GetResults reads the list.
   Several runs may be in flight on one backend: goroutines sharing a backend, or a ClassifyLicensesWithContext run that timed
   out (its tasks go on) followed by the next run.  Tasks: pairs <<run, file>>, each with Entries matches to append.

   C09 rests on: the critical sections of any two tasks of the backend exclude each other, whichever runs they belong to
   (NoRace), and no entry is lost (AllAppended).  LockPerRun = TRUE is the tempting narrowing "the mutex guards the tasks of this
   run": it must violate both (V2BackendPerRun.cfg). *)
EXTENDS Integers, FiniteSets, TLC

CONSTANTS Runs, Files, Entries, LockPerRun

Tasks == Runs \X Files
NONE == <<"none", "none">>
LockOf(t) == IF LockPerRun THEN t[1] ELSE "backend"
Locks == IF LockPerRun THEN Runs ELSE {"backend"}

VARIABLES results,   \* the list, as the set of <<task, k>> entries it holds (entries are distinct)
          holder,    \* lock -> task holding it, or NONE
          pc, k, seen
vars == <<results, holder, pc, k, seen>>

Init == /\ results = {} /\ holder = [l \in Locks |-> NONE]
        /\ pc = [t \in Tasks |-> "match"] /\ k = [t \in Tasks |-> 0] /\ seen = [t \in Tasks |-> {}]

Lock(t)   == /\ pc[t] = "match" /\ k[t] < Entries /\ holder[LockOf(t)] = NONE
             /\ holder' = [holder EXCEPT ![LockOf(t)] = t] /\ pc' = [pc EXCEPT ![t] = "read"]
             /\ UNCHANGED <<results, k, seen>>
Read(t)   == /\ pc[t] = "read" /\ seen' = [seen EXCEPT ![t] = results] /\ pc' = [pc EXCEPT ![t] = "write"]
             /\ UNCHANGED <<results, holder, k>>
Write(t)  == /\ pc[t] = "write" /\ results' = seen[t] \cup {<<t, k[t] + 1>>}
             /\ k' = [k EXCEPT ![t] = @ + 1] /\ pc' = [pc EXCEPT ![t] = "unlock"]
             /\ UNCHANGED <<holder, seen>>
Unlock(t) == /\ pc[t] = "unlock" /\ holder' = [holder EXCEPT ![LockOf(t)] = NONE]
             /\ pc' = [pc EXCEPT ![t] = "match"] /\ UNCHANGED <<results, k, seen>>
Finish(t) == /\ pc[t] = "match" /\ k[t] = Entries /\ pc' = [pc EXCEPT ![t] = "done"] /\ UNCHANGED <<results, holder, k, seen>>
Next == \E t \in Tasks : Lock(t) \/ Read(t) \/ Write(t) \/ Unlock(t) \/ Finish(t)
Spec == Init /\ [][Next]_vars

InCS(t) == pc[t] \in {"read", "write"}
NoRace == \A a, b \in Tasks : a # b => ~(InCS(a) /\ InCS(b))
AllAppended == (\A t \in Tasks : pc[t] = "done") => results = {<<t, i>> : t \in Tasks, i \in 1..Entries}
NeverShrinks == [][results \subseteq results']_vars
=============================================================================
