SPECIFICATION Spec
CONSTANTS Runs = {"r1", "r2"}
          Files = {"f1", "f2"}
          Entries = 2
          LockPerRun = TRUE
INVARIANTS NoRace
CHECK_DEADLOCK FALSE
