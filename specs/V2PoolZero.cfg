SPECIFICATION Spec
CONSTANTS Files <- MCFiles
          NMatches <- MCMatches
          Tasks = 0
          DoneFirst = FALSE
          Exclusive = TRUE

PROPERTY Terminates
CHECK_DEADLOCK FALSE
