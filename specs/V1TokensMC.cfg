SPECIFICATION Spec
CONSTANTS Sigma = {"sp", "nb", "p", "P3", "a", "E2", "C4", "X"}
          MaxLen = 5
          TextFromRune = FALSE
          Emit = FALSE
INVARIANTS TextAtOffset Ordered InString CoversNonSpace
CHECK_DEADLOCK FALSE
