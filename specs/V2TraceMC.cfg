SPECIFICATION Spec
CONSTANTS Entries <- MCEntries
          Lics <- MCLics
          PhaseEntries <- MCPhaseEntries
          Phases <- MCPhases
          MaxEntries = 3
          Emit = FALSE
INVARIANTS StarMatchesAll EmptyMatchesNone Monotone
CHECK_DEADLOCK FALSE
