------------------------------ MODULE V2TokGen ------------------------------
(* Exhaustive exploration of V2Tokenizer over all token strings up to MaxLen:
   leg G (every input printed with the spec's tokens, lines, notices, Normalize
   rendering) and leg M (the relational invariants of C05 / C11 evaluated on every input). *)
EXTENDS V2Tokenizer

CONSTANTS Sigma,     \* set of input tokens, each a sequence of runes (a chunk is a multi-rune token)
          MaxLen,
          Emit       \* TRUE: print one vector per input

VARIABLES toksIn, phase
vars == <<toksIn, phase>>
In == FlattenSeq(toksIn)

Init == toksIn = <<>> /\ phase = "grow"
Grow == /\ phase = "grow" /\ Len(toksIn) < MaxLen
        /\ \E t \in Sigma : toksIn' = Append(toksIn, t)
        /\ UNCHANGED phase
Out  == /\ phase = "grow" /\ Emit
        /\ phase' = "done" /\ UNCHANGED toksIn
        /\ LET a == Tok(In, TRUE)
               b == Tok(In, FALSE)
           IN PrintT(ToJson([i |-> In, w |-> Words(a.toks), l |-> Lines(a.toks), n |-> a.notes,
                             fw |-> Words(b.toks), fl |-> Lines(b.toks), r |-> Render(b.toks)]))
Next == Grow \/ Out
Spec == Init /\ [][Next]_vars

-----------------------------------------------------------------------------
(* raw line structure of the input, computed once per state *)
DashLike == {"-", "FIGDASH", "ENDASH", "EMDASH", "HYPHEN", "NBHYPHEN", "HBAR", "MINUS"}
RECURSIVE SplitFrom(_, _, _)
SplitFrom(in, i, cur) == IF i > Len(in) THEN <<cur>>
                         ELSE IF in[i] = NL THEN <<cur>> \o SplitFrom(in, i + 1, <<>>)
                         ELSE SplitFrom(in, i + 1, Append(cur, in[i]))
RawLines(in) == SplitFrom(in, 1, <<>>)
RECURSIVE LineOfFrom(_, _, _)
LineOfFrom(in, i, k) == IF i > Len(in) THEN <<>>
                        ELSE <<k>> \o LineOfFrom(in, i + 1, IF in[i] = NL THEN k + 1 ELSE k)
LineOfSeq(in) == LineOfFrom(in, 1, 1)                     \* raw line of every position (a newline belongs to the line it ends)
(* exempt zone of C05: a hyphen-ended line through the next non-blank line.
   ex[k] = hyphenEnded(k) \/ pending(k);  pending(k+1) = hyphenEnded(k) \/ (pending(k) /\ blank(k)) *)
RECURSIVE ExFrom(_, _, _)
ExFrom(ls, k, pending) ==
  IF k > Len(ls) THEN <<>>
  ELSE LET h == ls[k] # <<>> /\ Last(ls[k]) \in DashLike
           b == \A m \in 1..Len(ls[k]) : IsSpace(ls[k][m])
       IN <<h \/ pending>> \o ExFrom(ls, k + 1, h \/ (pending /\ b))
ExemptSeq(in) == ExFrom(RawLines(in), 1, FALSE)

TokT(x)    == Tok(x, TRUE)
SameAs(x, ref) == LET a == TokT(x) IN a.toks = ref.toks /\ a.notes = ref.notes
InsBefore(in, i, cs) == SubSeq(in, 1, i - 1) \o cs \o SubSeq(in, i, Len(in))    \* cs before position i
LineStart(in, i) == i = 1 \/ in[i - 1] = NL

Flip(c) == IF c \in LowSet THEN UpperFn[c] ELSE IF c \in UpSet THEN LowerFn[c] ELSE c

(* C05, one site at a time; compositions follow by induction on sites *)
Recase   == LET ref == TokT(In)  lo == LineOfSeq(In)  ex == ExemptSeq(In) IN
            \A i \in 1..Len(In) : (Flip(In[i]) # In[i] /\ ~ex[lo[i]]) => SameAs([In EXCEPT ![i] = Flip(@)], ref)
Respace  == LET ref == TokT(In)  lo == LineOfSeq(In)  ex == ExemptSeq(In) IN
            \A i \in 1..Len(In) : ~ex[lo[i]] =>
               /\ In[i] = " "  => SameAs([In EXCEPT ![i] = "\t"], ref) /\ SameAs(InsBefore(In, i, <<" ">>), ref)
               /\ In[i] = "\t" => SameAs([In EXCEPT ![i] = " "], ref)
               /\ In[i] = NL   => SameAs(InsBefore(In, i, <<" ">>), ref) /\ SameAs(InsBefore(In, i, <<"\r">>), ref)   \* trailing blank, CRLF
               /\ LineStart(In, i) => SameAs(InsBefore(In, i, <<" ", " ">>), ref)                                      \* indentation
Decos == {<<"#", " ">>, <<"/", "/", " ">>, <<"*", " ">>, <<";", " ">>, <<"-", "-", " ">>, <<">", " ">>, <<"|", " ">>, <<"%", " ">>}
Decorate == LET ref == TokT(In)  lo == LineOfSeq(In)  ex == ExemptSeq(In) IN
            \A i \in 1..Len(In) : (LineStart(In, i) /\ ~ex[lo[i]]) => \A d \in Decos : SameAs(InsBefore(In, i, d), ref)
Typographic == LET ref == TokT(In)  lo == LineOfSeq(In)  ex == ExemptSeq(In) IN
            \A i \in 1..Len(In) : ~ex[lo[i]] =>
               /\ In[i] = "-" => \A d \in {"ENDASH", "NBHYPHEN", "HBAR"} : SameAs([In EXCEPT ![i] = d], ref)     \* the dash block U+2010..U+2015
               /\ In[i] = "'" => SameAs([In EXCEPT ![i] = "RQUOTE"], ref)
(* inserting an empty line before a line shifts the later lines by one and changes nothing else *)
BagOfSeq(sq) == [x \in {sq[j] : j \in 1..Len(sq)} |-> Cardinality({j \in 1..Len(sq) : sq[j] = x})]
ShiftFrom(ts, k) == [j \in 1..Len(ts) |-> IF ts[j].l >= k THEN [ts[j] EXCEPT !.l = @ + 1] ELSE ts[j]]
BlankLine == LET y == TokT(In)  lo == LineOfSeq(In)  ex == ExemptSeq(In) IN
             \A i \in 1..Len(In) : (LineStart(In, i) /\ ~ex[lo[i]] /\ (lo[i] = 1 \/ ~ex[lo[i] - 1])) =>
               LET x == TokT(InsBefore(In, i, <<NL>>))
                   k == lo[i]
               IN x.toks = ShiftFrom(y.toks, k)
                  /\ x.notes = [j \in 1..Len(y.notes) |-> IF y.notes[j] >= k THEN y.notes[j] + 1 ELSE y.notes[j]]

(* line numbers are raw line numbers: whatever precedes it (hyphenated words, notices, blank lines), a word on a
   fresh line is credited to that line -- unless the text before it ends in a hyphen, which joins it to that word (hyphens pile up: `a--\n\nb` reads `ab`) *)
NLCount(in) == Cardinality({i \in 1..Len(in) : in[i] = NL})
TailLine == ~Fold(S0, In \o <<NL>>, 1, TRUE).dE =>                     \* the line break is not swallowed by a hyphen
               LET ts == TokT(In \o <<NL, "b">>).toks IN
               ts # <<>> /\ ts[Len(ts)].w = <<"b">> /\ ts[Len(ts)].l = NLCount(In) + 2

(* C06 on the tokenizer level.  WordsOnly compares the word sequences (C06 does not speak about lines). *)
WordsOf(x) == Words(TokT(x).toks)
NoticeLine == <<"c","o","p","y","r","i","g","h","t"," ","2","0","2","0"," ","x", NL>>
DateLine   == <<"2","0","2","0","-","0","1","-","0","2", NL>>
NoticeIns == LET y == TokT(In)  lo == LineOfSeq(In)  ex == ExemptSeq(In) IN
             \A i \in 1..Len(In) : (LineStart(In, i) /\ ~ex[lo[i]] /\ (lo[i] = 1 \/ ~ex[lo[i] - 1])) =>
               \A nl \in {NoticeLine, DateLine} :
                 LET x == TokT(InsBefore(In, i, nl))
                     k == lo[i]
                     shifted == [j \in 1..Len(y.notes) |-> IF y.notes[j] >= k THEN y.notes[j] + 1 ELSE y.notes[j]]
                 IN /\ x.toks = ShiftFrom(y.toks, k)
                    /\ BagOfSeq(x.notes) = BagOfSeq(Append(shifted, k))             \* reported on exactly its line
Markers == {<<"1", ".", " ">>, <<"i", "v", ".", " ">>, <<"3", ".", "1", ".", " ">>}
LetterParen == <<"a", ")", " ">>
(* a marker is prefixed to a line whose first word is not itself header-like (else the old marker is displaced) *)
FirstWordPlain(in, i) ==
  LET rest == SubSeq(in, i, Len(in))
      t0   == Tok(rest, TRUE)
      raw  == Fold(S0, rest, 1, TRUE)
  IN \E j \in i..Len(in) : /\ IsStart(in[j]) /\ \A m \in i..(j - 1) : in[m] # NL /\ ~IsStart(in[m])
                           /\ LET k == CHOOSE k \in j..Len(in) : (k = Len(in) \/ in[k + 1] = NL \/ IsSpace(in[k + 1])) /\
                                                                  \A m \in j..k : in[m] # NL /\ ~IsSpace(in[m])
                              IN ~Header(LowerSeq(SubSeq(in, j, k)))
MarkerSet(ms) == LET ref == TokT(In)  lo == LineOfSeq(In)  ex == ExemptSeq(In) IN
           \A i \in 1..Len(In) : (LineStart(In, i) /\ ~ex[lo[i]] /\ FirstWordPlain(In, i)
                                  /\ \A j \in 1..Len(ref.notes) : ref.notes[j] # lo[i]) =>      \* not a notice / date line
              \A m \in ms : WordsOf(InsBefore(In, i, m)) = Words(ref.toks)
Marker      == MarkerSet(Markers)
MarkerParen == MarkerSet({LetterParen})            \* expected to FAIL as built: header() refuses ")" after a letter marker
(* splitting a word across two lines with a trailing hyphen *)
HyphenSplit == LET ref == TokT(In)  lo == LineOfSeq(In)  ex == ExemptSeq(In) IN
           \A i \in 2..Len(In) : (IsLetter(In[i - 1]) /\ IsLetter(In[i]) /\ ~ex[lo[i]]) =>
              WordsOf(InsBefore(In, i, <<"-", NL>>)) = Words(ref.toks)
(* C11 on the tokenizer level.  The two open findings of C11 are excluded from the domain of Fixpoint:
     a token that ends in "-" and is the last of its line (Normalize writes it at the end of a line, where it re-joins),
     a line whose cleaned words read as a notice although the raw line does not (C11-cleaned-line-is-notice). *)
TokLinesOf(ts) == {ts[j].l : j \in 1..Len(ts)}
HyphenTokenAtLineEnd(x) == LET ts == TokT(x).toks IN
   \E j \in 1..Len(ts) : ts[j].w # <<>> /\ Last(ts[j].w) = "-" /\ (j = Len(ts) \/ ts[j + 1].l > ts[j].l)
CleanedLineIsNotice(x) == LET ts == TokT(x).toks IN
   \E k \in TokLinesOf(ts) : IsNotice(Joined(SelectSeq([j \in 1..Len(ts) |-> IF ts[j].l = k THEN ts[j].w ELSE <<>>], LAMBDA w : w # <<>>)))
FixpointDom == (~HyphenTokenAtLineEnd(In) /\ ~CleanedLineIsNotice(In)) => TokT(Normalize(In)).toks = TokT(In).toks
Fixpoint == TokT(Normalize(In)).toks = TokT(In).toks     \* Match(Normalize(in)) sees the words Match(in) sees, on the same lines
=============================================================================
