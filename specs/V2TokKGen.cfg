SPECIFICATION Spec
CONSTANTS Sigma <- SigmaK
          MaxLen = 5
          Emit = TRUE
CHECK_DEADLOCK FALSE
