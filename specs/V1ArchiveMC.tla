----------------------------- MODULE V1ArchiveMC -----------------------------
EXTENDS V1Archive
MCCands == {[name |-> "Alpha", kind |-> "lic"], [name |-> "Beta", kind |-> "lic"], [name |-> "Alpha.header", kind |-> "hdr"],
            [name |-> "OnlyNotice", kind |-> "empty"], [name |-> "README.md", kind |-> "other"], [name |-> "notes.text", kind |-> "other"]}
=============================================================================
