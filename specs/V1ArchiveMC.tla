----------------------------- MODULE V1ArchiveMC -----------------------------
EXTENDS V1Archive
(* Alpha-Twin: the text of Alpha in other case and wrapping -- same normalised text, its own key.
   COPYING.txt.dist, Murmur.hash-1.0: extensions inside the name. *)
MCCands == {[name |-> "Alpha", kind |-> "lic", dir |-> ""], [name |-> "Beta", kind |-> "lic", dir |-> ""], [name |-> "Alpha.header", kind |-> "hdr", dir |-> ""],
            [name |-> "OnlyNotice", kind |-> "empty", dir |-> ""],
            [name |-> "Alpha-Twin", kind |-> "twin", dir |-> ""],
            [name |-> "COPYING.txt.dist", kind |-> "lic", dir |-> ""], [name |-> "Murmur.hash-1.0", kind |-> "lic", dir |-> ""],
            [name |-> "Gamma", kind |-> "lic", dir |-> "third_party/licenses/"],     \* given with a path: archived under its file name
            [name |-> "README.md", kind |-> "other", dir |-> ""], [name |-> "notes.text", kind |-> "other", dir |-> ""]}
=============================================================================
