----------------------------- MODULE V1ArchiveMC -----------------------------
EXTENDS V1Archive
(* Alpha-Twin: the text of Alpha in other case and wrapping -- same normalised text, its own key.
   COPYING.txt.dist, Murmur.hash-1.0: extensions inside the name. *)
MCCands == {[name |-> "Alpha", kind |-> "lic"], [name |-> "Beta", kind |-> "lic"], [name |-> "Alpha.header", kind |-> "hdr"],
            [name |-> "OnlyNotice", kind |-> "empty"],
            [name |-> "Alpha-Twin", kind |-> "twin"],
            [name |-> "COPYING.txt.dist", kind |-> "lic"], [name |-> "Murmur.hash-1.0", kind |-> "lic"],
            [name |-> "README.md", kind |-> "other"], [name |-> "notes.text", kind |-> "other"]}
=============================================================================
