---------------------------- MODULE Containers ----------------------------
(* S9a -- StringSet (internal/sets) and IntSet (stringclassifier/internal/sets)
   as finite sets.  One action per public operation.  Every result of a
   set-valued operation is bound to the slot "R" as a *fresh* object: the model
   never shares storage between slots, so an implementation that aliases a
   result with an operand diverges from the model at the next Insert/Delete.
   The abstract state is slots (slot -> set, or NIL for a nil pointer);
   ret is the return value of the last operation; hist is a history variable
   used only to print test vectors (leg G) -- it is hidden by VIEW in leg M. *)
EXTENDS Integers, Sequences, FiniteSets, TLC, Json, SequencesExt

CONSTANTS U,          \* universe of elements (integers; the harness maps them to strings for StringSet)
          MaxDepth,   \* length of generated behaviours (0 = unbounded, no history)
          AnyInit,    \* TRUE: every assignment of subsets of U to the slots is initial
          Recv,       \* slots that may be receivers (a subset of Slots; {"A"} gives deep single-object behaviours)
          WithBin     \* FALSE: no set-valued operations (deep single-object behaviours)

Slots == {"A", "B", "R"}
NIL   == "nil"
NONE  == "none"

VARIABLES slots, ret, hist
vars == <<slots, ret, hist>>
View == <<slots, ret>>

Sorted(S) == SetToSortSeq(S, <)
ElemArgs  == {E \in SUBSET U : Cardinality(E) <= 2}
Proj(sl)  == [s \in Slots |-> Sorted(sl[s])]

TypeOK == slots \in [Slots -> SUBSET U]

Init == /\ slots \in (IF AnyInit THEN {f \in [Slots -> SUBSET U] : \A s \in Slots \ Recv : f[s] = {}}
                                   ELSE {[s \in Slots |-> {}]})
        /\ ret = NONE
        /\ hist = <<>>

Bounded == MaxDepth = 0 \/ Len(hist) < MaxDepth + 1

(* the initial projection must travel with the history: keep it in the first record *)
RecordB(op, recv, arg, elems, r, sl) ==
  LET P(x) == <<Sorted(x["A"]), Sorted(x["B"]), Sorted(x["R"])>>
      rec  == <<op, recv, arg, Sorted(elems), r, P(sl)>>          \* compact: one tuple per step
      h0   == IF hist = <<>> THEN <<P(slots)>> ELSE hist              \* first entry: the initial state
  IN /\ hist' = IF MaxDepth = 0 THEN hist ELSE Append(h0, rec)
     /\ (MaxDepth > 0 /\ Len(hist') = MaxDepth + 1) => PrintT(ToJson(hist'))

--------------------------------------------------------------------------
(* mutators *)
Insert(s, E) == /\ Bounded
                /\ slots' = [slots EXCEPT ![s] = @ \cup E]
                /\ ret' = NONE
                /\ RecordB("Insert", s, NIL, E, NONE, slots')
Delete(s, E) == /\ Bounded
                /\ slots' = [slots EXCEPT ![s] = @ \ E]
                /\ ret' = NONE
                /\ RecordB("Delete", s, NIL, E, NONE, slots')

(* set-valued operations: fresh result in slot R *)
BinValN(op, x, ynil, y) ==       \* ynil: the argument is a nil pointer (documented special cases)
  CASE op = "Union"      -> IF ynil THEN x ELSE x \cup y
    [] op = "Intersect"  -> IF ynil THEN {} ELSE x \cap y
    [] op = "Difference" -> IF ynil THEN x ELSE x \ y
    [] op = "Unique"     -> IF ynil THEN x ELSE (x \ y) \cup (y \ x)
BinVal(op, x, y) == BinValN(op, x, FALSE, y)
BinOps == {"Union", "Intersect", "Difference", "Unique"}

Bin(op, s, t) == /\ Bounded
                 /\ slots' = [slots EXCEPT !["R"] = BinValN(op, slots[s], t = NIL, IF t = NIL THEN {} ELSE slots[t])]
                 /\ ret' = NONE
                 /\ RecordB(op, s, t, {}, NONE, slots')
Copy(s) == /\ Bounded     \* s = NIL: Copy of a nil receiver is documented to give an empty set
           /\ slots' = [slots EXCEPT !["R"] = IF s = NIL THEN {} ELSE slots[s]]
           /\ ret' = NONE
           /\ RecordB("Copy", s, NIL, {}, NONE, slots')

(* observers: may occur anywhere (an implementation may hide state behind them, e.g. a cache) *)
Obs(op, s, t, E, r) == /\ Bounded
                       /\ UNCHANGED slots
                       /\ ret' = r
                       /\ RecordB(op, s, t, E, r, slots)
Disjoint(s, t) == Obs("Disjoint", s, t, {}, IF t = NIL THEN TRUE ELSE slots[s] \cap slots[t] = {})
Equal(s, t)    == Obs("Equal", s, t, {},
                      IF s = NIL \/ t = NIL THEN (s = NIL /\ t = NIL) ELSE slots[s] = slots[t])
ContainsOp(s, e) == Obs("Contains", s, NIL, {e}, e \in slots[s])
LenOp(s)       == Obs("Len", s, NIL, {}, Cardinality(slots[s]))
Empty(s)       == Obs("Empty", s, NIL, {}, slots[s] = {})
Elements(s)    == Obs("Elements", s, NIL, {}, Sorted(slots[s]))   \* compared as a set
SortedOp(s)    == Obs("Sorted", s, NIL, {}, Sorted(slots[s]))     \* compared as a sequence

Next == \/ \E s \in Recv, E \in ElemArgs : Insert(s, E) \/ Delete(s, E)
        \/ WithBin /\ \E op \in BinOps, s \in Recv, t \in Slots \cup {NIL} : Bin(op, s, t)
        \/ WithBin /\ \E s \in Recv \cup {NIL} : Copy(s)
        \/ WithBin /\ \E s \in Recv, t \in Slots \cup {NIL} : Disjoint(s, t)
        \/ WithBin /\ \E s \in Recv \cup {NIL}, t \in Slots \cup {NIL} : Equal(s, t)
        \/ \E s \in Recv, e \in U : ContainsOp(s, e)
        \/ \E s \in Recv : LenOp(s) \/ Empty(s) \/ Elements(s) \/ SortedOp(s)

Spec == Init /\ [][Next]_vars

--------------------------------------------------------------------------
(* Properties of the model (leg M).  They are what "behaves as a finite set and
   never modifies or aliases its operands" means on the abstract state. *)

\* Operations other than Insert/Delete on s change no slot but R; Insert/Delete change only the receiver.
Unaliased == [][\A s \in Slots :
                   slots'[s] # slots[s] =>
                      \/ s = "R"
                      \/ \E E \in ElemArgs : slots'[s] = slots[s] \cup E \/ slots'[s] = slots[s] \ E]_vars
OnlyOneSlotChanges == [][Cardinality({s \in Slots : slots'[s] # slots[s]}) <= 1]_vars

\* algebraic laws evaluated in every reachable state (they tie the operators to set theory)
Laws == \A s \in Slots, t \in Slots :
          LET x == slots[s]  y == slots[t] IN
          /\ BinVal("Unique", x, y) = BinVal("Difference", BinVal("Union", x, y), BinVal("Intersect", x, y))
          /\ BinVal("Union", x, y) = BinVal("Union", y, x)
          /\ (BinVal("Intersect", x, y) = {}) = (x \cap y = {})
          /\ Cardinality(BinVal("Union", x, y)) + Cardinality(BinVal("Intersect", x, y)) = Cardinality(x) + Cardinality(y)
=============================================================================
