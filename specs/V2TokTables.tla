----------------------------- MODULE V2TokTables -----------------------------
(* S1, the tables of the tokenizer as data: which words are list markers (header()), which spellings are mapped to
   which (interchangeableWords through cleanupToken), which runes are rewritten (punctuationMappings).  The spec's
   tables (TokConsts, a pinned snapshot; MapLower) are printed entry by entry -- together with every one- and
   two-letter word, so that an entry MISSING from the code's table shows as well as a wrong one -- and replayed into
   the real functions. *)
EXTENDS V2Tokenizer

Letters == {LowSeq[i] : i \in 1..Len(LowSeq)}
TabWords == {<<a>> : a \in Letters} \cup {<<a, b>> : a \in Letters, b \in Letters} \cup ListMarkers
                \cup {<<"1">>, <<"1", "2">>, <<"3", ".", "1">>, <<"1", "a">>, <<"a", "1">>}
TabSuffixes == {".", ":", ")"}
Punct == {"-", "FIGDASH", "ENDASH", "EMDASH", "HYPHEN", "NBHYPHEN", "HBAR", "MINUS", "COPY", "SECT", "CURR", "MIDDOT", "*", "RQUOTE", "'", "EACUTE"}

VARIABLE done
Init == done = FALSE
Out  == /\ ~done /\ done' = TRUE
        /\ LET ws == SetToSeq(TabWords)  ss == SetToSeq(TabSuffixes)  ps == SetToSeq(Punct) IN
           PrintT(ToJson([hdr |-> [i \in 1..Len(ws) |-> <<ws[i], [j \in 1..Len(ss) |-> <<ss[j], Header(Append(ws[i], ss[j]))>>]>>],
                          inter |-> [i \in 1..Len(InterFrom) |-> <<InterFrom[i], Clean(1, InterFrom[i], TRUE), Clean(1, InterFrom[i], FALSE), Clean(1, InterTo[i], TRUE)>>],
                          punct |-> [i \in 1..Len(ps) |-> <<ps[i], MapLower(ps[i])>>]]))
Spec == Init /\ [][Out]_done

(* sanity of the snapshot: a marker is a marker with "." and ":" (and, for the letter markers, not with ")": finding C06-letter-paren-marker) *)
MarkersAreHeaders == \A m \in ListMarkers : Header(Append(m, ".")) /\ Header(Append(m, ":"))
InterMapsOnce == \A i \in 1..Len(InterFrom) : Inter(InterFrom[i]) = InterTo[i] /\ (InterTo[i] \notin InterSet \/ InterTo[i] = InterFrom[i])
=============================================================================
