----------------------------- MODULE V2TokTables -----------------------------
(* S1, the tables of the tokenizer as data: which words are list markers (header()), which spellings are mapped to
   which (interchangeableWords through cleanupToken), which runes are rewritten (punctuationMappings).  The spec's
   tables (TokConsts, a pinned snapshot; MapLower) are printed entry by entry -- together with every one- and
   two-letter word, so that an entry MISSING from the code's table shows as well as a wrong one -- and replayed into
   the real functions. *)
EXTENDS V2Tokenizer

Letters == {LowSeq[i] : i \in 1..Len(LowSeq)}
TabWords == {<<a>> : a \in Letters} \cup {<<a, b>> : a \in Letters, b \in Letters} \cup ListMarkers
                \cup {<<"1">>, <<"1", "2">>, <<"3", ".", "1">>, <<"1", "a">>, <<"a", "1">>}
                \cup {<<"9", "9">>, <<"1", "0", "0">>, <<"2", "5", "0">>, <<"9", "9", "9", "9">>, <<"2", ".", "1", "0", "5">>,     \* numbered lists run past 99
                      <<"1", "2", ".", "1", "0">>, <<"1", "0", "0", ".", "2">>, <<"1", ".", ".", "2">>, <<".">>, <<"1", "0", "0", "a">>}
TabSuffixes == {".", ":", ")"}
Punct == {"-", "FIGDASH", "ENDASH", "EMDASH", "HYPHEN", "NBHYPHEN", "HBAR", "MINUS", "COPY", "SECT", "CURR", "MIDDOT", "*", "RQUOTE", "'", "EACUTE"}

(* dates: the third ignorable text, ^\d{4}-(\d{2}|[a-z]{3})-\d{2}$ with (?i): every two-digit month and day (the expression does not
   validate them: 00, 13, 32..39 are dates as well), three-letter months in both cases, and near misses *)
Dig == {"0", "1", "2", "3", "4", "5", "6", "7", "8", "9"}
TwoDig(hi) == {<<a, b>> : a \in hi, b \in Dig}
TabMonths == TwoDig({"0", "1"}) \cup {<<"j", "a", "n">>, <<"M", "a", "r">>, <<"D", "E", "C">>, <<"1">>, <<"j", "a">>, <<"j", "a", "n", "e">>, <<"j", "1", "n">>}
TabDays   == TwoDig({"0", "1", "2", "3"}) \cup {<<"1">>, <<"1", "0", "0">>, <<"1", "a">>}
DateLine(m, d) == <<"2", "0", "1", "9", "-">> \o m \o <<"-">> \o d
(* interchangeable spellings with punctuation attached, as they stand in running text: the cleaned word is what is looked up *)
Wraps == {<< <<"(">>, <<")", ",">> >>, << <<>>, <<".">> >>, << <<"'">>, <<"'", ",">> >>, << <<"(", "'">>, <<"'", ")", ";">> >>, << <<>>, <<"-", "1", "2", "3">> >>,
          << <<"RQUOTE">>, <<"RQUOTE", ",">> >>, << <<>>, <<"RQUOTE">> >>}      \* typographic quotes are three bytes each and not ASCII

VARIABLE done
Init == done = FALSE
Out  == /\ ~done /\ done' = TRUE
        /\ LET ws == SetToSeq(TabWords)  ss == SetToSeq(TabSuffixes)  ps == SetToSeq(Punct) IN
           PrintT(ToJson([hdr |-> [i \in 1..Len(ws) |-> <<ws[i], [j \in 1..Len(ss) |-> <<ss[j], Header(Append(ws[i], ss[j]))>>]>>],
                          inter |-> [i \in 1..Len(InterFrom) |-> <<InterFrom[i], Clean(1, InterFrom[i], TRUE), Clean(1, InterFrom[i], FALSE), Clean(1, InterTo[i], TRUE)>>],
                          punct |-> [i \in 1..Len(ps) |-> <<ps[i], MapLower(ps[i])>>],
                          dates |-> LET ds == SetToSeq({DateLine(m, d) : m \in TabMonths, d \in TabDays}) IN [i \in 1..Len(ds) |-> <<ds[i], IsNotice(ds[i])>>],
                          wrapped |-> LET wr == SetToSeq(Wraps) IN
                                      [i \in 1..Len(InterFrom) |-> [j \in 1..Len(wr) |->
                                         LET w == wr[j][1] \o InterFrom[i] \o wr[j][2] IN <<w, Clean(1, w, TRUE)>>]]]))
Spec == Init /\ [][Out]_done

(* sanity of the snapshot: a marker is a marker with "." and ":" (and, for the letter markers, not with ")": finding C06-letter-paren-marker) *)
MarkersAreHeaders == \A m \in ListMarkers : Header(Append(m, ".")) /\ Header(Append(m, ":"))
DatesAreNotices == \A m \in TwoDig({"0", "1"}), d \in TwoDig({"0", "1", "2", "3"}) : IsNotice(DateLine(m, d))
WrappedMapsLikeBare == \A i \in 1..Len(InterFrom), w \in Wraps : Clean(1, w[1] \o InterFrom[i] \o w[2], TRUE) = InterTo[i]
InterMapsOnce == \A i \in 1..Len(InterFrom) : Inter(InterFrom[i]) = InterTo[i] /\ (InterTo[i] \notin InterSet \/ InterTo[i] = InterFrom[i])
=============================================================================
