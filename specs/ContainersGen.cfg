SPECIFICATION Spec
CONSTANTS U = {1, 2}
          MaxDepth = 2
          AnyInit = TRUE
          Recv = {"A", "B", "R"}
          WithBin = TRUE
CHECK_DEADLOCK FALSE
