----------------------------- MODULE V1Classifier -----------------------------
(* S5, concurrent part -- the lazy search-set protocol of stringclassifier.multipleMatch.

   Every MultipleMatch call starts one goroutine per known value:
       as built (CheckOutsideLock = TRUE)            repaired (FALSE)
       chk: if known.set == nil   -- no lock         lck: muValues.Lock()
       bld:    k := searchset.New(...)               chk: if known.set == nil
       lck:    muValues.Lock()                       bld/asg:  known.set = searchset.New(...)
       asg:    values[key].set = k                   unl: muValues.Unlock()
       unl:    muValues.Unlock()                     fnd: findMatches reads known.set
       fnd: findMatches reads known.set
   AddValue(key) takes the write lock and adds a value with a nil set.
   A data race is a reachable state in which one goroutine's next step is an access to set[k] that
   needs no lock and another goroutine's next step is a write of set[k].                              *)
EXTENDS Integers, FiniteSets, TLC

CONSTANTS Callers, Values, CheckOutsideLock

Workers == Callers \X Values
NOBODY  == <<"none", "none">>
VARIABLES set,      \* value -> BOOLEAN (search set present)
          wlock,    \* holder of the write lock or NOBODY
          pc,       \* worker -> label
          seen,     \* worker -> what the worker's check saw
          writes    \* value -> number of assignments (ghost)
vars == <<set, wlock, pc, seen, writes>>

Init == /\ set \in [Values -> BOOLEAN]            \* lazily built (FALSE) or precomputed (TRUE)
        /\ wlock = NOBODY
        /\ pc = [w \in Workers |-> IF CheckOutsideLock THEN "chk" ELSE "lck"]
        /\ seen = [w \in Workers |-> FALSE]
        /\ writes = [k \in Values |-> 0]

K(w) == w[2]
Goto(w, l) == pc' = [pc EXCEPT ![w] = l]

(* as built *)
ChkU(w) == /\ CheckOutsideLock /\ pc[w] = "chk"
           /\ seen' = [seen EXCEPT ![w] = set[K(w)]]
           /\ Goto(w, IF set[K(w)] THEN "fnd" ELSE "lck")
           /\ UNCHANGED <<set, wlock, writes>>
(* both *)
Lck(w) == /\ pc[w] = "lck" /\ wlock = NOBODY
          /\ wlock' = w
          /\ Goto(w, IF CheckOutsideLock THEN "asg" ELSE "chk")
          /\ UNCHANGED <<set, seen, writes>>
(* repaired *)
ChkL(w) == /\ ~CheckOutsideLock /\ pc[w] = "chk" /\ wlock = w
           /\ seen' = [seen EXCEPT ![w] = set[K(w)]]
           /\ Goto(w, IF set[K(w)] THEN "unl" ELSE "asg")
           /\ UNCHANGED <<set, wlock, writes>>
Asg(w) == /\ pc[w] = "asg" /\ wlock = w
          /\ set' = [set EXCEPT ![K(w)] = TRUE]
          /\ writes' = [writes EXCEPT ![K(w)] = @ + 1]
          /\ Goto(w, "unl")
          /\ UNCHANGED <<wlock, seen>>
Unl(w) == /\ pc[w] = "unl" /\ wlock = w
          /\ wlock' = NOBODY /\ Goto(w, "fnd")
          /\ UNCHANGED <<set, seen, writes>>
Fnd(w) == /\ pc[w] = "fnd"
          /\ Goto(w, "done")
          /\ UNCHANGED <<set, wlock, seen, writes>>
Next == \E w \in Workers : ChkU(w) \/ Lck(w) \/ ChkL(w) \/ Asg(w) \/ Unl(w) \/ Fnd(w)
Spec == Init /\ [][Next]_vars /\ WF_vars(Next)

(* the next access of a worker to set[k]: <<kind, needs the lock>> *)
UnlockedRead(w)  == pc[w] = "fnd" \/ (CheckOutsideLock /\ pc[w] = "chk")
PendingWrite(w)  == pc[w] = "asg"
NoRace     == \A a, b \in Workers : (a # b /\ K(a) = K(b)) => ~(UnlockedRead(a) /\ PendingWrite(b))
SetWhenUsed == \A w \in Workers : pc[w] \in {"fnd", "done"} => set[K(w)]           \* findMatches never sees a nil set
LazyOnce   == \A k \in Values : writes[k] <= 1                                   \* the set is built once
Terminates == <>(\A w \in Workers : pc[w] = "done")
=============================================================================
