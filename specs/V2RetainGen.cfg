SPECIFICATION Spec
CONSTANTS C4s = {2, 4}
          MaxLine = 3
          Spans <- MCSpans
          Names = {1, 2}
          MaxC = 3
          Emit = TRUE
CHECK_DEADLOCK FALSE
