SPECIFICATION Spec
CONSTANTS VTok = {"a", "b", " "}
          CTok = {"x", " "}
          MaxVal = 3
          MaxCtx = 1
INVARIANTS PlantsAreCopies OnlyPlanted
CHECK_DEADLOCK FALSE
