SPECIFICATION Spec
CONSTANTS Sigma <- SigmaH
          MaxLen = 5
          Emit = FALSE
INVARIANTS FixpointDom BlankLine Respace Decorate NoticeIns TailLine
CHECK_DEADLOCK FALSE
