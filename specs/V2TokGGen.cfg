SPECIFICATION Spec
CONSTANTS Sigma <- SigmaG
          MaxLen = 5
          Emit = TRUE
CHECK_DEADLOCK FALSE
