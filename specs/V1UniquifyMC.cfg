SPECIFICATION Spec
CONSTANTS Confs = {1, 2, 3}
          Names = {1, 2}
          MaxOff = 4
          MaxExt = 3
          MaxM = 3
          InclusiveEnd = FALSE
          Emit = FALSE
INVARIANTS DisjointKept BestKept NoStartInside
CHECK_DEADLOCK FALSE
