----------------------------- MODULE EditLemma -----------------------------
(* Lemma behind C02, checked exhaustively on small sequences: the cost the code assigns to a VALID
   edit script between R and K (per change block max(#inserted, #deleted) words -- diffLevenshteinWord)
   is never below the word-level Levenshtein distance of R and K, and a script of cost 0 exists only
   if R = K.  Together with TraceV2's per-call check "the library returned a valid script and
   dist = Cost(script)" this gives Confidence = 1 - dist/|K| <= 1 - Lev(R,K)/|K|.
   TLC enumerates every pair of sequences up to MaxLen over Sym and every script (sequence of ops). *)
EXTENDS Integers, Sequences, FiniteSets, TLC
CONSTANTS Sym, MaxLen, MaxOps
VARIABLES r, k, ops, phase
vars == <<r, k, ops, phase>>

Min2(a, b) == IF a < b THEN a ELSE b
Max2(a, b) == IF a > b THEN a ELSE b
RECURSIVE Lev(_, _)
Lev(a, b) == IF a = <<>> THEN Len(b) ELSE IF b = <<>> THEN Len(a)
             ELSE Min2(Min2(Lev(Tail(a), b) + 1, Lev(a, Tail(b)) + 1),
                       Lev(Tail(a), Tail(b)) + (IF Head(a) = Head(b) THEN 0 ELSE 1))

RECURSIVE ValidFrom(_, _, _, _, _)
ValidFrom(os, T, K, i, j) ==
  IF os = <<>> THEN i = Len(T) /\ j = Len(K)
  ELSE LET ty == os[1][1]  n == os[1][2] IN
       CASE ty = "=" -> /\ i + n <= Len(T) /\ j + n <= Len(K)
                        /\ SubSeq(T, i + 1, i + n) = SubSeq(K, j + 1, j + n)
                        /\ ValidFrom(Tail(os), T, K, i + n, j + n)
         [] ty = "-" -> i + n <= Len(T) /\ ValidFrom(Tail(os), T, K, i + n, j)
         [] ty = "+" -> j + n <= Len(K) /\ ValidFrom(Tail(os), T, K, i, j + n)
RECURSIVE CostFrom(_, _, _, _)
CostFrom(os, i, ins, del) ==
  IF i > Len(os) THEN Max2(ins, del)
  ELSE CASE os[i][1] = "+" -> CostFrom(os, i + 1, ins + os[i][2], del)
         [] os[i][1] = "-" -> CostFrom(os, i + 1, ins, del + os[i][2])
         [] OTHER          -> Max2(ins, del) + CostFrom(os, i + 1, 0, 0)
Cost(os) == CostFrom(os, 1, 0, 0)

Op == {"=", "-", "+"} \X (1..MaxLen)
Init == r = <<>> /\ k = <<>> /\ ops = <<>> /\ phase = "r"
GrowR == phase = "r" /\ Len(r) < MaxLen /\ \E s \in Sym : r' = Append(r, s) /\ UNCHANGED <<k, ops, phase>>
ToK   == phase = "r" /\ phase' = "k" /\ UNCHANGED <<r, k, ops>>
GrowK == phase = "k" /\ Len(k) < MaxLen /\ \E s \in Sym : k' = Append(k, s) /\ UNCHANGED <<r, ops, phase>>
ToOps == phase = "k" /\ phase' = "ops" /\ UNCHANGED <<r, k, ops>>
GrowO == phase = "ops" /\ Len(ops) < MaxOps /\ \E o \in Op : ops' = Append(ops, o) /\ UNCHANGED <<r, k, phase>>
Next == GrowR \/ ToK \/ GrowK \/ ToOps \/ GrowO
Spec == Init /\ [][Next]_vars

Lemma == (phase = "ops" /\ ValidFrom(ops, r, k, 0, 0)) => /\ Cost(ops) >= Lev(r, k)
                                                           /\ (Cost(ops) = 0 => r = k)
=============================================================================
