SPECIFICATION Spec
CONSTANTS Procs = {"p1", "p2", "p3"}
          Docs = {"d1", "d2"}
          CopyBeforeDiff = TRUE
INVARIANTS NoRace SeqEquivalent
CHECK_DEADLOCK FALSE
