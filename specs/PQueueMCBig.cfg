SPECIFICATION Spec
CONSTANTS Ids = {1, 2, 3, 4, 5}
          Prios = {1, 2, 3}
          MaxDepth = 0
          MaxLen = 5
VIEW View
INVARIANTS Inv MinIsMin
PROPERTIES PopsMin Conserve
CHECK_DEADLOCK FALSE
