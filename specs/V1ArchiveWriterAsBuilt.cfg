SPECIFICATION Spec
CONSTANTS Entries <- EntriesMC
          Buf = 4
          MaxRoom = 20
          IgnoreClose = TRUE
          Emit = FALSE
INVARIANTS SuccessMeansWritten
CHECK_DEADLOCK FALSE
