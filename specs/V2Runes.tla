------------------------------- MODULE V2Runes -------------------------------
(* S2, the channel between the classifier and go-diff (v2/diff.go idToRune, runeToID): token ids travel as
   runes; go-diff hands them back through string([]rune), which replaces every surrogate code point and every
   value beyond MaxRune by U+FFFD.  The encoding skips the surrogate range (fix 5829aaf).
   Explored over the ids around every boundary of the encoding (constant Ids, given by the wrapper module). *)
EXTENDS Integers, FiniteSets, Sequences, TLC, Json

CONSTANTS Ids, Emit

SMin == 55296      \* 0xD800
SMax == 57343      \* 0xDFFF
MaxRune == 1114111 \* 0x10FFFF
RErr == 65533      \* U+FFFD
Gap == SMax - SMin + 1

Enc(id) == IF id >= SMin THEN id + Gap ELSE id             \* idToRune
Dec(r)  == IF r > SMax THEN r - Gap ELSE r                 \* runeToID
Channel(r) == IF (r >= SMin /\ r <= SMax) \/ r > MaxRune \/ r < 0 THEN RErr ELSE r    \* []rune(string([]rune{r}))
MaxId == MaxRune - Gap                                     \* ids beyond it cannot be encoded (dictionaries of > 1.1M words)

VARIABLES id, phase
vars == <<id, phase>>
Init == id = 0 /\ phase = "pick"
Pick == phase = "pick" /\ \E x \in Ids : id' = x /\ phase' = "picked"
Out  == /\ phase = "picked" /\ Emit /\ phase' = "done" /\ UNCHANGED id
        /\ PrintT(ToJson([id |-> id, r |-> Enc(id), back |-> Dec(Channel(Enc(id)))]))
Next == Pick \/ Out
Spec == Init /\ [][Next]_vars

(* what the scoring rests on: an id comes back as itself, and two ids never share a rune *)
Lossless  == \A x \in Ids : x <= MaxId => Channel(Enc(x)) = Enc(x) /\ Dec(Channel(Enc(x))) = x
Injective == \A x, y \in Ids : x # y => Enc(x) # Enc(y)
NoSurrogate == \A x \in Ids : ~(Enc(x) >= SMin /\ Enc(x) <= SMax)
=============================================================================
