SPECIFICATION Spec
CONSTANTS Sigma <- SigmaG
          MaxLen = 5
          Emit = FALSE
INVARIANTS FixpointDom BlankLine
CHECK_DEADLOCK FALSE
