SPECIFICATION TSpec
CONSTANTS DevNoticeInSpan = TRUE
          DevClampShift = TRUE
          DevC11HyphenToken = TRUE
          DevC11CleanedNotice = TRUE
          DevLineTouchSplit = TRUE
POSTCONDITION TraceAccepted
CHECK_DEADLOCK FALSE
