SPECIFICATION TSpec
CONSTANTS DevNoticeInSpan = TRUE
POSTCONDITION TraceAccepted
CHECK_DEADLOCK FALSE
