SPECIFICATION Spec
CONSTANTS Sigma <- SigmaH
          MaxLen = 5
          Emit = TRUE
CHECK_DEADLOCK FALSE
