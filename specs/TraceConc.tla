------------------------------ MODULE TraceConc ------------------------------
(* Leg T for the concurrent properties (C14, C19): a recorded history of lock operations, accesses to
   shared locations and goroutine forks (hook events stamped with the goroutine id by the sink) is
   replayed; the spec recomputes happens-before with vector clocks and rejects the history at the
   first access that is concurrent with a conflicting one (a data race under the Go memory model).
   Lock sets are derived from the goroutine's own lock / unlock events, never asserted by a hook.

     lock/unlock {g, mu, mode R|W}   acquire joins the clock of the last releases; release publishes
     acc {g, loc, kind R|W}          read: must be ordered after the last write; write: after last write and all reads
     fork {g, tok} / start {g, tok}  the child starts with the parent's clock (go statement)
     join {g, tok}                   the parent continues with the child's clock (WaitGroup / channel receive)
     reset                           next round                                                       *)
EXTENDS Integers, Sequences, FiniteSets, TLC, Json

Trace == ndJsonDeserialize("trace_conc.ndjson")
VARIABLES vc,       \* goroutine -> (goroutine -> clock)
          relW,     \* mutex -> clock of the last write-unlock
          relR,     \* mutex -> join of the clocks of read-unlocks since
          lastW,    \* location -> <<goroutine, clock>> of the last write, or absent
          reads,    \* location -> (goroutine -> clock) of reads since the last write
          forks,    \* token -> clock handed to a child / back to the parent
          held,     \* goroutine -> set of <<mutex, mode>> held (derived)
          l
vars == <<vc, relW, relR, lastW, reads, forks, held, l>>

Get(f, k, d) == IF k \in DOMAIN f THEN f[k] ELSE d
Put(f, k, v) == [x \in DOMAIN f \cup {k} |-> IF x = k THEN v ELSE f[x]]
EMPTY == <<>>                                     \* the empty function
C(g)  == Get(vc, g, EMPTY)
At(c, h) == Get(c, h, 0)
Max2(a, b) == IF a > b THEN a ELSE b
Join(a, b) == [h \in DOMAIN a \cup DOMAIN b |-> Max2(At(a, h), At(b, h))]
Tick(c, g) == Put(c, g, At(c, g) + 1)
Leq(a, b)  == \A h \in DOMAIN a : a[h] <= At(b, h)

Init == /\ vc = EMPTY /\ relW = EMPTY /\ relR = EMPTY /\ lastW = EMPTY /\ reads = EMPTY /\ forks = EMPTY /\ held = EMPTY /\ l = 1
Ev(n) == l <= Len(Trace) /\ Trace[l].ev = n /\ l' = l + 1
E == Trace[l]

Reset == /\ Ev("reset")
         /\ vc' = EMPTY /\ relW' = EMPTY /\ relR' = EMPTY /\ lastW' = EMPTY /\ reads' = EMPTY /\ forks' = EMPTY /\ held' = EMPTY

Lock == /\ Ev("lock")
        /\ LET g == E.g
               c0 == Tick(C(g), g)
               c1 == IF E.mode = "W" THEN Join(Join(c0, Get(relW, E.mu, EMPTY)), Get(relR, E.mu, EMPTY))
                     ELSE Join(c0, Get(relW, E.mu, EMPTY))
           IN /\ vc' = Put(vc, g, c1)
              /\ held' = Put(held, g, Get(held, g, {}) \cup {<<E.mu, E.mode>>})
        /\ UNCHANGED <<relW, relR, lastW, reads, forks>>
Unlock == /\ Ev("unlock")
          /\ <<E.mu, E.mode>> \in Get(held, E.g, {})                 \* only a held lock is released
          /\ LET g == E.g  c == C(g) IN
               /\ IF E.mode = "W" THEN relW' = Put(relW, E.mu, c) /\ relR' = Put(relR, E.mu, EMPTY)
                  ELSE relR' = Put(relR, E.mu, Join(Get(relR, E.mu, EMPTY), c)) /\ UNCHANGED relW
               /\ vc' = Put(vc, g, Tick(c, g))
               /\ held' = Put(held, g, Get(held, g, {}) \ {<<E.mu, E.mode>>})
          /\ UNCHANGED <<lastW, reads, forks>>

(* the race condition of the Go memory model on the recorded accesses *)
OrderedAfterWrite(x, g) == x \in DOMAIN lastW => (lastW[x][1] = g \/ lastW[x][2] <= At(C(g), lastW[x][1]))
OrderedAfterReads(x, g) == \A h \in DOMAIN Get(reads, x, EMPTY) : h = g \/ reads[x][h] <= At(C(g), h)
Acc == /\ Ev("acc")
       /\ LET g == E.g  x == E.loc  c == Tick(C(g), g) IN
            /\ OrderedAfterWrite(x, g)
            /\ E.kind = "W" => OrderedAfterReads(x, g)
            /\ vc' = Put(vc, g, c)
            /\ IF E.kind = "W" THEN lastW' = Put(lastW, x, <<g, At(c, g)>>) /\ reads' = Put(reads, x, EMPTY)
               ELSE reads' = Put(reads, x, Put(Get(reads, x, EMPTY), g, At(c, g))) /\ UNCHANGED lastW
       /\ UNCHANGED <<relW, relR, forks, held>>

Fork == /\ Ev("fork")
        /\ forks' = Put(forks, E.tok, C(E.g))
        /\ vc' = Put(vc, E.g, Tick(C(E.g), E.g))
        /\ UNCHANGED <<relW, relR, lastW, reads, held>>
Start == /\ Ev("start")
         /\ E.tok \in DOMAIN forks                                    \* a goroutine starts after its go statement
         /\ vc' = Put(vc, E.g, Tick(Join(C(E.g), forks[E.tok]), E.g))
         /\ UNCHANGED <<relW, relR, lastW, reads, forks, held>>
Done == /\ Ev("done")                                                  \* the goroutine publishes its clock (wg.Done / channel send)
        /\ forks' = Put(forks, E.tok, Join(Get(forks, E.tok, EMPTY), C(E.g)))
        /\ vc' = Put(vc, E.g, Tick(C(E.g), E.g))
        /\ UNCHANGED <<relW, relR, lastW, reads, held>>
JoinEv == /\ Ev("join")                                                \* wg.Wait / channel receive
          /\ vc' = Put(vc, E.g, Tick(Join(C(E.g), Get(forks, E.tok, EMPTY)), E.g))
          /\ UNCHANGED <<relW, relR, lastW, reads, forks, held>>

Next == Reset \/ Lock \/ Unlock \/ Acc \/ Fork \/ Start \/ Done \/ JoinEv
Spec == Init /\ [][Next]_vars
\* a write lock is exclusive, read locks exclude writers (the recorded order is the real order: events are emitted while the lock is held)
MutexOK == \A g1, g2 \in DOMAIN held : g1 # g2 =>
              \A a \in held[g1], b \in held[g2] : a[1] = b[1] => (a[2] = "R" /\ b[2] = "R")
TraceAccepted == TLCGet("stats").diameter - 1 = Len(Trace)
=============================================================================
