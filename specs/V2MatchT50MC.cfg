SPECIFICATION Spec
CONSTANTS Q <- QDef
          NeedTab <- NeedDef
          MarginTab <- MarginDef
          TNum = 1
          TDen = 2
          Vocab = {1, 2, 3}
          MaxK = 3
          MaxT = 4
          Emit = FALSE
INVARIANTS InBounds PlantIsCandidate
CHECK_DEADLOCK FALSE
