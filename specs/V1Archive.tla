------------------------------ MODULE V1Archive ------------------------------
(* S7 -- the v1 license archive: serializer.ArchiveLicenses writes, for every *.txt name in the order given,
   an entry <base>.txt with the normalised text followed by an entry <base>.hash with the search set;
   licenseclassifier.registerLicenses reads the entries strictly in pairs and registers
   TrimSuffix(name, ".txt") -> (text, set).  C15: the loaded classifier holds exactly the given license
   files under their names, whatever their order, also when other names are mixed in and when a text
   normalises to nothing.
   Kinds of files: "lic" ordinary license, "hdr" a <name>.header.txt file, "empty" a text that normalises to the
   empty string (only a copyright notice), "other" a name that does not end in .txt (skipped by the archiver),
   "twin" a file whose normalised text equals another file's (every file is a license of its own, whatever it says). *)
EXTENDS Integers, Sequences, FiniteSets, TLC, Json, SequencesExt

CONSTANTS Cands, MaxFiles      \* candidate files [name, kind, dir]: dir is the path the file is given with (the archive knows files by their names)

IsTxt(f) == f.kind # "other"
RECURSIVE Archive(_)
Archive(files) == IF files = <<>> THEN <<>>
                  ELSE IF IsTxt(Head(files))
                       THEN << [n |-> Head(files).name \o ".txt", what |-> "text", empty |-> Head(files).kind = "empty"],
                               [n |-> Head(files).name \o ".hash", what |-> "set", empty |-> FALSE] >> \o Archive(Tail(files))
                       ELSE Archive(Tail(files))
(* registerLicenses: entries two by two *)
RECURSIVE Load(_)
Load(entries) == IF Len(entries) < 2 THEN {}
                 ELSE {[key |-> SubSeq(entries[1].n, 1, Len(entries[1].n) - 4), empty |-> entries[1].empty, paired |-> entries[2].what = "set"]}
                      \cup Load(SubSeq(entries, 3, Len(entries)))

VARIABLES files, phase
vars == <<files, phase>>
Init == files = <<>> /\ phase = "grow"
Grow == /\ phase = "grow" /\ Len(files) < MaxFiles
        /\ \E f \in Cands : (\A i \in 1..Len(files) : files[i] # f) /\ files' = Append(files, f)     \* a SET of files, in some order
        /\ UNCHANGED phase
Emit == /\ phase = "grow" /\ phase' = "done" /\ UNCHANGED files
        /\ PrintT(ToJson([files |-> [i \in 1..Len(files) |-> <<files[i].name, files[i].kind, files[i].dir>>],
                          keys |-> {k.key : k \in Load(Archive(files))},
                          empties |-> {k.key : k \in {x \in Load(Archive(files)) : x.empty}}]))
Next == Grow \/ Emit
Spec == Init /\ [][Next]_vars

RoundTrip == LET L == Load(Archive(files)) IN
   /\ {k.key : k \in L} = {files[i].name : i \in {j \in 1..Len(files) : IsTxt(files[j])}}       \* exactly those licenses, under their names
   /\ \A k \in L : k.paired                                                                      \* every text is followed by its set
   /\ Len(Archive(files)) = 2 * Cardinality({j \in 1..Len(files) : IsTxt(files[j])})
=============================================================================
