----------------------------- MODULE V1Normalize -----------------------------
(* S7, normaliser pipeline -- licenseclassifier.Normalizers (classifier.go), transcribed as built over rune
   sequences (runes are one-character strings; non-ASCII runes have symbolic names):

     html.UnescapeString            (not modelled: the explored alphabet has no '&')
     removeShebangLine              drop a first line starting with "#!" if there is a second line
     RemoveNonWords                 every run of ASCII punctuation -> one blank
     NormalizeEquivalentWords       (only "licence" -> "License" can be spelled by the alphabet)
     NormalizePunctuation           Unicode dashes -> "-", Unicode quotes -> "'", (c)-sign -> "(c)",
                                    (\S)-\s+(\S) -> $1-$2   -- these put ASCII punctuation back AFTER RemoveNonWords
     strings.ToLower
     removeIgnorableTexts           leading lines that are a known preamble (the patterns see the text after the steps above:
                                    "Copyright (c) 2020 X" has lost its parentheses and is NOT recognised, "Copyright (c)-sign 2020 X" is)
     FlattenWhitespace, TrimSpace

   C16 rests on: Norm is invariant under re-casing and under decoration of lines with punctuation prefixes.
   (Re-flowing whitespace changes the line structure the first and the seventh step look at: not an invariant.) *)
EXTENDS Integers, Sequences, FiniteSets, TLC, Json, SequencesExt, TokConsts

NL == "\n"
PunctSet == {".", ",", "(", ")", "/", "#", "!", "*", ";", "-", "'", "\"", ":", "@", "[", "]", ">", "|", "%"}
IsWS(c)    == c \in {" ", "\t", NL, "\r"}
LowSet  == {LowSeq[i] : i \in 1..Len(LowSeq)}
UpSet   == {UpSeq[i] : i \in 1..Len(UpSeq)}
IdxIn(sq, c) == CHOOSE i \in 1..Len(sq) : sq[i] = c
LowerFn == [c \in UpSet |-> LowSeq[IdxIn(UpSeq, c)]]
Lower(c) == IF c \in UpSet THEN LowerFn[c] ELSE c
LowerSeq(s) == [i \in 1..Len(s) |-> Lower(s[i])]
HasAt(s, p, lit) == p + Len(lit) - 1 <= Len(s) /\ SubSeq(s, p, p + Len(lit) - 1) = lit
HasAtCI(s, p, lit) == p + Len(lit) - 1 <= Len(s) /\ LowerSeq(SubSeq(s, p, p + Len(lit) - 1)) = lit

(* ---- lines *)
RECURSIVE SplitFrom(_, _, _)
SplitFrom(s, i, cur) == IF i > Len(s) THEN <<cur>>
                        ELSE IF s[i] = NL THEN <<cur>> \o SplitFrom(s, i + 1, <<>>) ELSE SplitFrom(s, i + 1, Append(cur, s[i]))
Lines(s) == SplitFrom(s, 1, <<>>)                                   \* strings.Split(s, "\n")
RECURSIVE JoinNL(_, _)
JoinNL(ls, i) == IF i > Len(ls) THEN <<>> ELSE ls[i] \o (IF i < Len(ls) THEN <<NL>> ELSE <<>>) \o JoinNL(ls, i + 1)

(* ---- 2 removeShebangLine *)
Shebang(s) == LET ls == Lines(s) IN
              IF Len(ls) <= 1 \/ ~HasAt(ls[1], 1, <<"#", "!">>) THEN s ELSE JoinNL(Tail(ls), 1)

(* ---- 3 RemoveNonWords: [[:punct:]]+ -> " " *)
RECURSIVE NonWordsFrom(_, _)
NonWordsFrom(s, i) == IF i > Len(s) THEN <<>>
                      ELSE IF s[i] \in PunctSet
                           THEN LET j == CHOOSE j \in i..Len(s) : (\A x \in i..j : s[x] \in PunctSet) /\ (j = Len(s) \/ s[j + 1] \notin PunctSet)
                                IN <<" ">> \o NonWordsFrom(s, j + 1)
                           ELSE <<s[i]>> \o NonWordsFrom(s, i + 1)
NonWords(s) == NonWordsFrom(s, 1)

(* ---- 4 NormalizeEquivalentWords (the one pair the alphabet can spell), case-insensitive, replacement "License" *)
RECURSIVE EquivFrom(_, _)
EquivFrom(s, i) == IF i > Len(s) THEN <<>>
                   ELSE IF HasAtCI(s, i, <<"l", "i", "c", "e", "n", "c", "e">>)
                        THEN <<"L", "i", "c", "e", "n", "s", "e">> \o EquivFrom(s, i + 7)
                        ELSE <<s[i]>> \o EquivFrom(s, i + 1)
Equiv(s) == EquivFrom(s, 1)

(* ---- 5 NormalizePunctuation *)
MapP(c) == CASE c \in {"FIGDASH", "ENDASH", "EMDASH"} -> <<"-">>
             [] c \in {"LQUOTE", "RQUOTE", "LDQUOTE", "RDQUOTE", "`"} -> <<"'">>
             [] c = "COPY" -> <<"(", "c", ")">>
             [] c \in {"SECT", "CURR"} -> <<"(", "s", ")">>
             [] c = "MIDDOT" -> <<"*">>
             [] OTHER -> <<c>>
RECURSIVE FlatMap(_, _)
FlatMap(s, i) == IF i > Len(s) THEN <<>> ELSE MapP(s[i]) \o FlatMap(s, i + 1)
\* (\S)-\s+(\S) -> $1-$2, leftmost non-overlapping; applied after the dashes but before (c)/(s)/* in the code's list order
RECURSIVE HyphFrom(_, _)
HyphFrom(s, i) ==
  IF i > Len(s) THEN <<>>
  ELSE IF ~IsWS(s[i]) /\ i + 2 <= Len(s) /\ s[i + 1] = "-" /\ IsWS(s[i + 2])
       THEN LET J == {j \in (i + 3)..Len(s) : ~IsWS(s[j]) /\ \A x \in (i + 2)..(j - 1) : IsWS(s[x])} IN
            IF J = {} THEN <<s[i]>> \o HyphFrom(s, i + 1)
            ELSE LET j == CHOOSE j \in J : TRUE IN <<s[i], "-", s[j]>> \o HyphFrom(s, j + 1)
       ELSE <<s[i]>> \o HyphFrom(s, i + 1)
\* order in interchangeablePunctuation: dashes, quotes, copyright, hyphen-separated words, section, middle dot
MapDashQuoteCopy(c) == IF c \in {"SECT", "CURR", "MIDDOT"} THEN <<c>> ELSE MapP(c)
RECURSIVE FlatMap1(_, _)
FlatMap1(s, i) == IF i > Len(s) THEN <<>> ELSE MapDashQuoteCopy(s[i]) \o FlatMap1(s, i + 1)
Punct(s) == FlatMap(HyphFrom(FlatMap1(s, 1), 1), 1)

(* ---- 7 removeIgnorableTexts *)
RECURSIVE TrimL(_)
TrimL(s) == IF s # <<>> /\ IsWS(Head(s)) THEN TrimL(Tail(s)) ELSE s
RECURSIVE TrimR(_)
TrimR(s) == IF s # <<>> /\ IsWS(Last(s)) THEN TrimR(Front(s)) ELSE s
Trim(s) == TrimR(TrimL(s))
RECURSIVE TrimRNL(_)
TrimRNL(s) == IF s # <<>> /\ Last(s) = NL THEN TrimRNL(Front(s)) ELSE s
FourDigits(l, p) == p + 3 <= Len(l) /\ \A i \in p..(p + 3) : l[i] \in DigitSet
LitMIT   == <<"m","i","t"," ","l","i","c","e","n","s","e">>
LitTheMIT == <<"t","h","e"," ">> \o LitMIT
LitBSD   == <<"b","s","d"," ","l","i","c","e","n","s","e">>
LitNewBSD == <<"n","e","w"," ">> \o LitBSD
LitCPN   == <<"c","o","p","y","r","i","g","h","t"," ","a","n","d"," ","p","e","r","m","i","s","s","i","o","n"," ","n","o","t","i","c","e">>
LitCopyW  == <<"c","o","p","y","r","i","g","h","t"," ">>
LitParenC     == <<"(","c",")"," ">>
LitARR   == <<" ","r","i","g","h","t","s"," ","r","e","s","e","r","v","e","d">>
\* ^copyright (\(c\) )?(\[yyyy\]|\d{4})[,.]? .*$
CopyLine(l) == /\ HasAt(l, 1, LitCopyW)
               /\ LET p == Len(LitCopyW) + 1
                      q == IF HasAt(l, p, LitParenC) THEN p + Len(LitParenC) ELSE p
                      yearAt(x) == FourDigits(l, x)
                      after(x) == \/ (x <= Len(l) /\ l[x] = " ")                                   \* no [,.], then the blank
                                  \/ (x + 1 <= Len(l) /\ l[x] \in {",", "."} /\ l[x + 1] = " ")
                  IN \/ (yearAt(q) /\ after(q + 4))
                     \/ (q # p /\ yearAt(p) /\ after(p + 4))       \* the optional group may also stay unused
Ignorable(line) == LET l == Trim(line) IN
   \/ l = LitMIT \/ l = LitTheMIT
   \/ l = LitBSD \/ l = LitNewBSD
   \/ l = LitCPN
   \/ CopyLine(l)
   \/ (\E w \in {<<"a","l","l">>, <<"s","o","m","e">>} : l = w \o LitARR \/ l = w \o LitARR \o <<".">>)
   \/ l = <<>>                                                           \* ^\s*$  (and @license, which cannot survive RemoveNonWords)
RECURSIVE DropLead(_)
DropLead(ls) == IF ls # <<>> /\ Ignorable(Head(ls)) THEN DropLead(Tail(ls)) ELSE ls
IgnTexts(s) == JoinNL(DropLead(Lines(TrimRNL(s))), 1) \o <<NL>>

(* ---- 8, 9 *)
RECURSIVE FlattenFrom(_, _)
FlattenFrom(s, i) == IF i > Len(s) THEN <<>>
                     ELSE IF IsWS(s[i]) THEN (IF i > 1 /\ IsWS(s[i - 1]) THEN <<>> ELSE <<" ">>) \o FlattenFrom(s, i + 1)
                     ELSE <<s[i]>> \o FlattenFrom(s, i + 1)
Flatten(s) == FlattenFrom(s, 1)

Norm(s) == Trim(Flatten(IgnTexts(LowerSeq(Punct(Equiv(NonWords(Shebang(s))))))))

-----------------------------------------------------------------------------
CONSTANTS Sigma, MaxLen, Emit
VARIABLES toks, phase
vars == <<toks, phase>>
In == FlattenSeq(toks)
Init == toks = <<>> /\ phase = "grow"
Grow == phase = "grow" /\ Len(toks) < MaxLen /\ \E t \in Sigma : toks' = Append(toks, t) /\ UNCHANGED phase
Out  == /\ phase = "grow" /\ Emit /\ phase' = "done" /\ UNCHANGED toks
        /\ PrintT(ToJson([i |-> In, n |-> Norm(In)]))
Next == Grow \/ Out
Spec == Init /\ [][Next]_vars

Flip(c) == IF c \in LowSet THEN UpSeq[IdxIn(LowSeq, c)] ELSE IF c \in UpSet THEN LowerFn[c] ELSE c
InsBefore(s, i, cs) == SubSeq(s, 1, i - 1) \o cs \o SubSeq(s, i, Len(s))
LineStart(s, i) == i = 1 \/ s[i - 1] = NL
NormRecase   == LET r == Norm(In) IN \A i \in 1..Len(In) : Flip(In[i]) # In[i] => Norm([In EXCEPT ![i] = Flip(@)]) = r
\* comment decoration in front of a line (a "#" prefix on a first line that starts with "!" would forge a shebang line: excluded)
NormDecorate == LET r == Norm(In) IN \A i \in 1..Len(In) : (LineStart(In, i) /\ ~(i = 1 /\ HasAt(In, 1, <<"#", "!">>))) =>      \* an interpreter line is not license text
                   \A d \in {<<"/", "/", " ">>, <<"#", " ">>, <<" ", "*", " ">>, <<";", " ">>, <<"-", "-", " ">>} : Norm(InsBefore(In, i, d)) = r
\* NOT an invariant of the code as built (TLC: the en dash becomes "-" in the first pass and a blank in the second).
\* License.MultipleMatch normalises its argument and the string classifier normalises it again, while the known values
\* are normalised once -- recorded in DESIGN.md; the listed properties only ask for confidence >= threshold.
NormIdempotent == Norm(Norm(In)) = Norm(In)
=============================================================================
