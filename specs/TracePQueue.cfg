SPECIFICATION TSpec
CONSTANTS Ids = {1,2,3,4,5,6,7,8,9,10,11,12}
          Prios = {1,2,3,4,5}
          MaxDepth = 0
          MaxLen = 12
INVARIANT RootIsMin
POSTCONDITION TraceAccepted
CHECK_DEADLOCK FALSE
