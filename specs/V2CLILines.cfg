SPECIFICATION Spec
CONSTANTS MaxLen = 5
          MaxLine = 4
          Emit = FALSE
INVARIANTS LinesQuoted NoErrorInRange
CHECK_DEADLOCK FALSE
