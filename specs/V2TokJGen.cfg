SPECIFICATION Spec
CONSTANTS Sigma <- SigmaJ
          MaxLen = 5
          Emit = TRUE
CHECK_DEADLOCK FALSE
