SPECIFICATION Spec
CONSTANTS EqTexts <- MCEq
          ChTexts <- MCCh
          Names <- MCNames
          Knowns <- MCKnowns
          MaxOps = 3
          Emit = FALSE
INVARIANTS RangeSpells ScoreRange CostZeroIffEqual
CHECK_DEADLOCK FALSE
