SPECIFICATION Spec
INVARIANT MutexOK
POSTCONDITION TraceAccepted
CHECK_DEADLOCK FALSE
