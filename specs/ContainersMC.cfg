SPECIFICATION Spec
CONSTANTS U = {1, 2, 3}
          MaxDepth = 0
          AnyInit = FALSE
          Recv = {"A", "B", "R"}
          WithBin = TRUE
VIEW View
INVARIANTS TypeOK Laws
PROPERTIES Unaliased OnlyOneSlotChanges
CHECK_DEADLOCK FALSE
