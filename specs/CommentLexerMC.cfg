SPECIFICATION Spec
CONSTANTS MaxTok = 4
          Groups = {1,2,3,4,5,6,7,8,9,10,11,12,13,14,15,16,17,18,19,20,21}
          AbEat = FALSE
          AbRbe = FALSE
          AbByStart = TRUE
INVARIANTS Ordered SLNoNewline ChunkLaw
CHECK_DEADLOCK FALSE
