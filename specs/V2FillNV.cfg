SPECIFICATION Spec
CONSTANTS MaxReads = 2
          MaxK = 2
          Lens = {2}
          Emit = FALSE
INVARIANTS ReadFullTreatsUEOFAsEnd
CHECK_DEADLOCK FALSE
