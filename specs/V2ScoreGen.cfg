SPECIFICATION Spec
CONSTANTS EqTexts <- MCEq
          ChTexts <- MCCh
          Names <- MCNames
          Knowns <- MCKnowns
          MaxOps = 3
          Emit = TRUE

CHECK_DEADLOCK FALSE
