SPECIFICATION Spec
CONSTANTS MaxOps = 3
          Emit = FALSE
INVARIANTS NoDuplicates DocsKnowTheirWords
PROPERTIES IdsStable Replace MatchIsPure
CHECK_DEADLOCK FALSE
