SPECIFICATION Spec
CONSTANTS Runs = {"r1", "r2"}
          Files = {"f1", "f2"}
          Entries = 1
          LockPerRun = TRUE
INVARIANTS AllAppended
CHECK_DEADLOCK FALSE
