SPECIFICATION TSpec
CONSTANTS U = {1,2,3,4,5,6,7,8}
          MaxDepth = 0
          AnyInit = FALSE
          Recv = {"A", "B", "R"}
          WithBin = TRUE
POSTCONDITION TraceAccepted
CHECK_DEADLOCK FALSE
