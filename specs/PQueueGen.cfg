SPECIFICATION Spec
CONSTANTS Ids = {1, 2, 3, 4}
          Prios = {1, 2, 3}
          MaxDepth = 5
          MaxLen = 4
CHECK_DEADLOCK FALSE
