---------------------------- MODULE V2Tokenizer ----------------------------
(* S1 -- v2/tokenizer.go: tokenizeStream (rune loop), flushBuf, appendToDoc /
   stringifyLineBuf (notice regexes), cleanupToken, header, and Classifier.Normalize's
   renderer, transcribed as built.

   Runes are one-character strings; non-ASCII runes have symbolic names (EACUTE, ENDASH,
   COPY, NBSP, BAD = an invalid UTF-8 byte, ...).  A word is a sequence of runes.
   Step(s, c, norm) is one iteration of the rune loop; norm is tokenizeStream's
   `normalize` argument (TRUE for Match/AddContent, FALSE for Normalize).
   The byte buffer (C08) is a separate layer: V2Buffer.tla.                              *)
EXTENDS Integers, Sequences, FiniteSets, TLC, Json, SequencesExt, TokConsts

NL   == "\n"
EOLW == <<NL>>                       \* the EOL pseudo-token of the non-normalizing mode

------------------------------------------------------------------------------
(* rune classes *)
IndexIn(sq, c) == IF \E i \in 1..Len(sq) : sq[i] = c THEN CHOOSE i \in 1..Len(sq) : sq[i] = c ELSE 0
LowSet   == {LowSeq[i] : i \in 1..Len(LowSeq)}          \* constant definitions: evaluated once by TLC
UpSet    == {UpSeq[i] : i \in 1..Len(UpSeq)}
LowerFn  == [c \in UpSet |-> LowSeq[IndexIn(UpSeq, c)]]
UpperFn  == [c \in LowSet |-> UpSeq[IndexIn(LowSeq, c)]]
LetterSet == LowSet \cup UpSet \cup {"EACUTE", "EACUTEU", "A4"}
IsLower(c)  == c \in LowSet \/ c = "EACUTE"
IsUpper(c)  == c \in UpSet \/ c = "EACUTEU"
IsLetter(c) == c \in LetterSet
IsDigit(c)  == c \in DigitSet
IsSpace(c)  == c \in {" ", "\t", "\r", "NBSP", "\f"}          \* unicode.IsSpace minus "\n", which is handled first
IsStart(c)  == IsLetter(c) \/ IsDigit(c) \/ c \in {"&", "("}
Lower(c)    == IF c \in UpSet THEN LowerFn[c]
               ELSE IF c = "EACUTEU" THEN "EACUTE" ELSE c
LowerSeq(w) == [i \in 1..Len(w) |-> Lower(w[i])]
(* punctuationMappings, then lower-casing *)
MapLower(c) == CASE c \in {"-", "FIGDASH", "ENDASH", "EMDASH", "HYPHEN", "NBHYPHEN", "HBAR", "MINUS"} -> <<"-">>     \* U+2011, U+2015, U+2212: fix
                 [] c = "COPY"                 -> <<"(", "c", ")">>
                 [] c \in {"SECT", "CURR"}     -> <<"(", "s", ")">>
                 [] c \in {"MIDDOT", "*"}      -> <<" ">>
                 [] OTHER                      -> <<Lower(c)>>

------------------------------------------------------------------------------
(* flushBuf: html.UnescapeString (&amp / &amp; and the numeric references of alphabet I are what the explored alphabets can spell) then https:// -> http:// (fix 72a5ac3) *)
HasAt(w, p, lit) == p + Len(lit) - 1 <= Len(w) /\ SubSeq(w, p, p + Len(lit) - 1) = lit

(* numeric character references: "&#" digits, an optional ";" (the three the explored alphabets can spell: ")", ".", ":") *)
RECURSIVE DigitsEnd(_, _)
DigitsEnd(w, q) == IF q <= Len(w) /\ IsDigit(w[q]) THEN DigitsEnd(w, q + 1) ELSE q      \* first position behind the digits
CodeChar(ds) == CASE ds = <<"4", "1">> -> ")" [] ds = <<"4", "6">> -> "." [] ds = <<"5", "8">> -> ":" [] ds = <<"6", "5">> -> "A" [] OTHER -> "?"
RECURSIVE UnescFrom(_, _)
UnescFrom(w, p) ==
  IF p > Len(w) THEN <<>>
  ELSE IF HasAt(w, p, LitAmp)
       THEN LET q == p + Len(LitAmp) IN
            <<"&">> \o UnescFrom(w, IF q <= Len(w) /\ w[q] = ";" THEN q + 1 ELSE q)
       ELSE IF HasAt(w, p, <<"&", "#">>) /\ p + 2 <= Len(w) /\ IsDigit(w[p + 2])
       THEN LET q == DigitsEnd(w, p + 2) IN
            <<CodeChar(SubSeq(w, p + 2, q - 1))>> \o UnescFrom(w, IF q <= Len(w) /\ w[q] = ";" THEN q + 1 ELSE q)
       ELSE <<w[p]>> \o UnescFrom(w, p + 1)
RECURSIVE ReplFrom(_, _, _, _)
ReplFrom(w, p, from, to) ==
  IF p > Len(w) THEN <<>>
  ELSE IF HasAt(w, p, from) THEN to \o ReplFrom(w, p + Len(from), from, to)
       ELSE <<w[p]>> \o ReplFrom(w, p + 1, from, to)
(* a word's first rune keeps its case in the non-normalizing mode: "Https://" loses its "s" too, so that
   Match(Normalize(in)) reads the scheme Match(in) reads (fix: normalizeToken) *)
LitHttpsCap == <<"H">> \o Tail(LitHttps)
(* a character reference may decode to an upper-case letter: the word is lower-cased again behind the unescape (all of it when
   normalizing, all but its first rune otherwise, as the rune loop does) -- fix *)
Relower(w, norm) == [i \in 1..Len(w) |-> IF i = 1 /\ ~norm THEN w[i] ELSE Lower(w[i])]
FlushN(obuf, norm) == LET u == Relower(UnescFrom(obuf, 1), norm)
                   v == IF HasAt(u, 1, LitHttpsCap) THEN <<"H">> \o Tail(LitHttp) \o SubSeq(u, Len(LitHttps) + 1, Len(u)) ELSE u
               IN ReplFrom(v, 1, LitHttps, LitHttp)

------------------------------------------------------------------------------
(* header() and cleanupToken() *)
AllDigitsOrDots(p) == \A i \in 1..Len(p) : IsDigit(p[i]) \/ p[i] = "."
Header(w) ==
  /\ w # <<>>
  /\ Last(w) \in {".", ":", ")"}
  /\ LET p == Front(w) IN
        \/ (p \in ListMarkers /\ Last(w) # ")")
        \/ AllDigitsOrDots(p)

RECURSIVE StripDots(_)
StripDots(w) == IF w # <<>> /\ Last(w) = "." THEN StripDots(Front(w)) ELSE w
InterSet == {InterFrom[i] : i \in 1..Len(InterFrom)}
InterFn  == [w \in InterSet |-> InterTo[IndexIn(InterFrom, w)]]
Inter(w) == IF w \in InterSet THEN InterFn[w] ELSE w

Clean(pos, w, norm) ==
  IF pos = 0 /\ Header(LowerSeq(w)) THEN <<>>            \* markers are matched in lower case (fix ad83c87)
  ELSE IF ~IsLetter(w[1]) /\ IsDigit(w[1])
       THEN StripDots(SelectSeq(w, LAMBDA c : IsDigit(c) \/ c = "." \/ c = "-"))
       ELSE LET t == SelectSeq(w, IsLetter) IN IF norm THEN Inter(t) ELSE t

------------------------------------------------------------------------------
(* ignorableTexts: the three regular expressions, (?i), on the joined raw line *)
RECURSIVE JoinFrom(_, _)
JoinFrom(ws, i) == IF i > Len(ws) THEN <<>>
                   ELSE ws[i] \o (IF i < Len(ws) THEN <<" ">> ELSE <<>>) \o JoinFrom(ws, i + 1)
Joined(ws) == JoinFrom(ws, 1)

FourDigits(l, p) == p + 3 <= Len(l) /\ \A i \in p..(p + 3) : IsDigit(l[i])
YearAt(l, p) == HasAt(l, p, LitYYYY) \/ FourDigits(l, p)
Notice1(l) == \E k \in 0..5 : /\ k <= Len(l) /\ HasAt(l, k + 1, LitCopyright)
                              /\ LET p == k + 1 + Len(LitCopyright) IN
                                   \/ YearAt(l, p)
                                   \/ (HasAt(l, p, LitC) /\ YearAt(l, p + Len(LitC)))
Notice2(l) == \E k \in 0..5 : k <= Len(l) /\ HasAt(l, k + 1, LitDates)
IsAsciiLower(c) == c \in LowSet
Notice3(l) == /\ Len(l) \in {10, 11}
              /\ FourDigits(l, 1) /\ l[5] = "-"
              /\ IF Len(l) = 10 THEN IsDigit(l[6]) /\ IsDigit(l[7])
                 ELSE IsAsciiLower(l[6]) /\ IsAsciiLower(l[7]) /\ IsAsciiLower(l[8])
              /\ l[Len(l) - 2] = "-" /\ IsDigit(l[Len(l) - 1]) /\ IsDigit(l[Len(l)])
IsNotice(rawline) == LET l == LowerSeq(rawline) IN Notice1(l) \/ Notice2(l) \/ Notice3(l)

------------------------------------------------------------------------------
(* the rune loop *)
(* dE: a hyphen before a line break was stripped and the word is waiting for its second half; dW: the second half is
   being read; dl: line breaks swallowed by the hyphens of the pending word.  They are settled when the word is
   flushed, by a blank or by the next line break (fix: the old code paid one break, and only at a blank). *)
S0 == [obuf |-> <<>>, lb |-> <<>>, line |-> 1, dE |-> FALSE, dW |-> FALSE, dl |-> 0, toks |-> <<>>, notes |-> <<>>]

(* appendToDoc / stringifyLineBuf for one line buffer *)
EmitLine(s, lb, line, norm) ==
  IF IsNotice(Joined(lb)) THEN [s EXCEPT !.notes = Append(@, line)]
  ELSE LET cl  == [i \in 1..Len(lb) |-> Clean(i - 1, lb[i], norm)]
           ks  == SelectSeq(cl, LAMBDA w : w # <<>>)
       IN [s EXCEPT !.toks = @ \o [i \in 1..Len(ks) |-> [w |-> ks[i], l |-> line]]]

Step(s, c, norm) ==
  IF c = NL THEN
     IF s.obuf # <<>> /\ Last(s.obuf) = "-"
     THEN [s EXCEPT !.obuf = Front(@), !.dE = TRUE, !.dl = @ + 1] \* hyphen before the break: strip, defer, line NOT advanced
     ELSE LET lb == IF s.obuf # <<>> THEN Append(s.lb, FlushN(s.obuf, norm)) ELSE s.lb
              s1 == IF lb # <<>> THEN EmitLine([s EXCEPT !.lb = <<>>, !.obuf = <<>>], lb, s.line, norm) ELSE s
              ln == s.line + s.dl                                  \* the pending word ended with its line: settle
              s2 == IF norm THEN s1 ELSE [s1 EXCEPT !.toks = Append(@, [w |-> EOLW, l |-> ln])]
          IN [s2 EXCEPT !.line = ln + 1, !.dE = FALSE, !.dW = FALSE, !.dl = 0]
  ELSE IF s.obuf = <<>> THEN
     IF IsStart(c) THEN [s EXCEPT !.obuf = <<IF norm THEN Lower(c) ELSE c>>] ELSE s
  ELSE IF IsSpace(c) THEN
     IF s.dE THEN s                                                \* blanks after "-\n" are skipped
     ELSE LET lb == Append(s.lb, FlushN(s.obuf, norm)) IN
          IF s.dW
          THEN [EmitLine([s EXCEPT !.lb = <<>>, !.obuf = <<>>], lb, s.line, norm)
                  EXCEPT !.dW = FALSE, !.line = s.line + s.dl, !.dl = 0]   \* joined word credited to the line it began on
          ELSE [s EXCEPT !.lb = lb, !.obuf = <<>>]
  ELSE LET s1 == IF s.dE THEN [s EXCEPT !.dE = FALSE, !.dW = TRUE] ELSE s
       IN [s1 EXCEPT !.obuf = @ \o MapLower(c)]

Finish(s, norm) ==
  LET lb == IF s.obuf # <<>> THEN Append(s.lb, FlushN(s.obuf, norm)) ELSE s.lb
  IN IF lb # <<>> THEN EmitLine([s EXCEPT !.lb = <<>>, !.obuf = <<>>], lb, s.line, norm) ELSE s

RECURSIVE Fold(_, _, _, _)
Fold(s, in, i, norm) == IF i > Len(in) THEN s ELSE Fold(Step(s, in[i], norm), in, i + 1, norm)
Tok(in, norm) == Finish(Fold(S0, in, 1, norm), norm)

------------------------------------------------------------------------------
(* Classifier.Normalize: renderer over the tokens of the non-normalizing mode: one EOL per line advanced (the
   EOL pseudo-tokens only carry line numbers; a hyphen-ended notice line leaves none -- fix), a blank between
   words of one line *)
NLs(n) == [i \in 1..n |-> NL]
RECURSIVE RenderFrom(_, _, _, _)
RenderFrom(ts, i, line, first) ==
  IF i > Len(ts) THEN <<>>
  ELSE LET t   == ts[i]
           gap == IF t.l > line THEN t.l - line ELSE 0
           f1  == gap > 0 \/ first
       IN NLs(gap) \o (IF t.w = EOLW THEN RenderFrom(ts, i + 1, line + gap, f1)
                       ELSE (IF f1 THEN <<>> ELSE <<" ">>) \o t.w \o RenderFrom(ts, i + 1, line + gap, FALSE))
Render(ts) == RenderFrom(ts, 1, 1, TRUE)
Normalize(in) == Render(Tok(in, FALSE).toks)

Words(ts) == [i \in 1..Len(ts) |-> ts[i].w]
Lines(ts) == [i \in 1..Len(ts) |-> ts[i].l]
=============================================================================
