---------------------------- MODULE V2RetainOps ----------------------------
(* The overlap filter ("retain loop") of v2 match() and the total order Matches.Less, transcribed as built; pure operators
   shared by V2Contract (validation of recorded executions) and V2Retain (exhaustive exploration and replay).
   A candidate is a record with at least: cr (rank of its confidence), wr (rank of float64(et - st) * confidence, the
   "token density" the loop compares), kr (rank of (MatchType, Name, Variant) in Go's string order), sl, el (lines),
   st, et (token span). *)
EXTENDS Integers, Sequences, FiniteSets
CContains(a, b) == a.sl <= b.sl /\ a.el >= b.el
CBetween(x, lo, hi) == lo <= x /\ x <= hi
COverlaps(a, b) == CBetween(a.sl, b.sl, b.el) \/ CBetween(a.el, b.sl, b.el)
(* scan of the earlier candidates for candidate i: <<keep, proposals>> *)
RECURSIVE Scan(_, _, _, _, _)
Scan(cs, ret, i, j, props) ==
  IF j >= i THEN <<TRUE, props>>
  ELSE LET c == cs[i]  o == cs[j] IN
       IF CContains(c, o) /\ ret[j]
       THEN IF c.wr > o.wr THEN Scan(cs, ret, i, j + 1, props \cup {j})
            ELSE IF o.wr > c.wr THEN <<FALSE, props>>
            ELSE Scan(cs, ret, i, j + 1, props)
       ELSE IF COverlaps(c, o) /\ ret[j]
       THEN IF c.sl # o.el THEN <<FALSE, props>> ELSE Scan(cs, ret, i, j + 1, props)
       ELSE Scan(cs, ret, i, j + 1, props)
RECURSIVE RetainFrom(_, _, _)
RetainFrom(cs, ret, i) ==
  IF i > Len(cs) THEN ret
  ELSE LET r == Scan(cs, ret, i, 1, {}) IN
       IF r[1] THEN RetainFrom(cs, [j \in 1..Len(cs) |-> IF j = i THEN TRUE ELSE IF j \in r[2] THEN FALSE ELSE ret[j]], i + 1)
       ELSE RetainFrom(cs, ret, i + 1)
RetainLoop(cs) == RetainFrom(cs, [j \in 1..Len(cs) |-> FALSE], 1)
(* Matches.Less as a total order (fixes 8eb3532, de39304): confidence desc, start asc, end desc, identity, lines *)
CLess(a, b) == \/ a.cr > b.cr
               \/ a.cr = b.cr /\ a.st < b.st
               \/ a.cr = b.cr /\ a.st = b.st /\ a.et > b.et
               \/ a.cr = b.cr /\ a.st = b.st /\ a.et = b.et /\ a.kr < b.kr
               \/ a.cr = b.cr /\ a.st = b.st /\ a.et = b.et /\ a.kr = b.kr /\ a.sl < b.sl
               \/ a.cr = b.cr /\ a.st = b.st /\ a.et = b.et /\ a.kr = b.kr /\ a.sl = b.sl /\ a.el < b.el
=============================================================================
