SPECIFICATION Spec
CONSTANTS Sigma <- SigmaA
          MaxLen = 5
          Emit = TRUE
CHECK_DEADLOCK FALSE
