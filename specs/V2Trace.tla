------------------------------- MODULE V2Trace -------------------------------
(* S2, tracing switches (v2/trace.go): TraceLicenses is a comma-separated list of names, a "*" anywhere in an entry
   makes its part in front of the star a prefix pattern ("*" alone matches everything); TracePhases is a list of phase
   names, "*" for all.  The switches are read by every Match call of every goroutine: deciding them is a pure function
   of the configuration (C04: results do not depend on tracing; C09: Match only reads shared state).
   Names and patterns are sequences of characters. *)
EXTENDS Integers, Sequences, FiniteSets, TLC, Json, SequencesExt

CONSTANTS Entries,      \* candidate entries of TraceLicenses (sequences of characters)
          Lics,         \* license names asked about
          PhaseEntries, Phases,
          MaxEntries, Emit


StarAt(e) == IF \E i \in 1..Len(e) : e[i] = "*" THEN CHOOSE i \in 1..Len(e) : e[i] = "*" /\ \A j \in 1..(i - 1) : e[j] # "*" ELSE 0
IsTraceLicense(cfg, lic) == lic \in cfg \/ \E e \in cfg : StarAt(e) > 0 /\ IsPrefix(SubSeq(e, 1, StarAt(e) - 1), lic)
ShouldTrace(ph, phase) == <<"*">> \in ph \/ phase \in ph

VARIABLES lics, phases, phase
vars == <<lics, phases, phase>>
Init == lics = {} /\ phases = {} /\ phase = "grow"
AddL == phase = "grow" /\ Cardinality(lics) < MaxEntries /\ \E e \in Entries : e \notin lics /\ lics' = lics \cup {e} /\ UNCHANGED <<phases, phase>>
AddP == phase = "grow" /\ Cardinality(phases) < 2 /\ \E e \in PhaseEntries : e \notin phases /\ phases' = phases \cup {e} /\ UNCHANGED <<lics, phase>>
Out  == /\ phase = "grow" /\ Emit /\ phase' = "done" /\ UNCHANGED <<lics, phases>>
        /\ LET ls == SetToSeq(Lics)  ps == SetToSeq(Phases) IN
           PrintT(ToJson([lics |-> lics, phases |-> phases,
                          lic |-> [i \in 1..Len(ls) |-> <<ls[i], IsTraceLicense(lics, ls[i])>>],
                          ph  |-> [i \in 1..Len(ps) |-> <<ps[i], ShouldTrace(phases, ps[i])>>]]))
Next == AddL \/ AddP \/ Out
Spec == Init /\ [][Next]_vars

(* sanity of the rule itself *)
StarMatchesAll == <<"*">> \in lics => \A l \in Lics : IsTraceLicense(lics, l)
EmptyMatchesNone == lics = {} => \A l \in Lics : ~IsTraceLicense(lics, l)
Monotone == \A e \in Entries : \A l \in Lics : IsTraceLicense(lics, l) => IsTraceLicense(lics \cup {e}, l)
=============================================================================
