------------------------------ MODULE V2Buffer ------------------------------
(* S1, lower layer -- the read buffer of tokenizeStream (v2/tokenizer.go).

     tgt := bufSize - Keep
     loop: n, err := io.ReadFull(src, rbuf[idx:]);  on EOF: tgt = idx + n;  other error: return it
           for idx = 0; idx < tgt; { r, size := utf8.DecodeRune(rbuf[idx:]); idx += size; ... }
           on EOF: break;   idx = copy(rbuf, rbuf[idx:])

   Bytes are abstract: [kind, id, k] -- the k-th byte of rune number id of the stream; kind is
   "a" (ASCII), "l2"/"l3"/"l4" (lead byte of a 2/3/4-byte rune), "c" (continuation byte).
   utf8.DecodeRune looks at the bytes that are physically in the buffer behind idx -- also beyond
   tgt, where bytes of an earlier fill may linger.  BufSize is 8 here (1024 in the code); Keep is 4.
   Property (C08): the runes decoded chunk by chunk are the runes of the whole stream, for every
   stream, every pad of leading spaces and (ReadFull absorbs it) every fragmentation; a reader
   fault is returned as the error, with no output. *)
EXTENDS Integers, Sequences, FiniteSets, TLC

CONSTANTS BufSize, Keep, MaxRunes, MaxPad,
          DecodeStale   \* TRUE: DecodeRune may look at bytes behind the end of the input (as built before fix 6fa8f69)

Widths == {1, 2, 3, 4}
(* a "rune spec": width w with m <= w bytes actually present (m < w: truncated / invalid sequence),
   or a stray continuation byte *)
RuneSpecs == {<<w, m>> : w \in Widths, m \in 1..4} \cup {<<0, 1>>}
ValidSpec(s) == s[1] = 0 \/ s[2] <= s[1]

BytesOf(id, s) == IF s[1] = 0 THEN <<[kind |-> "c", id |-> id, k |-> 0]>>
                  ELSE [k \in 1..s[2] |-> [kind |-> IF k > 1 THEN "c" ELSE IF s[1] = 1 THEN "a" ELSE
                                                     IF s[1] = 2 THEN "l2" ELSE IF s[1] = 3 THEN "l3" ELSE "l4",
                                           id |-> id, k |-> k]]
RECURSIVE Flat(_, _)
Flat(specs, i) == IF i > Len(specs) THEN <<>> ELSE BytesOf(i, specs[i]) \o Flat(specs, i + 1)
Pad(p) == [i \in 1..p |-> [kind |-> "a", id |-> -i, k |-> 1]]

ERR == -1000     \* utf8.RuneError
MIX == -2000     \* a rune assembled from bytes that do not belong together
LeadW(b) == CASE b.kind = "l2" -> 2 [] b.kind = "l3" -> 3 [] b.kind = "l4" -> 4 [] OTHER -> 1

(* utf8.DecodeRune on the bytes buf[i..hi]: returns <<what, size>>; what = the rune id if the bytes are the
   complete encoding of one rune of the stream, ERR for RuneError (size 1), MIX if a lead byte was
   completed by continuation bytes that do not belong to it *)
Decode(buf, i, hi) ==
  LET b == buf[i] IN
  IF b.kind = "a" THEN <<b.id, 1>>
  ELSE IF b.kind = "c" THEN <<ERR, 1>>
  ELSE LET w == LeadW(b) IN
       IF i + w - 1 <= hi /\ \A j \in 1..(w - 1) : buf[i + j].kind = "c"
       THEN IF \A j \in 1..(w - 1) : buf[i + j].id = b.id /\ buf[i + j].k = j + 1 THEN <<b.id, w>> ELSE <<MIX, w>>
       ELSE <<ERR, 1>>

(* reference: decode the whole stream at once *)
RECURSIVE WholeFrom(_, _)
WholeFrom(s, i) == IF i > Len(s) THEN <<>>
                   ELSE LET d == Decode(s, i, Len(s)) IN <<d[1]>> \o WholeFrom(s, i + d[2])
Whole(s) == WholeFrom(s, 1)

VARIABLES stream, pos, rbuf, idx, tgt, eof, out, pc, failAt, result
vars == <<stream, pos, rbuf, idx, tgt, eof, out, pc, failAt, result>>
ZERO == [kind |-> "a", id |-> 0, k |-> 1]        \* a zero byte of the freshly made buffer

Init == /\ \E n \in 0..MaxRunes : \E specs \in [1..n -> {s \in RuneSpecs : ValidSpec(s)}] : \E p \in 0..MaxPad :
             stream = Pad(p) \o Flat(specs, 1)
        /\ failAt \in {-1} \cup (0..2)            \* reader fault after failAt more fills (-1: never)
        /\ pos = 0 /\ rbuf = [i \in 1..BufSize |-> ZERO] /\ idx = 0 /\ tgt = BufSize - Keep
        /\ eof = FALSE /\ out = <<>> /\ pc = "fill" /\ result = "running"

Fill == /\ pc = "fill"
        /\ IF failAt = 0
           THEN /\ result' = "error" /\ pc' = "done" /\ out' = <<>>           \* return nil, err
                /\ UNCHANGED <<stream, pos, rbuf, idx, tgt, eof, failAt>>
           ELSE LET need == BufSize - idx
                    have == Len(stream) - pos
                    n    == IF have < need THEN have ELSE need
                IN /\ rbuf' = [i \in 1..BufSize |-> IF i > idx /\ i <= idx + n THEN stream[pos + (i - idx)] ELSE rbuf[i]]
                   /\ pos' = pos + n
                   /\ eof' = (have < need)                                     \* io.EOF / io.ErrUnexpectedEOF
                   /\ tgt' = IF have < need THEN idx + n ELSE tgt
                   /\ idx' = 0 /\ pc' = "decode"
                   /\ failAt' = IF failAt > 0 THEN failAt - 1 ELSE failAt
                   /\ UNCHANGED <<stream, out, result>>
DecodeOne == /\ pc = "decode" /\ idx < tgt
             /\ LET d == Decode(rbuf, idx + 1, IF eof /\ ~DecodeStale THEN tgt ELSE BufSize) IN   \* rbuf[idx:valid]
                  out' = Append(out, d[1]) /\ idx' = idx + d[2]
             /\ UNCHANGED <<stream, pos, rbuf, tgt, eof, pc, failAt, result>>
EndChunk == /\ pc = "decode" /\ idx >= tgt
            /\ IF eof THEN pc' = "done" /\ result' = "ok" /\ UNCHANGED <<rbuf, idx>>
               ELSE /\ rbuf' = [i \in 1..BufSize |-> IF idx + i <= BufSize THEN rbuf[idx + i] ELSE rbuf[i]]   \* copy(rbuf, rbuf[idx:])
                    /\ idx' = IF idx <= BufSize THEN BufSize - idx ELSE 0
                    /\ pc' = "fill" /\ UNCHANGED result
            /\ UNCHANGED <<stream, pos, tgt, eof, out, failAt>>
Next == Fill \/ DecodeOne \/ EndChunk
Spec == Init /\ [][Next]_vars

(* a rune is never decoded from a partial encoding while more of it is still to come *)
IsPrefixOK == LET w == Whole(stream) IN Len(out) <= Len(w) /\ \A i \in 1..Len(out) : out[i] = w[i]
NoSplitRune == pc = "decode" => IsPrefixOK
ChunkedEqualsWhole == (pc = "done" /\ result = "ok") => out = Whole(stream)
FailPropagates     == (pc = "done" /\ result = "error") => out = <<>>
InBounds == idx <= BufSize
=============================================================================
