SPECIFICATION Spec
CONSTANTS Entries <- EntriesMC
          Buf = 4
          MaxRoom = 20
          IgnoreClose = FALSE
          Emit = FALSE
INVARIANTS SuccessMeansWritten RoomMeansSuccess NothingBeyondRoom
PROPERTIES Terminates
CHECK_DEADLOCK FALSE
