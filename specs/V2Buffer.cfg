SPECIFICATION Spec
CONSTANTS BufSize = 8
          Keep = 4
          MaxRunes = 3
          MaxPad = 20
          DecodeStale = FALSE
INVARIANTS NoSplitRune ChunkedEqualsWhole FailPropagates InBounds
CHECK_DEADLOCK FALSE
