------------------------- MODULE TraceCommentLexer -------------------------
(* Leg T of C18: every recorded Parse / ChunkIterator result of the real package on a long
   seeded program must be what the reference lexer of CommentLexer produces for that input. *)
EXTENDS CommentLexer
Trace == ndJsonDeserialize("trace_cp.ndjson")
VARIABLE l
tvars == <<g, toks, phase, l>>
TInit == g = 1 /\ toks = <<>> /\ phase = "trace" /\ l = 1
IsPrefixOrEq(a, b, allowOneMore) == \/ a = b
                                    \/ allowOneMore /\ Len(a) = Len(b) + 1 /\ SubSeq(a, 1, Len(b)) = b
TParse == /\ l <= Len(Trace) /\ Trace[l].ev = "parse" /\ l' = l + 1
          /\ LET e == Trace[l]
                 r == Lex(Tables[e.g], Ideal, e.in)
             IN /\ IsPrefixOrEq(e.c, r.out, r.unt)          \* an unterminated trailing lexeme may be dropped or reported
                /\ e.ch = Chunks(e.c, TRUE)
          /\ UNCHANGED <<g, toks, phase>>
TSpec == TInit /\ [][TParse]_tvars
TraceAccepted == TLCGet("stats").diameter - 1 = Len(Trace)
=============================================================================
