------------------------------ MODULE TraceV1 ------------------------------
(* Leg T for the v1 packages: recorded call/return events (trace_v1.ndjson) validated against V1Contract. *)
EXTENDS V1Contract, Json
Trace == ndJsonDeserialize("trace_v1.ndjson")
VARIABLE l
tvars == <<known, memo, l>>
TInit == V1Init /\ l = 1
Ev(n) == l <= Len(Trace) /\ Trace[l].ev = n /\ l' = l + 1
E == Trace[l]
TReset == /\ Ev("reset")
          /\ known' = <<>>
          /\ memo' = (IF E.keepmemo THEN memo ELSE <<>>)
TNew == Ev("new") /\ New(E.c)
TAdd == Ev("add") /\ AddValue(E.c, E)
TMM  == Ev("mm")  /\ MultipleMatch(E.c, E)
TNM  == Ev("nm")  /\ NearestMatch(E.c, E)
TFPM == Ev("fpm") /\ FindPotentialMatches(E)
TNext == TReset \/ TNew \/ TAdd \/ TMM \/ TNM \/ TFPM
TSpec == TInit /\ [][TNext]_tvars
TraceAccepted == TLCGet("stats").diameter - 1 = Len(Trace)
=============================================================================
