--------------------------- MODULE V2BackendProof ---------------------------
(* Unbounded companion of V2Backend.cfg: for ANY sets of runs and files and any number of entries per task, one lock for the
   backend keeps the critical sections of all tasks apart.  Checked by tlapm (TLAPS), not by TLC. *)
EXTENDS V2Backend, TLAPS

ASSUME OneLock == LockPerRun = FALSE
ASSUME NoneIsNoTask == NONE \notin Tasks

PCs == {"match", "read", "write", "unlock", "done"}
TypeOK == /\ holder \in [Locks -> Tasks \cup {NONE}]
          /\ pc \in [Tasks -> PCs]
Holds(t) == pc[t] \in {"read", "write", "unlock"}
IndInv == TypeOK /\ \A t \in Tasks : Holds(t) => holder["backend"] = t

LEMMA LocksIsBackend == Locks = {"backend"} /\ \A t \in Tasks : LockOf(t) = "backend"
  BY OneLock DEF Locks, LockOf

THEOREM InitInv == Init => IndInv
  BY LocksIsBackend DEF Init, IndInv, TypeOK, Holds, PCs

THEOREM StepInv == IndInv /\ [Next]_vars => IndInv'
<1> SUFFICES ASSUME IndInv, [Next]_vars PROVE IndInv'
  OBVIOUS
<1>1. CASE UNCHANGED vars
  BY <1>1 DEF IndInv, TypeOK, Holds, vars
<1>2. ASSUME NEW t \in Tasks, Lock(t) PROVE IndInv'
  BY <1>2, LocksIsBackend, NoneIsNoTask DEF Lock, IndInv, TypeOK, Holds, PCs
<1>3. ASSUME NEW t \in Tasks, Read(t) PROVE IndInv'
  BY <1>3, LocksIsBackend DEF Read, IndInv, TypeOK, Holds, PCs
<1>4. ASSUME NEW t \in Tasks, Write(t) PROVE IndInv'
  BY <1>4, LocksIsBackend DEF Write, IndInv, TypeOK, Holds, PCs
<1>5. ASSUME NEW t \in Tasks, Unlock(t) PROVE IndInv'
  BY <1>5, LocksIsBackend, NoneIsNoTask DEF Unlock, IndInv, TypeOK, Holds, PCs
<1>6. ASSUME NEW t \in Tasks, Finish(t) PROVE IndInv'
  BY <1>6, LocksIsBackend DEF Finish, IndInv, TypeOK, Holds, PCs
<1> QED BY <1>1, <1>2, <1>3, <1>4, <1>5, <1>6 DEF Next

THEOREM InvNoRace == IndInv => NoRace
  BY DEF IndInv, NoRace, InCS, Holds

THEOREM Safety == Spec => []NoRace
<1>1. Spec => []IndInv
  BY InitInv, StepInv, PTL DEF Spec
<1> QED BY <1>1, InvNoRace, PTL
=============================================================================
