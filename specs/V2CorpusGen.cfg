SPECIFICATION Spec
CONSTANTS MaxOps = 3
          Emit = TRUE
CHECK_DEADLOCK FALSE
