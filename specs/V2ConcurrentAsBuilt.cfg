SPECIFICATION Spec
CONSTANTS Procs = {"p1", "p2"}
          Docs = {"d1", "d2"}
          CopyBeforeDiff = FALSE
INVARIANTS NoRace
CHECK_DEADLOCK FALSE
