SPECIFICATION Spec
CONSTANTS Sigma <- SigmaB
          MaxLen = 5
          Emit = FALSE
INVARIANTS Recase Respace Decorate Typographic BlankLine TailLine
CHECK_DEADLOCK FALSE
