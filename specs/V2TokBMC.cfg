SPECIFICATION Spec
CONSTANTS Sigma <- SigmaB
          MaxLen = 5
          Emit = FALSE
INVARIANTS Recase Respace Decorate Typographic BlankLine
CHECK_DEADLOCK FALSE
