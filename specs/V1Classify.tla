----------------------------- MODULE V1Classify -----------------------------
(* S5, sequential part -- generator and contract of stringclassifier.MultipleMatch / NearestMatch for
   verbatim copies (C13).  Known values are token sequences over VTok (words, punctuation, regular-
   expression metacharacters); an unknown is ctx . v . ctx' (optionally . v2 . ctx'') with context
   tokens from CTok, which never occur in a value, so the planted copies are the only occurrences.
   Positions are in tokens here; the driver turns them into byte offsets of its concretisation
   (tokens joined by single blanks; or, for the character alphabet of V1ClassifyChars.cfg -- letters and the blank,
   the blank also a context character -- simply concatenated, so that values have blanks at their edges and copies
   start and end inside words of the unknown) and the recorded results are validated by TraceV1:
       every plant is reported with Confidence 1.0 and exactly its Offset/Extent; AddValue never panics;
       NearestMatch(value) returns a key holding that value at 1.0.                                   *)
EXTENDS Integers, Sequences, FiniteSets, TLC, Json

CONSTANTS VTok, CTok, MaxVal, MaxCtx

Seqs(S, n) == UNION {[1..k -> S] : k \in 1..n}
Values == Seqs(VTok, MaxVal)
Ctxs   == {<<>>} \cup Seqs(CTok, MaxCtx)

IsSubseq(a, b) == \E i \in 0..(Len(b) - Len(a)) : SubSeq(b, i + 1, i + Len(a)) = a

VARIABLES vals, unknown, plants, phase
vars == <<vals, unknown, plants, phase>>
Init == vals = <<>> /\ unknown = <<>> /\ plants = <<>> /\ phase = "vals"
AddVal == /\ phase = "vals" /\ Len(vals) < 2
          /\ \E v \in Values : /\ \A i \in 1..Len(vals) : ~IsSubseq(v, vals[i]) /\ ~IsSubseq(vals[i], v)   \* none occurs inside another
                               /\ vals' = Append(vals, v)
          /\ UNCHANGED <<unknown, plants, phase>>
(* the planted copies are the only occurrences of known values in u (for the token alphabets this holds by construction: context
   tokens never occur in a value; for the character alphabet, where a blank is both, it is what restricts the choice) *)
OnlyPlantedIn(u, pl) ==
   \A k \in 1..Len(vals) : \A i \in 0..(Len(u) - Len(vals[k])) :
      SubSeq(u, i + 1, i + Len(vals[k])) = vals[k] => \E j \in 1..Len(pl) : pl[j].k = k /\ pl[j].at = i
Build == /\ phase = "vals" /\ Len(vals) >= 1
         /\ \E c1 \in Ctxs, c2 \in Ctxs, k \in 1..Len(vals) :
               LET u == c1 \o vals[k] \o c2
                   pl == <<[k |-> k, at |-> Len(c1), n |-> Len(vals[k])]>>
               IN OnlyPlantedIn(u, pl) /\ unknown' = u /\ plants' = pl
         /\ phase' = "one" /\ UNCHANGED vals
Second == /\ phase = "one"
          /\ \E c3 \in Ctxs \ {<<>>}, k \in 1..Len(vals) :      \* a second copy, separated by at least one context token
                LET u == unknown \o c3 \o vals[k]
                    pl == Append(plants, [k |-> k, at |-> Len(unknown) + Len(c3), n |-> Len(vals[k])])
                IN OnlyPlantedIn(u, pl) /\ unknown' = u /\ plants' = pl
          /\ phase' = "two" /\ UNCHANGED vals
Emit == /\ phase \in {"one", "two"}
        /\ PrintT(ToJson([vals |-> vals, u |-> unknown, p |-> plants]))
        /\ phase' = "done" /\ UNCHANGED <<vals, unknown, plants>>
Next == AddVal \/ Build \/ Second \/ Emit
Spec == Init /\ [][Next]_vars

(* the generator keeps its promise: every plant is a verbatim occurrence, context never hides another one *)
PlantsAreCopies == \A i \in 1..Len(plants) : SubSeq(unknown, plants[i].at + 1, plants[i].at + plants[i].n) = vals[plants[i].k]
OnlyPlanted == phase \in {"one", "two"} =>
   \A k \in 1..Len(vals) : \A i \in 0..(Len(unknown) - Len(vals[k])) :
      SubSeq(unknown, i + 1, i + Len(vals[k])) = vals[k] => \E j \in 1..Len(plants) : plants[j].k = k /\ plants[j].at = i
=============================================================================
