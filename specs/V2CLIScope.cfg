SPECIFICATION Spec
CONSTANTS MaxArgs = 2
          MaxPats = 2
          Emit = FALSE
INVARIANTS InTree UnderAnArg DefaultCoversAll IgnoredDirHides
CHECK_DEADLOCK FALSE
