------------------------------- MODULE V2Retain -------------------------------
(* S2, the overlap filter of match() explored on its own: every SET of up to MaxC candidates over a small grid of
   confidences, line ranges, token spans and names is sorted with Matches.Less and filtered with the retain loop (both
   as built, V2RetainOps); the kept candidates, in order, are what Match must return when the same candidates are
   injected into the real match() (hook VerifCandidates).
   Confidences are quarters (c4/4: 0.5, 0.75, 1.0) so that float64(tokens) * confidence is exact and its order is the
   order of the integers tokens * c4. *)
EXTENDS V2RetainOps, TLC, Json, SequencesExt

CONSTANTS C4s,       \* confidences in quarters
          MaxLine,   \* lines 1..MaxLine
          Spans,     \* token spans <<st, et>>
          Names,     \* name ranks
          MaxC, Emit

Cands == {[c4 |-> c, sl |-> a, el |-> b, st |-> sp[1], et |-> sp[2], kr |-> n] :
            c \in C4s, a \in 1..MaxLine, b \in 1..MaxLine, sp \in Spans, n \in Names}
Valid(c) == c.sl <= c.el
(* the fields the loop reads: cr = c4, wr = (et - st) * c4 *)
Full(c) == [cr |-> c.c4, wr |-> (c.et - c.st) * c.c4, kr |-> c.kr, sl |-> c.sl, el |-> c.el, st |-> c.st, et |-> c.et]
Sorted(S) == SetToSortSeq({Full(c) : c \in S}, CLess)
Kept(S) == LET sq == Sorted(S)  bits == RetainLoop(sq) IN SelectSeq([i \in 1..Len(sq) |-> IF bits[i] THEN sq[i] ELSE [cr |-> 0]], LAMBDA x : x.cr # 0)

VARIABLES cs, phase
vars == <<cs, phase>>
Init == cs = {} /\ phase = "grow"
Grow == /\ phase = "grow" /\ Cardinality(cs) < MaxC
        /\ \E c \in Cands : Valid(c) /\ c \notin cs /\ cs' = cs \cup {c}
        /\ UNCHANGED phase
Tup(c) == <<c.cr, c.sl, c.el, c.st, c.et, c.kr>>
Out  == /\ phase = "grow" /\ Emit /\ cs # {} /\ phase' = "done" /\ UNCHANGED cs
        /\ LET sq == Sorted(cs)  k == Kept(cs) IN
           PrintT(ToJson([cands |-> [i \in 1..Len(sq) |-> Tup(sq[i])], kept |-> [i \in 1..Len(k) |-> Tup(k[i])]]))
Next == Grow \/ Out
Spec == Init /\ [][Next]_vars

(* what C01 and C03 rest on *)
Disjoint(a, b) == a.el < b.sl \/ b.el < a.sl
\* a candidate whose lines touch no other candidate's lines is reported (copies separated by unrelated text)
DisjointRetained == \A c \in cs : (\A o \in cs \ {c} : Disjoint(c, o)) => \E i \in 1..Len(Kept(cs)) : Kept(cs)[i] = Full(c)
\* something is always reported, the best candidate of the sort order is kept unless a heavier one that contains it is
NonEmpty == cs # {} => Len(Kept(cs)) >= 1
\* the result is in non-increasing confidence order (C03)
Ordered  == \A i \in 1..(Len(Kept(cs)) - 1) : Kept(cs)[i].cr >= Kept(cs)[i + 1].cr
\* of two kept candidates one of which line-contains the other, the inner one starts on the outer one's last line (the
\* "end and start lines exactly overlap" exception, cf. finding C06-split-on-shared-line) or they weigh the same
NoHeavierInside == \A i, j \in 1..Len(Kept(cs)) :
   (i # j /\ CContains(Kept(cs)[i], Kept(cs)[j]) /\ Kept(cs)[j].sl # Kept(cs)[i].el) => Kept(cs)[i].wr = Kept(cs)[j].wr

(* C01 with copies that share physical lines.  The copies of a file are full-confidence candidates with pairwise disjoint
   token spans whose lines follow their tokens (Copies).  The loop works on lines, not tokens: *)
TokDisjoint(a, b) == a.et < b.st \/ b.et < a.st
Copies == /\ \A c \in cs : c.c4 = 4
          /\ \A a, b \in cs : a # b => TokDisjoint(a, b) /\ (a.et < b.st => a.el <= b.sl)
AllKept == \A c \in cs : \E i \in 1..Len(Kept(cs)) : Kept(cs)[i] = Full(c)
\* holds: copies none of which has its lines inside another copy's lines are all reported, although their first and last
\* lines may be shared (the "start line = end line" exception)
TouchingCopiesKept == (Copies /\ \A a, b \in cs : a # b => ~CContains(Full(a), Full(b))) => AllKept
\* does NOT hold (V2RetainShared.cfg, expected violation; open finding C01-copy-inside-lines-of-heavier-copy): a short
\* copy that shares its only line with the first line of a longer copy is inside that copy's line range and is dropped
CopiesKept == Copies => AllKept
=============================================================================
