---------------------------- MODULE V2Concurrent ----------------------------
(* S4 -- goroutines calling Match on one v2 Classifier (C09), as an ownership model.

   Shared, read-only after construction: the corpus documents (tokens, runes, search sets), the
   dictionary, the docs map.  Private to a call: the tokenised input, its search set, candidates.
   The only place where a call hands memory to code that may WRITE it is docDiff: go-diff receives
   two rune slices and (v1.1.0, diffHalfMatchI) appends in place within the capacity of sub-slices
   of its arguments.  CopyBeforeDiff = FALSE: docDiff passes the corpus document's own rune array
   (as built before the fix); TRUE: it passes a private copy.
   One step per shared-memory access:  tok -> (read d ; diff d)* -> ret.                           *)
EXTENDS Integers, FiniteSets, TLC

CONSTANTS Procs, Docs, CopyBeforeDiff

VARIABLES pc,      \* proc -> "tok" | "read" | "diff" | "ret" | "done"
          cur,     \* proc -> document being scored
          todo,    \* proc -> documents still to score
          result   \* proc -> set of documents scored (the projection of Results)
vars == <<pc, cur, todo, result>>

Init == /\ pc = [p \in Procs |-> "tok"] /\ cur = [p \in Procs |-> "none"]
        /\ todo \in [Procs -> SUBSET Docs] /\ result = [p \in Procs |-> {}]

Tok(p)  == /\ pc[p] = "tok"                                     \* private work
           /\ pc' = [pc EXCEPT ![p] = IF todo[p] = {} THEN "ret" ELSE "read"]
           /\ UNCHANGED <<cur, todo, result>>
Read(p) == /\ pc[p] = "read"                                    \* prefilter / search set: reads of shared corpus data
           /\ \E d \in todo[p] : cur' = [cur EXCEPT ![p] = d] /\ todo' = [todo EXCEPT ![p] = @ \ {d}]
           /\ pc' = [pc EXCEPT ![p] = "diff"] /\ UNCHANGED result
Diff(p) == /\ pc[p] = "diff"                                    \* docDiff -> DiffMainRunes(input runes, document runes)
           /\ result' = [result EXCEPT ![p] = @ \cup {cur[p]}]
           /\ pc' = [pc EXCEPT ![p] = IF todo[p] = {} THEN "ret" ELSE "read"]
           /\ UNCHANGED <<cur, todo>>
Ret(p)  == pc[p] = "ret" /\ pc' = [pc EXCEPT ![p] = "done"] /\ UNCHANGED <<cur, todo, result>>
Next == \E p \in Procs : Tok(p) \/ Read(p) \/ Diff(p) \/ Ret(p)
Spec == Init /\ [][Next]_vars

(* next access of p to the rune array of document d *)
MayWrite(p, d) == pc[p] = "diff" /\ cur[p] = d /\ ~CopyBeforeDiff       \* the library may write inside the slice it was given
MayRead(p, d)  == (pc[p] = "diff" /\ cur[p] = d) \/ (pc[p] = "read" /\ d \in todo[p])
NoRace == \A p, q \in Procs : \A d \in Docs : p # q => ~(MayWrite(p, d) /\ (MayRead(q, d) \/ MayWrite(q, d)))
\* every call returns what it returns alone: the set of documents it had to score
SeqEquivalent == \A p \in Procs : pc[p] = "done" => result[p] \cup todo[p] = result[p]
=============================================================================
