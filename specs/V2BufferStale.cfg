SPECIFICATION Spec
CONSTANTS BufSize = 8
          Keep = 4
          MaxRunes = 3
          MaxPad = 20
          DecodeStale = TRUE
INVARIANTS ChunkedEqualsWhole
CHECK_DEADLOCK FALSE
