SPECIFICATION Spec
CONSTANTS Sigma <- SigmaA
          MaxLen = 5
          Emit = FALSE
INVARIANTS Recase Respace Decorate BlankLine NoticeIns Marker HyphenSplit
CHECK_DEADLOCK FALSE
