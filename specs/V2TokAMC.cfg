SPECIFICATION Spec
CONSTANTS Sigma <- SigmaA
          MaxLen = 5
          Emit = FALSE
INVARIANTS Recase Respace Decorate BlankLine NoticeIns Marker HyphenSplit TailLine
CHECK_DEADLOCK FALSE
