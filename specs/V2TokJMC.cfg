SPECIFICATION Spec
CONSTANTS Sigma <- SigmaJ
          MaxLen = 5
          Emit = FALSE
INVARIANTS Recase Respace Decorate
CHECK_DEADLOCK FALSE
