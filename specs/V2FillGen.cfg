SPECIFICATION Spec
CONSTANTS MaxReads = 3
          MaxK = 3
          Lens = {0, 1, 2, 4}
          Emit = TRUE
CHECK_DEADLOCK FALSE
