------------------------------ MODULE V2ScoreMC ------------------------------
EXTENDS V2Score
MCEq == {<<"a">>, <<"gnu">>, <<"version">>, <<"the", "standard", "version">>, <<"warranty", "a", "gnu">>,
         <<"is", "covered", "by", "the", "gnu">>, <<"subversion">>}
MCCh == {<<"a">>, <<"lesser">>, <<"library">>, <<"2.0">>, <<"2.0", "a">>, <<"apache">>, <<"bsd">>}
MCNames == {"X", "LGPL-2.0", "Apache-2.0", "BSD-3-Clause-Attribution"}
MCKnowns == << <<"a">>, <<"gnu", "lesser">>, <<"a", "a">>, <<"version", "2.0">>, <<"gnu", "library", "a">> >>
=============================================================================
