SPECIFICATION Spec
CONSTANTS Sigma <- MCSigma
          MaxLen = 3
          Emit = TRUE
CHECK_DEADLOCK FALSE
