------------------------------ MODULE V2CLIScope ------------------------------
(* S3 -- which files an identify_license run covers (v2/tools/identify_license: expandFiles, shouldIgnore, exactRegexMatch,
   parseIgnorePaths), as built:

     for every argument, in order: p := Abs(arg); filepath.Walk(p) in lexical order;
        a directory whose BASE NAME is matched completely by one of the -ignore_paths_re expressions is skipped with
        everything below it (also when it is the argument itself); a file is dropped when one of the expressions matches
        its complete ABSOLUTE PATH; an argument that does not exist aborts the whole expansion with an error.
     The flag is split at commas; its default "" is one expression that matches only the empty string, i.e. nothing.

   The tree is a subset of six candidate files below a root R (on disk a directory named RVS, so that the one expression that
   speaks about the path above a file cannot be matched by the scratch location; the name "c" is a file in R and a directory in R/a, so that
   "matches the base name of directories, the whole path of files" shows); arguments are given relative to R.
   TLC enumerates trees x argument lists x expression sets and prints the expected list; the Go driver materialises each case
   and calls the real expandFiles.  C19's "for each file" rests on this list. *)
EXTENDS Integers, Sequences, FiniteSets, TLC, Json, SequencesExt

CONSTANTS MaxArgs, MaxPats, Emit

(* candidate files, as paths (sequences of names) below R *)
Cand == { <<"x.txt">>, <<"c">>, <<"a", "x.txt">>, <<"a", "y.go">>, <<"a", "b", "z.txt">>, <<"a", "c", "w.txt">> }
ArgsC == { <<>>, <<"a">>, <<"x.txt">>, <<"a", "b">>, <<"c">>, <<"a", "c">> }         \* <<>> is "."
(* the expressions, with what they match completely *)
Pats == {"", "c", "a", ".*\\.go", ".*/RVS/a/.*", "(b|x\\.txt)", ".*/c", ".*/a/x\\.txt"}    \* the last two: a FILE that sorts before siblings that stay
EndsGo(n) == n = "y.go"
NameMatch(pat, n) == CASE pat = "" -> FALSE
                       [] pat = "c" -> n = "c"
                       [] pat = "a" -> n = "a"
                       [] pat = ".*\\.go" -> EndsGo(n)
                       [] pat = ".*/RVS/a/.*" -> FALSE                       \* a base name holds no separator
                       [] pat = "(b|x\\.txt)" -> n \in {"b", "x.txt"}
                       [] pat = ".*/c" -> FALSE
                       [] pat = ".*/a/x\\.txt" -> FALSE
(* a file is matched by its absolute path /.../R/<path> *)
PathMatch(pat, path) == CASE pat = "" -> FALSE
                          [] pat = "c" -> FALSE                           \* an absolute path is never just "c"
                          [] pat = "a" -> FALSE
                          [] pat = ".*\\.go" -> EndsGo(path[Len(path)])
                          [] pat = ".*/RVS/a/.*" -> Len(path) >= 2 /\ path[1] = "a"
                          [] pat = "(b|x\\.txt)" -> FALSE
                          [] pat = ".*/c" -> path[Len(path)] = "c"
                          [] pat = ".*/a/x\\.txt" -> path = <<"a", "x.txt">>
IgnDir(ps, n)     == \E p \in ps : NameMatch(p, n)
IgnFile(ps, path) == \E p \in ps : PathMatch(p, path)

IsPrefixOf(a, b) == Len(a) <= Len(b) /\ SubSeq(b, 1, Len(a)) = a
Lex == <<"a", "b", "c", "w.txt", "x.txt", "y.go", "z.txt">>                   \* the names, in lexical (byte) order
(* Walk of the node at `path` (a file of the tree, or a directory: a proper prefix of a file of the tree) *)
RECURSIVE Walk(_, _, _), Kids(_, _, _, _)
Walk(tree, ps, path) ==
  IF path \in tree THEN (IF IgnFile(ps, path) THEN <<>> ELSE <<path>>)
  ELSE IF path # <<>> /\ IgnDir(ps, path[Len(path)]) THEN <<>>                \* SkipDir; the root R itself has a name no expression matches
  ELSE Kids(tree, ps, path, 1)
Kids(tree, ps, path, i) ==
  IF i > Len(Lex) THEN <<>>
  ELSE LET k == Append(path, Lex[i]) IN
       (IF \E f \in tree : IsPrefixOf(k, f) THEN Walk(tree, ps, k) ELSE <<>>) \o Kids(tree, ps, path, i + 1)
Exists(tree, path) == \E f \in tree : IsPrefixOf(path, f)                    \* <<>> (R) always exists
RECURSIVE Expand(_, _, _, _)
Expand(tree, ps, args, i) ==
  IF i > Len(args) THEN [err |-> FALSE, files |-> <<>>]
  ELSE IF ~(args[i] = <<>> \/ Exists(tree, args[i])) THEN [err |-> TRUE, files |-> <<>>]
  ELSE LET rest == Expand(tree, ps, args, i + 1) IN
       IF rest.err THEN rest ELSE [err |-> FALSE, files |-> Walk(tree, ps, args[i]) \o rest.files]

VARIABLES tree, args, pats, phase
vars == <<tree, args, pats, phase>>
Init == /\ tree \in SUBSET Cand /\ pats \in {s \in SUBSET Pats : Cardinality(s) >= 1 /\ Cardinality(s) <= MaxPats}
        /\ args \in UNION {[1..n -> ArgsC] : n \in 1..MaxArgs} /\ phase = "go"
Out == /\ phase = "go" /\ phase' = "done" /\ UNCHANGED <<tree, args, pats>>
       /\ Emit => LET e == Expand(tree, pats, args, 1) IN
            PrintT(ToJson([tree |-> SetToSeq(tree), args |-> args, pats |-> SetToSeq(pats), err |-> e.err, files |-> e.files]))
Spec == Init /\ [][Out]_vars

E == Expand(tree, pats, args, 1)
InTree        == ~E.err => \A i \in 1..Len(E.files) : E.files[i] \in tree
UnderAnArg    == ~E.err => \A i \in 1..Len(E.files) : \E j \in 1..Len(args) : IsPrefixOf(args[j], E.files[i])
\* without expressions that match anything, every file below an argument is covered, once per argument that covers it
DefaultCoversAll == (~E.err /\ pats = {""}) =>
   \A f \in tree : Cardinality({i \in 1..Len(E.files) : E.files[i] = f}) = Cardinality({j \in 1..Len(args) : IsPrefixOf(args[j], f)})
\* an ignored directory hides everything below it, whatever the other expressions are
IgnoredDirHides == ~E.err => \A i \in 1..Len(E.files) : \A k \in 1..(Len(E.files[i]) - 1) : ~IgnDir(pats, E.files[i][k])
                                   \/ \E j \in 1..Len(args) : Len(args[j]) > k /\ IsPrefixOf(args[j], E.files[i])
=============================================================================
