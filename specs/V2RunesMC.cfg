SPECIFICATION Spec
CONSTANTS Ids <- BoundaryIds
          Emit = FALSE
INVARIANTS Lossless Injective NoSurrogate
CHECK_DEADLOCK FALSE
