SPECIFICATION Spec
CONSTANTS Sigma = {"sp", "nb", "p", "P3", "a", "E2", "C4", "X"}
          MaxLen = 3
          TextFromRune = TRUE
          Emit = FALSE
INVARIANTS TextAtOffset
CHECK_DEADLOCK FALSE
