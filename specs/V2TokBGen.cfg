SPECIFICATION Spec
CONSTANTS Sigma <- SigmaB
          MaxLen = 5
          Emit = TRUE
CHECK_DEADLOCK FALSE
