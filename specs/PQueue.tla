------------------------------ MODULE PQueue ------------------------------
(* S9b -- stringclassifier/internal/pq.Queue over container/heap, as built.
   The heap array a, the priorities and the indices reported through the
   setIndex callback are explicit; Up/Down transcribe container/heap's up/down
   (Go 1.x: heap.go), Swap/Push/Pop transcribe pqHeap.  Elements are ids with a
   mutable priority (the client changes the priority, then calls Fix).
   Indices are 0-based in the code and in idx; a is a 1-based TLA+ sequence. *)
EXTENDS Integers, Sequences, FiniteSets, TLC, Json, SequencesExt

CONSTANTS Ids,       \* element identities
          Prios,     \* priorities
          MaxDepth,  \* 0: unbounded, no history; k > 0: print every behaviour of length k
          MaxLen     \* bound on queue length

VARIABLES a,      \* heap array: sequence of ids
          prio,   \* id -> current priority (attribute of the element object)
          idx,    \* id -> last index reported through setIndex (-1: never reported)
          ret,    \* result of the last operation
          hist
vars == <<a, prio, idx, ret, hist>>
View == <<a, prio, idx, ret>>

InQ      == {a[i] : i \in 1..Len(a)}
Less(s, p, i, j) == p[s[i + 1]] < p[s[j + 1]]          \* 0-based i, j

(* pqHeap.Swap: exchanges and reports both new indices *)
SwapA(s, i, j) == [s EXCEPT ![i + 1] = s[j + 1], ![j + 1] = s[i + 1]]
SwapI(s, ix, i, j) == [ix EXCEPT ![s[j + 1]] = i, ![s[i + 1]] = j]   \* element formerly at j is now at i

(* state threaded through up/down: [s |-> array, ix |-> idx] *)
RECURSIVE Up(_, _, _)
Up(st, p, j) ==
  LET i == (j - 1) \div 2 IN
  IF j <= 0 \/ i = j \/ ~Less(st.s, p, j, i) THEN st
  ELSE Up([s |-> SwapA(st.s, i, j), ix |-> SwapI(st.s, st.ix, i, j)], p, i)

RECURSIVE Down(_, _, _, _)
Down(st, p, i, n) ==            \* returns [s, ix, i]: final position in field pos
  LET j1 == 2 * i + 1 IN
  IF j1 >= n THEN [s |-> st.s, ix |-> st.ix, pos |-> i]
  ELSE LET j2 == j1 + 1
           j  == IF j2 < n /\ Less(st.s, p, j2, j1) THEN j2 ELSE j1
       IN IF ~Less(st.s, p, j, i) THEN [s |-> st.s, ix |-> st.ix, pos |-> i]
          ELSE Down([s |-> SwapA(st.s, i, j), ix |-> SwapI(st.s, st.ix, i, j)], p, j, n)

Sorted(S) == SetToSortSeq(S, <)
Rec(op, x, p, r) ==
  LET rec == <<op, x, p, r, a', [i \in 1..Len(a') |-> prio'[a'[i]]], [i \in 1..Len(a') |-> idx'[a'[i]]]>>
  IN /\ hist' = IF MaxDepth = 0 THEN hist ELSE Append(hist, rec)
     /\ (MaxDepth > 0 /\ Len(hist') = MaxDepth) => PrintT(ToJson(hist'))
Bounded == MaxDepth = 0 \/ Len(hist) < MaxDepth

Init == /\ a = <<>>
        /\ prio = [x \in Ids |-> CHOOSE p \in Prios : \A q \in Prios : p <= q]
        /\ idx = [x \in Ids |-> -1]
        /\ ret = <<"Init", -1>>
        /\ hist = <<>>

(* heap.Push: h.Push(x) [setIndex(x, n); append] ; up(n) *)
PushOp(x, p) ==
  /\ Bounded /\ x \notin InQ /\ Len(a) < MaxLen
  /\ prio' = [prio EXCEPT ![x] = p]
  /\ LET n  == Len(a)
         st == Up([s |-> Append(a, x), ix |-> [idx EXCEPT ![x] = n]], prio', n)
     IN a' = st.s /\ idx' = st.ix
  /\ ret' = <<"Push", x>>
  /\ Rec("Push", x, p, -1)

(* heap.Pop: n := Len-1; Swap(0,n); down(0,n); h.Pop() (cuts the last element off) *)
PopOp ==
  /\ Bounded /\ Len(a) > 0
  /\ LET n  == Len(a) - 1
         s0 == [s |-> SwapA(a, 0, n), ix |-> SwapI(a, idx, 0, n)]
         st == Down(s0, prio, 0, n)
     IN /\ a' = SubSeq(st.s, 1, n)
        /\ idx' = st.ix                 \* the popped element keeps the stale index n (as built)
        /\ ret' = <<"Pop", st.s[n + 1]>>
  /\ UNCHANGED prio
  /\ Rec("Pop", ret'[2], -1, ret'[2])

(* client changes the priority of the element at index i (found through idx), then heap.Fix(i):
   if !down(i, n) then up(i) *)
FixOp(x, p) ==
  /\ Bounded /\ x \in InQ
  /\ prio' = [prio EXCEPT ![x] = p]
  /\ LET i  == idx[x]
         n  == Len(a)
         d  == Down([s |-> a, ix |-> idx], prio', i, n)
         st == IF d.pos > i THEN d ELSE Up([s |-> d.s, ix |-> d.ix], prio', i)
     IN a' = st.s /\ idx' = st.ix
  /\ ret' = <<"Fix", x>>
  /\ Rec("Fix", x, p, -1)

(* heap.Remove(i): n := Len-1; if n != i { Swap(i,n); if !down(i,n) { up(i) } }; h.Pop() *)
RemoveOp(x) ==
  /\ Bounded /\ x \in InQ
  /\ LET i  == idx[x]
         n  == Len(a) - 1
         st == IF n = i THEN [s |-> a, ix |-> idx]
               ELSE LET s0 == [s |-> SwapA(a, i, n), ix |-> SwapI(a, idx, i, n)]
                        d  == Down(s0, prio, i, n)
                    IN IF d.pos > i THEN d ELSE Up([s |-> d.s, ix |-> d.ix], prio, i)
     IN /\ a' = SubSeq(st.s, 1, n)
        /\ idx' = st.ix
        /\ ret' = <<"Remove", st.s[n + 1]>>
  /\ UNCHANGED prio
  /\ Rec("Remove", x, -1, ret'[2])

MinOp == /\ Bounded /\ Len(a) > 0
         /\ UNCHANGED <<a, prio, idx>>
         /\ ret' = <<"Min", a[1]>>
         /\ Rec("Min", ret'[2], -1, ret'[2])

Next == \/ \E x \in Ids, p \in Prios : PushOp(x, p) \/ FixOp(x, p)
        \/ \E x \in Ids : RemoveOp(x)
        \/ PopOp \/ MinOp
Spec == Init /\ [][Next]_vars

---------------------------------------------------------------------------
(* C20, queue half *)
HeapOrder   == \A i \in 1..(Len(a) - 1) : ~(prio[a[i + 1]] < prio[a[((i - 1) \div 2) + 1]])
IdxAccurate == \A i \in 1..Len(a) : idx[a[i]] = i - 1
NoDup       == Cardinality(InQ) = Len(a)
Inv         == HeapOrder /\ IdxAccurate /\ NoDup

\* Pop/Min return a minimal element; Pop/Remove remove exactly the returned element; Push adds exactly x; Fix conserves
PopsMin  == [][ret'[1] = "Pop" => \A y \in InQ : ~(prio[y] < prio[ret'[2]])]_View
MinIsMin == Len(a) > 0 => \A y \in InQ : ~(prio[y] < prio[a[1]])
Conserve == [][CASE ret'[1] = "Push"   -> ret'[2] \notin InQ /\ InQ' = InQ \cup {ret'[2]}
                 [] ret'[1] \in {"Pop", "Remove"} -> ret'[2] \in InQ /\ InQ' = InQ \ {ret'[2]}
                 [] OTHER -> InQ' = InQ]_View

---------------------------------------------------------------------------
(* Contract level: the arrangement of the heap array is not prescribed, only the
   statement of C20.  Used by TracePQueue (leg T): a re-implementation of the heap
   that keeps the property is accepted, one that breaks it is not.  The as-built
   Spec above refines this (that is what Inv, PopsMin, Conserve say). *)
Arr(a2, ix2, p2, S) ==
  /\ Len(a2) = Cardinality(S) /\ {a2[i] : i \in 1..Len(a2)} = S
  /\ \A i \in 1..Len(a2) : ix2[i] = i - 1                    \* reported indices, aligned with a2
CPush(x, p, a2, ix2) == /\ x \notin InQ
                        /\ prio' = [prio EXCEPT ![x] = p]
                        /\ Arr(a2, ix2, prio', InQ \cup {x})
                        /\ a' = a2 /\ ret' = <<"Push", x>>
CPop(r, a2, ix2)     == /\ r \in InQ /\ \A y \in InQ : ~(prio[y] < prio[r])
                        /\ Arr(a2, ix2, prio, InQ \ {r})
                        /\ a' = a2 /\ ret' = <<"Pop", r>> /\ UNCHANGED prio
CMin(r)              == /\ r \in InQ /\ \A y \in InQ : ~(prio[y] < prio[r])
                        /\ ret' = <<"Min", r>> /\ UNCHANGED <<a, prio>>
CFix(x, p, a2, ix2)  == /\ x \in InQ
                        /\ prio' = [prio EXCEPT ![x] = p]
                        /\ Arr(a2, ix2, prio', InQ)
                        /\ a' = a2 /\ ret' = <<"Fix", x>>
CRemove(x, r, a2, ix2) == /\ x \in InQ /\ r = x
                          /\ Arr(a2, ix2, prio, InQ \ {x})
                          /\ a' = a2 /\ ret' = <<"Remove", r>> /\ UNCHANGED prio
=============================================================================
