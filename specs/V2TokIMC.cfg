SPECIFICATION Spec
CONSTANTS Sigma <- SigmaI
          MaxLen = 5
          Emit = FALSE
INVARIANTS Respace Decorate BlankLine TailLine
CHECK_DEADLOCK FALSE
