SPECIFICATION Spec
CONSTANTS Sigma <- SigmaI
          MaxLen = 5
          Emit = FALSE
INVARIANTS Respace Decorate BlankLine TailLine FixpointDom
CHECK_DEADLOCK FALSE
