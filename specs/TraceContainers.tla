-------------------------- MODULE TraceContainers --------------------------
(* Leg T of C20 (sets): validates recorded operation sequences of the real
   StringSet / IntSet against the actions of Containers.  Every event carries the
   operation, its arguments, the returned value and the abstract value of all
   three slots read back through the public observers. *)
EXTENDS Containers
Trace == ndJsonDeserialize("trace_sets.ndjson")
VARIABLE l
tvars == <<slots, ret, hist, l>>

TInit == /\ slots = [s \in Slots |-> {}] /\ ret = NONE /\ hist = <<>> /\ l = 1
Ev(e) == l <= Len(Trace) /\ Trace[l].ev = e /\ l' = l + 1

TReset == /\ Ev("reset")
          /\ slots' = [s \in Slots |-> {}] /\ ret' = NONE /\ UNCHANGED hist
TOp == /\ Ev("op")
       /\ LET e == Trace[l]
              E == ToSet(e.elems)
          IN /\ CASE e.op = "Insert"   -> Insert(e.recv, E)
                  [] e.op = "Delete"   -> Delete(e.recv, E)
                  [] e.op \in BinOps   -> Bin(e.op, e.recv, e.arg)
                  [] e.op = "Copy"     -> Copy(e.recv)
                  [] e.op = "Disjoint" -> Disjoint(e.recv, e.arg)
                  [] e.op = "Equal"    -> Equal(e.recv, e.arg)
                  [] e.op = "Contains" -> ContainsOp(e.recv, e.elems[1])
                  [] e.op = "Len"      -> LenOp(e.recv)
                  [] e.op = "Empty"    -> Empty(e.recv)
                  [] e.op = "Elements" -> Elements(e.recv)
                  [] e.op = "Sorted"   -> SortedOp(e.recv)
             /\ ret' = e.ret                                      \* logged return value = the model's
             /\ slots' = [s \in Slots |-> ToSet(e[s])]            \* logged state = the model's
TNext == TReset \/ TOp
TSpec == TInit /\ [][TNext]_tvars
TraceAccepted == TLCGet("stats").diameter - 1 = Len(Trace)
=============================================================================
