------------------------------ MODULE V1Tokens ------------------------------
(* S6 -- stringclassifier/searchset/tokenizer.Tokenize, per rune, over byte-width classes:
     "sp"  ASCII space (1 byte)            "nb"  U+00A0 no-break space (2 bytes, unicode.IsSpace)
     "p"   ASCII punctuation (1 byte)      "P3"  a 3-byte punctuation rune (em dash)
     "a"   ASCII letter (1 byte)           "E2"  a 2-byte letter     "C4" a 4-byte letter
     "X"   a byte that is not valid UTF-8: DecodeRuneInString yields (RuneError, 1)
   A token is [off, blen, n]: byte offset, byte length of its Text, number of runes.
   TextFromRune = TRUE models the code that builds Text from the decoded rune (an invalid byte
   contributes the 3 bytes of U+FFFD); FALSE takes the source bytes s[i:i+size].
   C17, tokenizer half: TextAtOffset, Ordered, CoversNonSpace.                                    *)
EXTENDS Integers, Sequences, FiniteSets, TLC, Json

CONSTANTS Sigma, MaxLen, TextFromRune, Emit

Width(c) == CASE c \in {"sp", "p", "a", "X"} -> 1 [] c \in {"nb", "E2"} -> 2 [] c = "P3" -> 3 [] c = "C4" -> 4
TextWidth(c) == IF c = "X" /\ TextFromRune THEN 3 ELSE Width(c)
IsSpace(c) == c \in {"sp", "nb"}
IsPunct(c) == c \in {"p", "P3"}

NONE == [off |-> -1, blen |-> 0, n |-> 0]
S0 == [i |-> 0, cur |-> NONE, toks |-> <<>>]
Step(s, c) ==
  LET closed == IF s.cur.off >= 0 THEN Append(s.toks, s.cur) ELSE s.toks IN
  IF IsSpace(c) THEN [i |-> s.i + Width(c), cur |-> NONE, toks |-> closed]
  ELSE IF IsPunct(c) THEN [i |-> s.i + Width(c), cur |-> NONE,
                           toks |-> Append(closed, [off |-> s.i, blen |-> TextWidth(c), n |-> 1])]
  ELSE [i |-> s.i + Width(c), toks |-> s.toks,
        cur |-> [off |-> IF s.cur.off = -1 THEN s.i ELSE s.cur.off, blen |-> s.cur.blen + TextWidth(c), n |-> s.cur.n + 1]]
RECURSIVE Fold(_, _, _)
Fold(s, in, k) == IF k > Len(in) THEN s ELSE Fold(Step(s, in[k]), in, k + 1)
Tokenize(in) == LET s == Fold(S0, in, 1) IN IF s.cur.off >= 0 THEN Append(s.toks, s.cur) ELSE s.toks

RECURSIVE ByteLen(_)
ByteLen(in) == IF in = <<>> THEN 0 ELSE Width(Head(in)) + ByteLen(Tail(in))

VARIABLES in, phase
vars == <<in, phase>>
Init == in = <<>> /\ phase = "grow"
Grow == phase = "grow" /\ Len(in) < MaxLen /\ \E c \in Sigma : in' = Append(in, c) /\ UNCHANGED phase
Out  == /\ phase = "grow" /\ Emit /\ phase' = "done" /\ UNCHANGED in
        /\ PrintT(ToJson([i |-> in, t |-> [k \in 1..Len(Tokenize(in)) |-> <<Tokenize(in)[k].off, Tokenize(in)[k].blen>>]]))
Next == Grow \/ Out
Spec == Init /\ [][Next]_vars

(* byte offset of every rune and the property *)
RECURSIVE OffsFrom(_, _, _)
OffsFrom(s, k, o) == IF k > Len(s) THEN <<>> ELSE <<o>> \o OffsFrom(s, k + 1, o + Width(s[k]))
Offs == OffsFrom(in, 1, 0)
T == Tokenize(in)
\* the recorded offset and length reproduce the token's text from the string: the token spans exactly the
\* source bytes of its runes
TextAtOffset == \A k \in 1..Len(T) : \E r \in 1..Len(in) :
                   /\ Offs[r] = T[k].off
                   /\ r + T[k].n - 1 <= Len(in)
                   /\ T[k].blen = ByteLen(SubSeq(in, r, r + T[k].n - 1))
Ordered      == \A k \in 1..(Len(T) - 1) : T[k].off + T[k].blen <= T[k + 1].off
InString     == \A k \in 1..Len(T) : T[k].off >= 0 /\ T[k].off + T[k].blen <= ByteLen(in)
CoversNonSpace == \A r \in 1..Len(in) : ~IsSpace(in[r]) =>
                   \E k \in 1..Len(T) : T[k].off <= Offs[r] /\ Offs[r] + Width(in[r]) <= T[k].off + T[k].blen
=============================================================================
