------------------------------- MODULE V2Fill -------------------------------
(* S1, lowest layer -- fill(), the loop that refills the tokenizer's read buffer (v2/tokenizer.go, since fix 2bbb358):

     for n < len(buf) { nn, e := src.Read(buf[n:]); n += nn
                        if e == io.EOF { return n, true, nil };  if e != nil { return n, false, e } }
     return n, false, nil

   A reader is a script: the k-th Read delivers Script[k].k bytes (never more than there is room for) and the result
   Script[k].e -- "nil", "EOF", "ERR" (the reader's own error), "UEOF" (the reader's own io.ErrUnexpectedEOF: a truncated
   compressed stream; io.ReadFull, which this loop replaced, took it for the end of the input), also TOGETHER with bytes,
   and also (0, nil): the io.Reader contract discourages an empty read without error but allows it, it is not an end
   and not a failure.  A script that is used up answers (0, EOF).
   C08 rests on: every byte a Read delivered is counted, in order; the end of the input is reported exactly when the
   reader said EOF; any other error is the result, whatever came with it; no Read after the buffer is full. *)
EXTENDS Integers, Sequences, TLC, Json

CONSTANTS MaxReads, MaxK, Lens, Emit

Errs == {"nil", "EOF", "ERR", "UEOF"}
ReadRes == [k : 0..MaxK, e : Errs]

VARIABLES script, L, n, reads, pc, res
vars == <<script, L, n, reads, pc, res>>

Init == /\ \E m \in 0..MaxReads : script \in [1..m -> ReadRes]
        /\ L \in Lens /\ n = 0 /\ reads = 0 /\ pc = "loop" /\ res = <<>>

Answer == IF reads < Len(script) THEN script[reads + 1] ELSE [k |-> 0, e |-> "EOF"]
Min(a, b) == IF a < b THEN a ELSE b

Read == /\ pc = "loop" /\ n < L
        /\ LET a == Answer  nn == Min(a.k, L - n) IN
           /\ n' = n + nn /\ reads' = reads + 1
           /\ IF a.e = "EOF" THEN pc' = "done" /\ res' = [n |-> n + nn, eof |-> TRUE, err |-> "nil"]
              ELSE IF a.e # "nil" THEN pc' = "done" /\ res' = [n |-> n + nn, eof |-> FALSE, err |-> a.e]
              ELSE UNCHANGED <<pc, res>>
        /\ UNCHANGED <<script, L>>
Full == /\ pc = "loop" /\ n >= L /\ pc' = "done" /\ res' = [n |-> n, eof |-> FALSE, err |-> "nil"]
        /\ UNCHANGED <<script, L, n, reads>>
Out  == /\ pc = "done" /\ Emit /\ pc' = "out"
        /\ PrintT(ToJson([script |-> [i \in 1..Len(script) |-> <<script[i].k, script[i].e>>], len |-> L,
                          n |-> res.n, eof |-> res.eof, err |-> res.err, reads |-> reads]))
        /\ UNCHANGED <<script, L, n, reads, res>>
Next == Read \/ Full \/ Out
Spec == Init /\ [][Next]_vars /\ WF_vars(Next)

(* bytes delivered by the first r reads of the script into a buffer of L bytes *)
RECURSIVE Delivered(_, _)
Delivered(r, sofar) == IF r = 0 THEN 0 ELSE LET d == Delivered(r - 1, 0) IN
                          d + Min(IF r <= Len(script) THEN script[r].k ELSE 0, L - d)
Done == pc \in {"done", "out"}
CountsEveryByte == Done => res.n = Delivered(reads, 0) /\ res.n <= L
EofIffReaderSaidSo == Done => (res.eof <=> (reads > 0 /\ (IF reads <= Len(script) THEN script[reads].e ELSE "EOF") = "EOF"))
ErrorIsTheReaders == Done => /\ (res.err # "nil" => ~res.eof /\ reads > 0 /\ reads <= Len(script) /\ script[reads].e = res.err)
                            /\ (res.err = "nil" /\ ~res.eof => res.n = L)
\* nothing is read once the buffer is full, and no earlier answer was an end or a failure
NoReadBeyond == Done => \A r \in 1..(reads - 1) : r <= Len(script) => script[r].e = "nil" /\ Delivered(r, 0) < L
\* an empty read without error is neither an end nor a failure: the loop goes on
EmptyReadGoesOn == [][(pc = "loop" /\ n < L /\ Answer = [k |-> 0, e |-> "nil"]) => pc' = "loop"]_vars
\* a script is finite and a used-up script says EOF: the loop ends
Terminates == <>(pc \in {"done", "out"})
(* as it was with io.ReadFull (must fail, V2FillReadFull.cfg): the reader's own ErrUnexpectedEOF is taken for the end *)
ReadFullTreatsUEOFAsEnd == Done => ~(reads > 0 /\ reads <= Len(script) /\ script[reads].e = "UEOF")
=============================================================================
