SPECIFICATION Spec
CONSTANTS BufSize = 8
          Keep = 2
          MaxRunes = 3
          MaxPad = 12
          DecodeStale = FALSE
INVARIANTS NoSplitRune
CHECK_DEADLOCK FALSE
