SPECIFICATION Spec
CONSTANTS Callers = {"c1", "c2", "c3"}
          Values = {"k1", "k2"}
          CheckOutsideLock = FALSE
INVARIANTS NoRace SetWhenUsed LazyOnce
PROPERTY Terminates
CHECK_DEADLOCK FALSE
