------------------------------ MODULE V2CLILines ------------------------------
(* S3 -- results.readFileLines, the text the JSON report quotes with -include_text, as built:
     a bufio.Scanner with ScanLines cuts the file at every "\n", drops one "\r" in front of the cut (and at the end of an
     unterminated last line), does not count an empty remainder after the last "\n" as a line;
     i counts lines from 1; lines startLine..endLine are concatenated, each followed by "\n"; the loop leaves at i > endLine;
     an error is returned when the file has fewer than endLine lines.
   C19: for 1 <= StartLine <= EndLine <= lines of the file, Text is exactly those lines (LinesQuoted). *)
EXTENDS Integers, Sequences, TLC, Json

CONSTANTS MaxLen, MaxLine, Emit
Chars == {"a", "b", "CR", "LF"}

DropCR(l) == IF Len(l) > 0 /\ l[Len(l)] = "CR" THEN SubSeq(l, 1, Len(l) - 1) ELSE l
(* ScanLines over the whole content *)
RECURSIVE Cut(_, _)
Cut(c, cur) == IF c = <<>> THEN (IF cur = <<>> THEN <<>> ELSE <<DropCR(cur)>>)
               ELSE IF Head(c) = "LF" THEN <<DropCR(cur)>> \o Cut(Tail(c), <<>>)
               ELSE Cut(Tail(c), Append(cur, Head(c)))
Lines(c) == Cut(c, <<>>)
RECURSIVE Quote(_, _, _)
Quote(ls, k, hi) == IF k > hi \/ k > Len(ls) THEN <<>> ELSE ls[k] \o <<"LF">> \o Quote(ls, k + 1, hi)
Read(c, sl, el) == LET ls == Lines(c) IN
                   IF Len(ls) < el THEN [err |-> TRUE, text |-> <<>>]
                   ELSE [err |-> FALSE, text |-> Quote(ls, IF sl < 1 THEN 1 ELSE sl, el)]

VARIABLES content, sl, el, phase
vars == <<content, sl, el, phase>>
Init == /\ content \in UNION {[1..n -> Chars] : n \in 0..MaxLen} /\ sl \in 0..MaxLine /\ el \in 0..MaxLine /\ phase = "go"
Out == /\ phase = "go" /\ phase' = "done" /\ UNCHANGED <<content, sl, el>>
       /\ Emit => PrintT(ToJson([c |-> content, sl |-> sl, el |-> el, err |-> Read(content, sl, el).err, text |-> Read(content, sl, el).text]))
Spec == Init /\ [][Out]_vars

(* the file's lines as Match counts them: cut at LF only; a last piece without LF is a line when it is not empty *)
RECURSIVE RawCut(_, _)
RawCut(c, cur) == IF c = <<>> THEN (IF cur = <<>> THEN <<>> ELSE <<cur>>)
                  ELSE IF Head(c) = "LF" THEN <<cur>> \o RawCut(Tail(c), <<>>) ELSE RawCut(Tail(c), Append(cur, Head(c)))
LinesQuoted == LET raw == RawCut(content, <<>>)  r == Read(content, sl, el) IN
   (1 <= sl /\ sl <= el /\ el <= Len(raw)) =>
       /\ ~r.err
       /\ r.text = Quote([i \in 1..Len(raw) |-> DropCR(raw[i])], sl, el)      \* exactly those lines, their terminator normalised to LF
NoErrorInRange == (el <= Len(Lines(content))) => ~Read(content, sl, el).err
=============================================================================
