---------------------------- MODULE TracePQueue ----------------------------
(* Leg T of C20 (queue): validates a recorded NDJSON trace of the real pq.Queue
   against the contract-level actions of PQueue.  Events carry the white-box heap
   array (ids), the priorities and the reported indices after every operation. *)
EXTENDS PQueue
Trace == ndJsonDeserialize("trace_pq.ndjson")
VARIABLE l
tvars == <<a, prio, idx, ret, hist, l>>

TInit == Init /\ l = 1
Ev(e) == l <= Len(Trace) /\ Trace[l].ev = e /\ l' = l + 1

TReset == /\ Ev("reset")
          /\ a' = <<>> /\ prio' = [x \in Ids |-> 1] /\ idx' = [x \in Ids |-> -1]
          /\ ret' = <<"Init", -1>> /\ UNCHANGED hist
TOp == /\ Ev("op")
       /\ LET e == Trace[l] IN
          /\ CASE e.op = "Push"   -> CPush(e.x, e.p, e.a, e.ix)
               [] e.op = "Pop"    -> CPop(e.ret, e.a, e.ix)
               [] e.op = "Min"    -> CMin(e.ret)
               [] e.op = "Fix"    -> CFix(e.x, e.p, e.a, e.ix)
               [] e.op = "Remove" -> CRemove(e.x, e.ret, e.a, e.ix)
          \* logged priorities must be the model's (the element objects were not corrupted)
          /\ \A i \in 1..Len(e.a) : e.pr[i] = prio'[e.a[i]]
       /\ UNCHANGED <<idx, hist>>
TNext == TReset \/ TOp
TSpec == TInit /\ [][TNext]_tvars

\* after every step the next Pop/Min must be able to return a minimal element from the root
RootIsMin == Len(a) > 0 => \A y \in InQ : ~(prio[y] < prio[a[1]])
TraceAccepted == TLCGet("stats").diameter - 1 = Len(Trace)
=============================================================================
