SPECIFICATION Spec
CONSTANTS MaxReads = 3
          MaxK = 3
          Lens = {0, 1, 2, 4}
          Emit = FALSE
INVARIANTS CountsEveryByte EofIffReaderSaidSo ErrorIsTheReaders NoReadBeyond
PROPERTIES EmptyReadGoesOn Terminates
CHECK_DEADLOCK FALSE
