SPECIFICATION Spec
CONSTANTS Sigma <- SigmaE
          MaxLen = 5
          Emit = TRUE
CHECK_DEADLOCK FALSE
