SPECIFICATION Spec
CONSTANTS Sigma <- SigmaE
          MaxLen = 5
          Emit = FALSE
INVARIANTS Recase Decorate
CHECK_DEADLOCK FALSE
