------------------------------ MODULE TraceV2 ------------------------------
(* Leg T for the v2 API: a recorded NDJSON history of real calls (trace_v2.ndjson) is accepted iff
   every event is a step of V2Contract.  Events are fully logged, so the search is linear. *)
EXTENDS V2Contract, Json
Trace == ndJsonDeserialize("trace_v2.ndjson")
VARIABLE l
tvars == <<corpus, last, plants, memo, scores, retained, l>>
TInit == CInit /\ l = 1
Ev(n) == l <= Len(Trace) /\ Trace[l].ev = n /\ l' = l + 1
E == Trace[l]

TReset  == /\ Ev("reset")
           /\ last' = <<>> /\ plants' = <<>> /\ scores' = <<>> /\ retained' = <<>>
           /\ corpus' = (IF E.keepcorpus THEN corpus ELSE <<>>)
           /\ memo' = (IF E.keepmemo THEN memo ELSE <<>>)
TNew    == Ev("new")   /\ New(E.c)
TAdd    == Ev("add")   /\ AddContent(E.c, E.key, E)
TNorm   == Ev("norm")  /\ NormalizeRet(E)
TPlant  == Ev("plant") /\ Plant(E.in, [t |-> E.t, name |-> E.name, st |-> E.st, et |-> E.et, sl |-> E.sl, el |-> E.el])
TMatch  == Ev("match") /\ MatchReturn(E.c, E.in, E)
TFail   == Ev("fail")  /\ MatchFail(E)
TScore  == Ev("score") /\ ScoreRet(E.in, E)
TPair   == Ev("pair")  /\ Pair(E)
TRetain == Ev("retain") /\ RetainRet(E.in, E)
TNext == TReset \/ TNew \/ TAdd \/ TNorm \/ TPlant \/ TMatch \/ TFail \/ TScore \/ TPair \/ TRetain
TSpec == TInit /\ [][TNext]_tvars
TraceAccepted == TLCGet("stats").diameter - 1 = Len(Trace)
=============================================================================
