---------------------------- MODULE V2Contract ----------------------------
(* S3 -- the public v2 API as a state machine over call/return histories.

   Abstract state: the corpus of every classifier (set of document keys
   "type/name/variant"), the last result per input, planted copies per input, a
   memo of results per (corpus class, input) and the accepted score scripts per
   input.  One action per API call as observed by the drivers.  Floats never
   enter the model: a confidence is an order-preserving rank (r) among the
   values {confidences of this result, threshold, 1.0} plus its bit pattern (cb)
   for equality; thr and one are the ranks of the threshold and of 1.0.

   The properties C01-C08, C10-C12 are the guards of these actions: a recorded
   execution is accepted by TraceV2 iff every call satisfied them.  Deviations of
   the code as built that are recorded as open findings are named disjuncts
   guarded by the Dev* constants.                                              *)
EXTENDS Integers, Sequences, FiniteSets, TLC, SequencesExt, V2RetainOps

CONSTANTS DevNoticeInSpan,     \* open finding C06: a notice line inside a retained match's line span is not reported
          DevClampShift,       \* open finding C07: fuseRanges clamps negative offsets only at the start of the input
          DevC11HyphenToken,   \* open finding C11: a token ending in "-" that ends a line of Normalize's output is re-joined
          DevC11CleanedNotice, \* open finding C11: the cleaned words of a line read as a copyright notice
          DevLineTouchSplit    \* open finding C06: the retain loop's "start line = end line" exception depends on where lines break

VARIABLES corpus,   \* classifier -> set of keys
          last,     \* input id -> result record of the most recent Match/MatchFrom on it
          plants,   \* input id -> set of planted copies
          memo,     \* memo key -> result
          scores,   \* input id -> set of accepted score summaries
          retained  \* input id -> the candidates the retain loop kept, in order (hook event `retain`)
cvars == <<corpus, last, plants, memo, scores, retained>>

ONEBITS == "3ff0000000000000"
Rng(f) == {f[x] : x \in DOMAIN f}
NonCopy(ms) == SelectSeq(ms, LAMBDA m : m.t # "Copyright")
Copy(ms)    == SelectSeq(ms, LAMBDA m : m.t = "Copyright")
BagOf(sq)   == [x \in Rng(sq) |-> Cardinality({i \in DOMAIN sq : sq[i] = x})]
Get(f, k, d) == IF k \in DOMAIN f THEN f[k] ELSE d
Put(f, k, v) == [x \in DOMAIN f \cup {k} |-> IF x = k THEN v ELSE f[x]]

CInit == corpus = <<>> /\ last = <<>> /\ plants = <<>> /\ memo = <<>> /\ scores = <<>> /\ retained = <<>>

---------------------------------------------------------------------------
(* C03: nothing below the threshold; every result is well formed *)
WellFormed(c, e) ==
  /\ \A i \in 1..Len(e.ms) : LET m == e.ms[i] IN
        IF m.t = "Copyright"
        THEN m.r = e.one /\ m.cb = ONEBITS /\ m.sl = m.el /\ 1 <= m.sl /\ m.sl <= e.nlines
        ELSE /\ e.thr <= m.r /\ m.r <= e.one
             /\ m.k \in Get(corpus, c, {})
             /\ 1 <= m.sl /\ m.sl <= m.el /\ m.el <= e.total /\ e.total <= e.nlines
             /\ 0 <= m.st /\ m.st <= m.et /\ m.et < e.nwords
  /\ \A i \in 1..(Len(e.ms) - 1) : e.ms[i].r >= e.ms[i + 1].r            \* non-increasing confidence
  /\ e.total <= e.nlines
  \* "number of input words": the white-box token count, which itself is bounded by the white-space separated pieces of the
  \* input (a piece gives at most one word; recorded independently of the tokenizer)
  /\ ("nfields" \in DOMAIN e => e.nwords <= e.nfields)

(* C04: Match / MatchFrom have no effect on the classifier or the caller's bytes *)
PureMatch(e) == e.unchanged /\ e.docs[1] = e.docs[2] /\ e.dict[1] = e.dict[2]
PureGrow(e)  == e.unchanged /\ e.dict[1] <= e.dict[2]

Proj(e) == [total |-> e.total, ms |-> [i \in 1..Len(e.ms) |->
             [k |-> e.ms[i].k, cb |-> e.ms[i].cb, sl |-> e.ms[i].sl, el |-> e.ms[i].el, st |-> e.ms[i].st, et |-> e.ms[i].et]]]

(* C01: every planted copy is reported whole at confidence exactly 1.0 *)
PlantedFound(in, e) ==
  \A p \in Get(plants, in, {}) :
     \E i \in 1..Len(e.ms) : LET m == e.ms[i] IN
        /\ m.t = p.t /\ m.name = p.name
        /\ m.cb = ONEBITS /\ m.r = e.one
        /\ m.st = p.st /\ m.et = p.et /\ m.sl = p.sl /\ m.el = p.el

(* C02: every reported non-Copyright match is backed by an accepted score script *)
Scored(in, e) ==
  e.scored =>
  \A i \in 1..Len(e.ms) : LET m == e.ms[i] IN
     m.t # "Copyright" =>
        \E s \in Get(scores, in, {}) :
           /\ s.doc = m.k /\ s.st = m.st /\ s.et = m.et
           /\ s.cb = m.cb                                  \* bit pattern of 1 - dist/klen, computed by the recorder from s.dist, s.klen
           /\ m.sl = e.lines[m.st + 1] /\ m.el = e.lines[m.et + 1]

(* the returned matches are exactly the candidates the retain loop kept, in their order *)
FromRetain(in, e) ==
  in \in DOMAIN retained =>
     [i \in 1..Len(e.ms) |-> <<e.ms[i].st, e.ms[i].et, e.ms[i].sl, e.ms[i].el>>] = retained[in]

MatchReturn(c, in, e) ==
  /\ e.err = "nil"
  /\ FromRetain(in, e)
  /\ WellFormed(c, e)
  /\ PureMatch(e)
  /\ PlantedFound(in, e)
  /\ Scored(in, e)
  /\ IF e.memo = "" THEN UNCHANGED memo
     ELSE IF e.memo \in DOMAIN memo THEN Proj(e) = memo[e.memo] /\ UNCHANGED memo
     ELSE memo' = Put(memo, e.memo, Proj(e))
  /\ last' = Put(last, in, [ms |-> e.ms, total |-> e.total, one |-> e.one])
  /\ UNCHANGED <<corpus, plants, scores, retained>>

(* C08: a failing reader: the error comes back, and no matches *)
MatchFail(e) == e.err # "nil" /\ e.err = e.want /\ Len(e.ms) = 0 /\ e.total = 0 /\ UNCHANGED cvars

New(c)         == corpus' = Put(corpus, c, {}) /\ UNCHANGED <<last, plants, memo, scores, retained>>
AddContent(c, key, e) == /\ PureGrow(e)
                         /\ corpus' = Put(corpus, c, Get(corpus, c, {}) \cup {key})
                         /\ UNCHANGED <<last, plants, memo, scores, retained>>
(* what Normalize returned earlier is the caller's: a later call leaves it as it was (held; recorded from the very slices) *)
HeldIntact(e) == "held" \in DOMAIN e => e.held
NormalizeRet(e) == PureGrow(e) /\ e.docs[1] = e.docs[2] /\ HeldIntact(e) /\ UNCHANGED cvars
Plant(in, p)   == plants' = Put(plants, in, Get(plants, in, {}) \cup {p}) /\ UNCHANGED <<corpus, last, memo, scores, retained>>

---------------------------------------------------------------------------
(* C02: an edit script, checked linearly.  ops[i] = <<type, n>> with type in {"=", "-", "+"}:
   "=" n equal words, "-" n words only in T (the input range), "+" n words only in K (the document). *)
RECURSIVE ValidFrom(_, _, _, _, _)
ValidFrom(ops, T, K, i, j) ==        \* i, j: words consumed so far in T, K; ops consumed from the front
  IF ops = <<>> THEN i = Len(T) /\ j = Len(K)
  ELSE LET ty == ops[1][1]  n == ops[1][2] IN
       CASE ty = "=" -> /\ i + n <= Len(T) /\ j + n <= Len(K)
                        /\ SubSeq(T, i + 1, i + n) = SubSeq(K, j + 1, j + n)
                        /\ ValidFrom(Tail(ops), T, K, i + n, j + n)
         [] ty = "-" -> i + n <= Len(T) /\ ValidFrom(Tail(ops), T, K, i + n, j)
         [] ty = "+" -> j + n <= Len(K) /\ ValidFrom(Tail(ops), T, K, i, j + n)
         [] OTHER -> FALSE
Valid(ops, T, K) == ValidFrom(ops, T, K, 0, 0)

Max2(a, b) == IF a > b THEN a ELSE b
RECURSIVE CostFrom(_, _, _, _)
CostFrom(ops, i, ins, del) ==        \* the code's diffLevenshteinWord
  IF i > Len(ops) THEN Max2(ins, del)
  ELSE CASE ops[i][1] = "+" -> CostFrom(ops, i + 1, ins + ops[i][2], del)
         [] ops[i][1] = "-" -> CostFrom(ops, i + 1, ins, del + ops[i][2])
         [] OTHER           -> Max2(ins, del) + CostFrom(ops, i + 1, 0, 0)
Cost(ops) == CostFrom(ops, 1, 0, 0)
RECURSIVE SumLen(_)
SumLen(ops) == IF ops = <<>> THEN 0 ELSE ops[1][2] + SumLen(Tail(ops))
OnlyDeletes(ops) == \A i \in 1..Len(ops) : ops[i][1] = "-"

(* one recorded call of score(): start/end are the code's diffRange indices (0-based, end exclusive) *)
ScoreOK(e) ==
  LET pre == SubSeq(e.ops, 1, e.start)
      mid == SubSeq(e.ops, e.start + 1, e.end)
      suf == SubSeq(e.ops, e.end + 1, Len(e.ops))
  IN /\ Valid(e.ops, e.T, e.K)                       \* the library returned an edit script from T[ts,te) to K
     /\ OnlyDeletes(pre) /\ OnlyDeletes(suf)           \* what is trimmed is input text only, so mid is a script from R to K
     /\ e.so = SumLen(pre) /\ e.eo = SumLen(suf)
     /\ e.dist >= 0 => e.dist = Cost(mid)              \* hence dist >= Lev(R, K)  (lemma EditLemma.tla)
     /\ e.klen = Len(e.K) /\ e.klen > 0
ScoreRet(in, e) ==
  /\ ScoreOK(e)
  /\ scores' = Put(scores, in, Get(scores, in, {}) \cup
                   {[doc |-> e.doc, st |-> e.ts + e.so, et |-> e.te - e.eo - 1, dist |-> e.dist, klen |-> e.klen, cb |-> e.cb]})
  /\ UNCHANGED <<corpus, last, plants, memo, retained>>

---------------------------------------------------------------------------
(* The retain loop of match(), transcribed as built, on the candidates recorded by the `retain` hook.
   A candidate is [cr, wr, kr, sl, el, st, et]: rank of its confidence, rank of float64(et - st) * confidence
   (the "token density" the loop compares, ranked by the recorder with the code's own float expression),
   rank of (MatchType, Name, Variant) in Go's string order, lines, token span. *)
RetainRet(in, e) ==
  /\ \A i \in 1..(Len(e.cands) - 1) : ~CLess(e.cands[i + 1], e.cands[i])             \* sorted
  /\ e.bits = RetainLoop(e.cands)                                                       \* the loop kept what the transcription keeps
  /\ LET idx  == SelectSeq([i \in 1..Len(e.cands) |-> i], LAMBDA i : e.bits[i])
     IN retained' = Put(retained, in, [n \in 1..Len(idx) |-> <<e.cands[idx[n]].st, e.cands[idx[n]].et, e.cands[idx[n]].sl, e.cands[idx[n]].el>>])
  /\ UNCHANGED <<corpus, last, plants, memo, scores>>

---------------------------------------------------------------------------
(* Metamorphic relations (C05 C06 C07 C08 C11 C12): result b must be result a moved by dtok tokens and
   mapped through lmap (old line -> new line).  Compared as bags: order among ties is C03/C04's business. *)
Moved(ms, dtok, lmap) ==
  [i \in 1..Len(ms) |-> [k |-> ms[i].k, cb |-> ms[i].cb, st |-> ms[i].st + dtok, et |-> ms[i].et + dtok,
                         sl |-> lmap[ms[i].sl], el |-> lmap[ms[i].el]]]
Strip(ms) == [i \in 1..Len(ms) |-> [k |-> ms[i].k, cb |-> ms[i].cb, st |-> ms[i].st, et |-> ms[i].et, sl |-> ms[i].sl, el |-> ms[i].el]]
NoLines(ms) == [i \in 1..Len(ms) |-> [k |-> ms[i].k, cb |-> ms[i].cb, st |-> ms[i].st, et |-> ms[i].et]]
LinesOf(ms) == [i \in 1..Len(ms) |-> ms[i].sl]

InSpan(L, ms) == \E i \in 1..Len(ms) : ms[i].sl <= L /\ L <= ms[i].el
BagLeq(a, b) == \A x \in DOMAIN a : x \in DOMAIN b /\ a[x] <= b[x]

PairCore(e) ==
  LET a == last[e.a]  b == last[e.b]
      la == NonCopy(a.ms)  lb == NonCopy(b.ms)
      ca == [i \in 1..Len(Copy(a.ms)) |-> e.lmap[Copy(a.ms)[i].sl]]          \* a's notice lines, mapped
      want == ca \o e.notices                                               \* plus the notices the transformation inserted
      got  == LinesOf(Copy(b.ms))
  IN /\ IF e.nolines THEN BagOf(NoLines(Moved(la, e.dtok, e.lmap))) = BagOf(NoLines(Strip(lb)))   \* C06: names, confidences, token spans
        ELSE BagOf(Moved(la, e.dtok, e.lmap)) = BagOf(Strip(lb))
     /\ e.align = ""                                                        \* C11: line k of Normalize(in) holds Match's words of line k
     /\ e.nocopy \/ BagOf(want) = BagOf(got)
           \/ ( DevNoticeInSpan                                             \* as built (open finding): notices inside a
                /\ BagLeq(BagOf(got), BagOf(want))                           \* retained match's span are swallowed
                /\ \A L \in Rng(want) :
                      Get(BagOf(got), L, 0) < BagOf(want)[L] => InSpan(L, lb)
                /\ PrintT(<<"DEV", "DevNoticeInSpan", e.a, e.b>>) )

(* C07 as built: the matches that differ belong to documents whose stand-alone run went through the
   negative-offset clamp of fuseRanges (hook event `clamp`), or overlap such a match *)
ClampSig(e) ==
  LET A == Rng(Moved(NonCopy(last[e.a].ms), e.dtok, e.lmap))
      B == Rng(Strip(NonCopy(last[e.b].ms)))
      D == (A \ B) \cup (B \ A)
      C == {x \in D : x.k \in Rng(e.clampsA)}
  IN /\ C # {} /\ \A x \in D \ C : \E y \in C : ~(x.el < y.sl \/ y.el < x.sl)
     /\ C \cap B = {} \/ C \cap A # {}     \* the recorded finding: a clamped document is matched alone but not behind other text

(* C06 as built: the retain loop keeps a partially overlapping lower-confidence match only when it starts on the very
   line the retained match ends on (Scan: c.sl # o.el).  Splitting a word of that line moves the end of both matches
   one line down and the exception no longer applies: the match is lost.  Nothing else may differ. *)
LineTouchSig(e) ==
  LET a == NonCopy(last[e.a].ms)  b == NonCopy(last[e.b].ms)
      Key(m) == [k |-> m.k, cb |-> m.cb, st |-> m.st, et |-> m.et]
      B == {Key(b[i]) : i \in 1..Len(b)}
      lost == {i \in 1..Len(a) : Key(a[i]) \notin B}
  IN /\ e.split > 0 /\ lost # {} /\ Len(b) + Cardinality(lost) = Len(a)
     /\ \A i \in 1..Len(b) : \E j \in 1..Len(a) : Key(a[j]) = Key(b[i])
     /\ \A i \in lost : /\ a[i].sl = e.split /\ a[i].el = e.split
                          /\ \E j \in 1..Len(a) : j \notin lost /\ a[j].sl < e.split /\ a[j].el = e.split /\ a[j].r >= a[i].r

PairOK(e) ==
  \/ PairCore(e)
  \/ DevLineTouchSplit /\ e.kind = "hyphen-split" /\ LineTouchSig(e) /\ PrintT(<<"DEV", "DevLineTouchSplit", e.a, e.b>>)
  \/ DevClampShift /\ e.kind = "shift" /\ ClampSig(e) /\ PrintT(<<"DEV", "DevClampShift", e.a, e.b>>)
  \/ DevC11HyphenToken /\ e.alignclass = "token-ends-in-hyphen" /\ PrintT(<<"DEV", "DevC11HyphenToken", e.a, e.b>>)
  \/ DevC11CleanedNotice /\ e.alignclass = "cleaned-line-is-notice" /\ PrintT(<<"DEV", "DevC11CleanedNotice", e.a, e.b>>)
Pair(e) == e.a \in DOMAIN last /\ e.b \in DOMAIN last /\ PairOK(e) /\ UNCHANGED cvars
=============================================================================
