SPECIFICATION Spec
CONSTANTS Ids = {1, 2, 3, 4}
          Prios = {1, 2, 3}
          MaxDepth = 0
          MaxLen = 4
VIEW View
INVARIANTS Inv MinIsMin
PROPERTIES PopsMin Conserve
CHECK_DEADLOCK FALSE
