------------------------------ MODULE V2PoolMC ------------------------------
EXTENDS V2Pool
MCFiles == {"f1", "f2", "f3"}
MCMatches == [f \in MCFiles |-> IF f = "f1" THEN 2 ELSE IF f = "f2" THEN 1 ELSE 0]
=============================================================================
