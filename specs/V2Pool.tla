------------------------------- MODULE V2Pool -------------------------------
(* S4, pool part -- ClassifierBackend.ClassifyLicenses of the v2 identify_license tool (C19).

     task := make(chan bool, numTasks) filled with numTasks tokens
     for each file: wg.Add(1); <-task; go analyze(file)       analyze: classifyLicense; wg.Done(); task <- true
     go { wg.Wait(); close(task); close(errs) };  range errs
     classifyLicense: for each match of the file { mu.Lock(); results = append(results, ...); mu.Unlock() }

   The append is a read-modify-write of the slice header: modelled as two steps (load, store) so that
   TLC explores what happens when it is not done under an exclusive lock (Exclusive = FALSE).          *)
EXTENDS Integers, FiniteSets, TLC

CONSTANTS Files, NMatches, Tasks, Exclusive,    \* NMatches: file -> number of matches Match returns for it
          DoneFirst                             \* TRUE: the deferred function runs wg.Done() before task <- true (as built before fix 458b842)

VARIABLES tokens, pending, st, left, mu, results, loaded, wg, closed, sendOnClosed
vars == <<tokens, pending, st, left, mu, results, loaded, wg, closed, sendOnClosed>>

Init == /\ tokens = Tasks /\ pending = Files /\ st = [f \in Files |-> "idle"] /\ left = NMatches
        /\ mu = "none" /\ results = 0 /\ loaded = [f \in Files |-> 0] /\ wg = 0 /\ closed = FALSE /\ sendOnClosed = FALSE

Spawn(f) == /\ f \in pending /\ tokens > 0                       \* main: wg.Add(1); <-task; go analyze(f)
            /\ tokens' = tokens - 1 /\ wg' = wg + 1 /\ pending' = pending \ {f}
            /\ st' = [st EXCEPT ![f] = IF left[f] > 0 THEN "lock" ELSE "fin"]
            /\ UNCHANGED <<left, mu, results, loaded, closed, sendOnClosed>>
Lock(f) == /\ st[f] = "lock" /\ (Exclusive => mu = "none")
           /\ mu' = IF Exclusive THEN f ELSE mu
           /\ st' = [st EXCEPT ![f] = "load"] /\ UNCHANGED <<tokens, pending, left, results, loaded, wg, closed, sendOnClosed>>
Load(f) == /\ st[f] = "load"                                    \* append: read len(results)
           /\ loaded' = [loaded EXCEPT ![f] = results]
           /\ st' = [st EXCEPT ![f] = "store"] /\ UNCHANGED <<tokens, pending, left, mu, results, wg, closed, sendOnClosed>>
Store(f) == /\ st[f] = "store"                                  \* append: write the new slice header
            /\ results' = loaded[f] + 1 /\ left' = [left EXCEPT ![f] = @ - 1]
            /\ st' = [st EXCEPT ![f] = "unlock"] /\ UNCHANGED <<tokens, pending, mu, loaded, wg, closed, sendOnClosed>>
Unlock(f) == /\ st[f] = "unlock"
             /\ mu' = IF Exclusive THEN "none" ELSE mu
             /\ st' = [st EXCEPT ![f] = IF left[f] > 0 THEN "lock" ELSE "fin"]
             /\ UNCHANGED <<tokens, pending, left, results, loaded, wg, closed, sendOnClosed>>
(* the deferred function of analyze(): two separate steps, in the order given by DoneFirst *)
Fin(f) == /\ st[f] = "fin"
          /\ IF DoneFirst THEN wg' = wg - 1 /\ UNCHANGED <<tokens, sendOnClosed>>
             ELSE tokens' = tokens + 1 /\ sendOnClosed' = (sendOnClosed \/ closed) /\ UNCHANGED wg
          /\ st' = [st EXCEPT ![f] = "fin2"]
          /\ UNCHANGED <<pending, left, mu, results, loaded, closed>>
Fin2(f) == /\ st[f] = "fin2"
           /\ IF DoneFirst THEN tokens' = tokens + 1 /\ sendOnClosed' = (sendOnClosed \/ closed) /\ UNCHANGED wg   \* task <- true after close(task): panic
              ELSE wg' = wg - 1 /\ UNCHANGED <<tokens, sendOnClosed>>
           /\ st' = [st EXCEPT ![f] = "done"]
           /\ UNCHANGED <<pending, left, mu, results, loaded, closed>>
Close == /\ ~closed /\ pending = {} /\ wg = 0 /\ closed' = TRUE   \* wg.Wait(); close(errs): ClassifyLicenses returns
         /\ UNCHANGED <<tokens, pending, st, left, mu, results, loaded, wg, sendOnClosed>>
Next == (\E f \in Files : Spawn(f) \/ Lock(f) \/ Load(f) \/ Store(f) \/ Unlock(f) \/ Fin(f) \/ Fin2(f)) \/ Close
Spec == Init /\ [][Next]_vars /\ WF_vars(Next)

Total == LET S[F \in SUBSET Files] == IF F = {} THEN 0 ELSE LET f == CHOOSE f \in F : TRUE IN NMatches[f] + S[F \ {f}] IN S[Files]
NoLostAppend == closed => results = Total                      \* every match of every file is reported exactly once
Holding(f)   == st[f] \in {"lock", "load", "store", "unlock", "fin"} \/ (st[f] = "fin2" /\ DoneFirst)   \* has a token
BoundedTasks == Cardinality({f \in Files : Holding(f)}) <= Tasks
NoSendOnClosed == ~sendOnClosed                                  \* no worker sends its token on the closed channel
Terminates   == <>closed
=============================================================================
