SPECIFICATION Spec
CONSTANTS Sigma = {"sp", "nb", "p", "P3", "a", "E2", "C4", "X"}
          MaxLen = 5
          TextFromRune = FALSE
          Emit = TRUE
CHECK_DEADLOCK FALSE
