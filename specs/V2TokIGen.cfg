SPECIFICATION Spec
CONSTANTS Sigma <- SigmaI
          MaxLen = 5
          Emit = TRUE
CHECK_DEADLOCK FALSE
