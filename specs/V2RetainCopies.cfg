SPECIFICATION Spec
CONSTANTS C4s = {4}
          MaxLine = 4
          Spans <- CopySpans
          Names = {1}
          MaxC = 4
          Emit = FALSE
INVARIANTS TouchingCopiesKept DisjointRetained
CHECK_DEADLOCK FALSE
