SPECIFICATION Spec
CONSTANTS Files <- MCFiles
          NMatches <- MCMatches
          Tasks = 2
          DoneFirst = FALSE
          Exclusive = FALSE
INVARIANTS NoLostAppend
CHECK_DEADLOCK FALSE
