SPECIFICATION Spec
CONSTANTS Sigma <- SigmaK
          MaxLen = 5
          Emit = FALSE
INVARIANTS FixpointDom Respace Decorate
CHECK_DEADLOCK FALSE
