SPECIFICATION Spec
CONSTANTS Sigma <- SigmaC
          MaxLen = 5
          Emit = FALSE
INVARIANTS Respace Decorate BlankLine NoticeIns Marker
CHECK_DEADLOCK FALSE
