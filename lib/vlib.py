"""Shared machinery for the /verif checks: scratch space, TLC runner, Go overlay
runner, evidence writer, known-findings matcher, verdict printing.

Exit codes used by bin/check: 0 property held (possibly with KNOWN-FINDING
lines), 1 VIOLATION, 2 could not decide (tool failure, timeout) -- never a
violation."""
import atexit, hashlib, json, os, re, shutil, subprocess, sys, tempfile, time

VERIF = os.path.dirname(os.path.dirname(os.path.abspath(__file__)))
REPO = os.environ.get("REPO", "/repo")
SPECS = os.path.join(VERIF, "specs")
OVERLAY = os.path.join(VERIF, "overlay")
EVID = os.environ.get("VERIF_EVID") or os.path.join(VERIF, "evidence")   # VERIF_EVID: development runs against scratch worktrees
TIER = os.environ.get("VERIF_TIER", "quick")
try:
    SEED = int(os.environ.get("VERIF_SEED", "1"))
except ValueError:
    SEED = 1
NCPU = os.cpu_count() or 4

GOENV = dict(os.environ, GOFLAGS="-mod=mod", GOPROXY="off", GOSUMDB="off",
             GOTOOLCHAIN="local", CGO_ENABLED=os.environ.get("CGO_ENABLED", "1"))

_scratch = None


class Inconclusive(Exception):
    pass


def scratch():
    """mkdtemp outside /repo and /verif, removed at exit."""
    global _scratch
    if _scratch is None:
        base = os.environ.get("VERIF_TMP", tempfile.gettempdir())
        _scratch = tempfile.mkdtemp(prefix="verif-", dir=base)
        if not os.environ.get("VERIF_KEEP"):
            atexit.register(shutil.rmtree, _scratch, True)
    return _scratch


def sub(name):
    d = os.path.join(scratch(), name)
    os.makedirs(d, exist_ok=True)
    return d


def log(*a):
    print("[verif]", *a, file=sys.stderr, flush=True)


# ----------------------------------------------------------------------------
# TLC
# ----------------------------------------------------------------------------
class TLCResult(dict):
    __getattr__ = dict.get


_RE_STATES = re.compile(r"^(\d+) states generated, (\d+) distinct states found, (\d+) states left on queue", re.M)
_RE_DEPTH = re.compile(r"The depth of the complete state graph search is (\d+)")
_RE_INV = re.compile(r"Invariant (\S+) is violated")
_RE_PROP = re.compile(r"(Action property|Temporal properties|Temporal property|property) (\S+)? ?(is|was|were) violated")


def tlaps(module, timeout=600, threads=8):
    """Run the TLA+ proof system on specs/<module>.tla in a scratch copy of specs/.  Returns (proved, obligations, tail):
    proved is True only when tlapm reports that ALL obligations were proved."""
    wd = tempfile.mkdtemp(prefix="tlaps-", dir=scratch())
    for f in os.listdir(SPECS):
        if f.endswith(".tla"):
            shutil.copy(os.path.join(SPECS, f), os.path.join(wd, f))
    t0 = time.time()
    try:
        p = subprocess.run(["tlapm", "--threads", str(threads), module + ".tla"], cwd=wd, stdout=subprocess.PIPE, stderr=subprocess.STDOUT, timeout=timeout)
        txt = p.stdout.decode(errors="replace")
    except subprocess.TimeoutExpired as e:
        txt = (e.stdout or b"").decode(errors="replace") + "\n[timeout]"
    except FileNotFoundError:
        txt = "tlapm not found"
    m = re.search(r"All (\d+) obligations? proved", txt)
    log("tlapm %s: %.1fs %s" % (module, time.time() - t0, m.group(0) if m else "NOT all proved"))
    return bool(m), int(m.group(1)) if m else 0, txt[-2000:]


def tlc(module, cfg, workdir=None, workers=None, timeout=600, extra=(), files=None,
        dfs=False, simulate=None, depth=None, seed=None, stdout_to=None, heap=None,
        coverage=False, deadlock=None):
    """Run TLC on specs/<module>.tla with specs/<cfg> in a scratch copy of specs/.
    files: {name: text} extra files written into the scratch copy (generated
    constants modules, traces).  Returns TLCResult with states, distinct, depth,
    ok (finished without error), violated (name or None), out (stdout text unless
    stdout_to given), printed (list of lines that look like JSON values)."""
    wd = workdir or tempfile.mkdtemp(prefix="tlc-", dir=scratch())
    for f in os.listdir(SPECS):
        if f.endswith(".tla") or f.endswith(".cfg"):
            dst = os.path.join(wd, f)
            if not os.path.exists(dst):
                shutil.copy(os.path.join(SPECS, f), dst)
    for name, text in (files or {}).items():
        with open(os.path.join(wd, name), "w") as fh:
            fh.write(text)
    meta = tempfile.mkdtemp(prefix="meta-", dir=wd)
    cmd = ["tlc", "-metadir", meta, "-config", cfg, "-noGenerateSpecTE"]
    if simulate:
        cmd += ["-simulate", simulate]
        if depth:
            cmd += ["-depth", str(depth)]
        if seed is not None:
            cmd += ["-seed", str(seed)]
    cmd += ["-workers", str(workers or min(NCPU, 8))]
    if coverage:
        cmd += ["-coverage", "1"]
    if deadlock is False:
        cmd += ["-deadlock"]
    cmd += list(extra) + [module]
    env = dict(os.environ)
    jopts = ["-Xss512m"]
    if heap:
        jopts.append("-Xmx%s" % heap)
    if dfs:
        jopts.append("-Dtlc2.tool.queue.IStateQueue=StateDeque")
    env["JAVA_TOOL_OPTIONS"] = " ".join(jopts)
    t0 = time.time()
    outpath = stdout_to or os.path.join(wd, "tlc.%s.out" % cfg)
    with open(outpath, "w") as fo:
        try:
            p = subprocess.run(cmd, cwd=wd, env=env, stdout=fo, stderr=subprocess.STDOUT, timeout=timeout)
            rc = p.returncode
            timed_out = False
        except subprocess.TimeoutExpired:
            rc, timed_out = -9, True
            subprocess.run(["pkill", "-f", meta], check=False)
    wall = time.time() - t0
    res = TLCResult(cmd=" ".join(cmd), rc=rc, wall=wall, timed_out=timed_out, outpath=outpath, wd=wd)
    log("tlc %s %s: %.1fs rc=%s" % (module, cfg, wall, rc))
    # stats are at the end of the file; read the tail only (stdout may be huge in gen mode)
    with open(outpath, "rb") as fh:
        fh.seek(0, 2)
        size = fh.tell()
        fh.seek(max(0, size - 200000))
        tail = fh.read().decode("utf-8", "replace")
    res["tail"] = tail
    m = None
    for m in _RE_STATES.finditer(tail):
        pass
    if m:
        res["generated"], res["distinct"], res["queue"] = int(m.group(1)), int(m.group(2)), int(m.group(3))
    m = _RE_DEPTH.search(tail)
    if m:
        res["depth"] = int(m.group(1))
    m = _RE_INV.search(tail)
    res["violated"] = m.group(1) if m else None
    if not res["violated"]:
        m = _RE_PROP.search(tail)
        if m:
            res["violated"] = m.group(2) or "property"
    m = re.search(r"Postcondition (\S+) .*is false", tail)
    if m:
        res["violated"] = res["violated"] or "POSTCONDITION:" + m.group(1)
    if re.search(r"Deadlock reached", tail):
        res["violated"] = res["violated"] or "Deadlock"
    res["error"] = bool(re.search(r"^Error: ", tail, re.M)) or rc not in (0, 12, 13)
    res["ok"] = (rc == 0) and not res["violated"] and not timed_out
    return res


def tlc_require_ok(res, what):
    """Model-check runs that are expected to pass: anything else is inconclusive
    (a spec problem, never a verdict about the code)."""
    if res.timed_out:
        raise Inconclusive("TLC timed out: %s (%s)" % (what, res.cmd))
    if not res.ok:
        raise Inconclusive("TLC did not pass: %s violated=%s rc=%s\n%s" % (what, res.violated, res.rc, res.tail[-3000:]))
    return res


def json_lines(path, prefix=None):
    """Yield JSON values printed by TLC via PrintT(ToJson(..)) from a TLC stdout file.
    ToJson output is printed as a TLA+ string value: "...", with inner quotes escaped."""
    with open(path, "r", errors="replace") as fh:
        for line in fh:
            line = line.rstrip("\n")
            if not line:
                continue
            c = line[0]
            if c == '"':
                # TLC prints a string value with TLA+ escaping
                try:
                    s = json.loads(line)
                except Exception:
                    continue
                if s and s[0] in "{[":
                    try:
                        yield json.loads(s)
                    except Exception:
                        continue
            elif c in "{[" and line[-1] in "}]":
                try:
                    yield json.loads(line)
                except Exception:
                    continue


# ----------------------------------------------------------------------------
# Go
# ----------------------------------------------------------------------------
def module_of(pkgdir):
    """pkgdir relative to REPO, e.g. 'v2' or 'internal/sets'. Returns module dir."""
    if pkgdir == "v2" or pkgdir.startswith("v2/"):
        return os.path.join(REPO, "v2")
    return REPO


_PKG_RE = re.compile(r"^package\s+\S+", re.M)


def go_overlay_test(pkgdir, sources, run, env=None, tags="verif", race=False, timeout=900,
                    extra_files=None, pkgname=None, args=(), capture=True, count=True, abs_extra=None):
    """Compile+run in-package driver tests without writing into the repo:
    sources: list of files under /verif/overlay (their `package` clause is rewritten
    to the package's own name); they are mapped into REPO/<pkgdir>/zz_verif_*.go via
    `go test -overlay`.  Rebuilds from REPO's current working tree on every call."""
    wd = tempfile.mkdtemp(prefix="ov-", dir=scratch())
    pdir = os.path.join(REPO, pkgdir)
    if pkgname is None:
        pkgname = detect_pkgname(pdir)
    repl = {}
    for i, src in enumerate(sources):
        text = open(os.path.join(OVERLAY, src)).read()
        text = _PKG_RE.sub("package " + pkgname, text, count=1)
        base = os.path.basename(src)
        if not base.endswith(".go"):
            base += ".go"
        dst = os.path.join(wd, "f%d_%s" % (i, base))
        with open(dst, "w") as fh:
            fh.write(text)
        repl[os.path.join(pdir, "zz_verif_" + base)] = dst
    for name, path in (extra_files or {}).items():
        repl[os.path.join(pdir, name)] = path
    for target, path in (abs_extra or {}).items():      # files added to OTHER packages of the build (accessors)
        repl[target] = path
    ov = os.path.join(wd, "overlay.json")
    with open(ov, "w") as fh:
        json.dump({"Replace": repl}, fh)
    cmd = ["go", "test", "-vet=off", "-overlay", ov, "-run", run, "-timeout", "%ds" % timeout]
    if count:
        cmd += ["-count=1"]
    if tags:
        cmd += ["-tags", tags]
    if race:
        cmd += ["-race"]
    cmd += ["."] + list(args)
    e = dict(GOENV)
    e.update(env or {})
    t0 = time.time()
    try:
        p = subprocess.run(cmd, cwd=pdir, env=e, stdout=subprocess.PIPE, stderr=subprocess.STDOUT,
                           timeout=timeout + 120)
        out, rc = p.stdout.decode("utf-8", "replace"), p.returncode
    except subprocess.TimeoutExpired as ex:
        out, rc = (ex.stdout or b"").decode("utf-8", "replace") + "\n[verif] go test timed out", -9
    log("go test %s -run %s: %.1fs rc=%s" % (pkgdir, run, time.time() - t0, rc))
    return rc, out, time.time() - t0


def detect_pkgname(pdir):
    for f in sorted(os.listdir(pdir)):
        if f.endswith(".go") and not f.endswith("_test.go"):
            m = re.search(r"^package\s+(\S+)", open(os.path.join(pdir, f)).read(), re.M)
            if m:
                return m.group(1)
    raise Inconclusive("no package in " + pdir)


def build_failed(out):
    return "[build failed]" in out or "[setup failed]" in out or "cannot find package" in out


def read_ndjson(path):
    res = []
    if not os.path.exists(path):
        return res
    with open(path) as fh:
        for line in fh:
            line = line.strip()
            if line:
                try:
                    res.append(json.loads(line))
                except Exception:
                    pass  # torn last line of a crashed child
    return res


# ----------------------------------------------------------------------------
# known findings / verdicts / evidence
# ----------------------------------------------------------------------------
def known_findings(pid):
    path = os.path.join(VERIF, "known_findings.json")
    if not os.path.exists(path):
        return []
    data = json.load(open(path))
    return [e for e in data.get("findings", []) if e.get("property") == pid]


class Verdict:
    """Collects failures observed on the real code, separates listed open findings
    from new violations, prints the interface lines and returns the exit code."""

    def __init__(self, pid):
        self.pid = pid
        self.known = [e for e in known_findings(pid) if e.get("status") == "open"]
        self.seen_known = {}
        self.violations = []
        self.inconclusive = []

    def fail(self, signature, case):
        """signature: short stable string classifying the failure (deviation /
        call-site class); case: JSON-able description with the concrete input."""
        for e in self.known:
            if e["key"].get("signature") == signature:
                self.seen_known.setdefault(e["id"], (e, []))[1].append(case)
                return "known"
        self.violations.append({"signature": signature, "case": case})
        return "violation"

    def finish(self):
        for fid, (e, cases) in sorted(self.seen_known.items()):
            print("KNOWN-FINDING: property=%s %s -- %s (%d cases this run)" % (self.pid, fid, e["what"], len(cases)))
        if self.violations:
            os.makedirs(os.path.join(EVID, "replays"), exist_ok=True)
            path = os.path.join(EVID, "replays", "%s-%d.json" % (self.pid, SEED))
            with open(path, "w") as fh:
                json.dump({"property": self.pid, "seed": SEED, "tier": TIER,
                           "violations": self.violations[:50], "total": len(self.violations)}, fh, indent=1)
            print("VIOLATION property=%s replay=%s" % (self.pid, path))
            for v in self.violations[:5]:
                log("violation:", json.dumps(v)[:1500])
            return 1
        return 0


def write_evidence(pid, coverage, assumptions, wall, violations=0, level="model_checking"):
    os.makedirs(EVID, exist_ok=True)
    ev = {"property_id": pid, "tier": TIER if TIER in ("quick", "thorough") else "quick", "seed": SEED,
          "level": level, "coverage": coverage, "assumptions": assumptions,
          "wall_s": round(wall, 2), "violations": violations}
    tmp = os.path.join(EVID, pid + ".json.tmp")
    with open(tmp, "w") as fh:
        json.dump(ev, fh, indent=1)
    os.replace(tmp, os.path.join(EVID, pid + ".json"))


def sha(b):
    if isinstance(b, str):
        b = b.encode()
    return hashlib.sha256(b).hexdigest()[:16]
